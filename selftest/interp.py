#!/usr/bin/env python3
"""Differential self-test of the checker's AST interpreter (tlint.orders) against CPython on small pure functions that use the
idioms refactorings introduce.  Every snippet defines f(); its value (or the type of the exception it raises) must be the same under
both.  A snippet the interpreter declines (Unsupported) is listed, not counted as a failure: declining is an analysis error at
worst, never a wrong verdict.  Usage: python3 selftest/interp.py"""
import ast
import math
import os
import sys

sys.path.insert(0, os.path.dirname(os.path.dirname(os.path.abspath(__file__))))
from tlint import orders  # noqa: E402

SNIPPETS = r'''
def f():
    return min([], default=7), max([3, 1, 2], key=lambda v: -v), min((2, 5), default=0)
---
def f():
    return min([])
---
def f():
    return [i * v for i, v in enumerate([5, 6, 7], 1)], list(enumerate('ab', start=3))
---
def f():
    first, *rest = [1, 2, 3, 4]
    *init, last = (1, 2, 3)
    a, (b, c) = 1, (2, 3)
    return first, rest, init, last, a, b, c
---
def f():
    xs = [3, 1, 2]
    ys = sorted(xs, reverse=True)
    xs.sort(key=lambda v: -v)
    return xs, ys, sorted('bca'), sorted({3: 'a', 1: 'b'})
---
def f():
    d = {'a': 1}
    d.setdefault('b', []).append(2)
    return d.get('z', 9), d.get('a'), sorted(d.items()), d.pop('a'), d
---
def f():
    return any(v > 2 for v in [1, 2, 3]), all([]), sum(v * v for v in range(4)), sum([1, 2], 10), sum([[1], [2]], [])
---
def f():
    table = ((int, 'i'), (float, 'f'), (str, 's'))
    out = []
    for v in (1, 2.0, 'x', True, None):
        for t, name in table:
            if isinstance(v, t):
                out.append(name)
                break
        else:
            out.append('?')
    return out
---
def f():
    x = 5
    return 1 < x <= 5, 1 < x < 3 < 10, (0 if x else 1), (x and 'y') or 'n', not x == 5
---
def f():
    if (n := len([1, 2, 3])) > 2:
        return n
    return -1
---
def f():
    return {k: v for k, v in zip('abc', range(3)) if v}, {v % 2 for v in range(5)}, dict(a=1, b=2), dict([(1, 2)])
---
def f():
    return '%5.2f|%s|%d' % (3.14159, 'a', 7), '{:>4}|{!r}'.format(3, 'x'), f'{3.14159:.3f}|{"a"!r}|{12:04d}|{1 + 1}'
---
def f():
    return ', '.join(str(v) for v in (1, 2)), 'a,b'.split(','), ' x '.strip(), 'abc'[::-1], 'abc'.upper(), 'a-b'.replace('-', '+'), 'ab'.startswith('a')
---
def f():
    try:
        return [1, 2][5]
    except IndexError:
        return 'index'
    finally:
        pass
---
def f():
    try:
        x = int('12')
    except ValueError:
        x = -1
    else:
        x += 1
    return x
---
def f():
    def gen(n):
        for i in range(n):
            if i % 2:
                continue
            yield i * i
    return list(gen(6)), sum(gen(4)), next(iter(gen(3)), None)
---
def f():
    acc = []
    for i in range(10):
        if i == 7:
            break
        acc.append(i)
    else:
        acc.append('done')
    k = 0
    while k < 3:
        k += 1
    else:
        acc.append(k)
    return acc
---
def f():
    a = [1, 2, 3]
    b = a
    b += [4]
    c = a + [5]
    t = (1, 2)
    u = t
    u += (3,)
    return a, b is a, c, t, u
---
def f():
    return 7 // 2, -7 // 2, 7 % 3, -7 % 3, 7 / 2, 2 ** 10, 2 ** -1, divmod(7, 2), round(2.5), round(3.5), round(2.675, 2), int(-2.7), abs(-3)
---
def f():
    return 0.1 + 0.2, 1e308 * 10, -0.0 == 0.0, float('nan') != float('nan'), float('inf') > 1e308, 1 / 3
---
def f():
    return 1 / 0
---
def f():
    return [1, 2, 3][-1], [1, 2, 3][-3:], [1, 2, 3][:-1], [1, 2, 3][::2], (1, 2, 3)[1:], list(range(5, 0, -2)), [1, 2, 3][5:]
---
def f():
    x = None
    return x is None, x == None, 0 is False, 0 == False, 1 is True, [] == [], [] is [], '' or 'd', 0 or 0.0, None or 0
---
def f():
    fs = [lambda v, k=k: v + k for k in range(3)]
    gs = [lambda v: v + k for k in range(3)]
    return [g(10) for g in fs], [g(10) for g in gs]
---
def f():
    def outer():
        total = 0
        def add(v):
            nonlocal total
            total += v
            return total
        return add
    a = outer()
    a(2)
    return a(3)
---
def f():
    def g(a, b=2, *args, c=3, **kw):
        return a, b, args, c, sorted(kw.items())
    return g(1), g(1, 5, 6, 7, c=8, z=9), g(*[1, 2], **{'c': 4})
---
def f():
    def g(acc=[]):
        acc.append(1)
        return len(acc)
    return g(), g(), g([])
---
def f():
    return list(map(lambda a, b: a * b, [1, 2], [3, 4])), list(filter(None, [0, 1, '', 'a'])), list(zip([1, 2, 3], 'ab')), list(reversed([1, 2]))
---
def f():
    a, b = 1, 2
    a, b = b, a + b
    x = y = []
    x.append(1)
    return a, b, y
---
def f():
    class_like = {'add': lambda a, b: a + b, 'sub': lambda a, b: a - b}
    return [class_like[k](5, 3) for k in sorted(class_like)]
---
def f():
    s = 0
    for i, (a, b) in enumerate(zip([1, 2], [3, 4])):
        s += i * (a + b)
    return s
---
def f():
    return max(3, 7, 5), min(3, 7, key=lambda v: -v), max([1, 5], default=0), max('abc'), min([[2, 1], [1, 9]])
---
def f():
    return isinstance(True, int), isinstance(1.0, (int, float)), isinstance('a', str), isinstance(None, type(None)), type(1) is int, type(1) == float
---
def f():
    return float('1e3'), int('  7 '), str(1.0), str(1e21), repr('a'), bool([]), bool([0]), list('ab'), tuple([1]), set([1, 1])
---
def f():
    return float('abc')
---
def f():
    d = {}
    return d['missing']
---
def f():
    return [1] * 3, 'ab' * 2, [0] * 0, [[0] * 2 for _ in range(2)], 3 in [1, 2, 3], 'a' not in 'xyz', 2 in {1: 'a', 2: 'b'}
---
def f():
    v = [3, 1, 2]
    return v.index(1), v.count(3), v.pop(), v.pop(0), v, [1, 2].copy(), [1, 2, 3].remove(2)
---
def f():
    return math.floor(-0.5), math.ceil(0.2), math.sqrt(16), math.hypot(3, 4), math.isnan(float('nan')), math.pi > 3, math.fabs(-2), math.atan2(1, 1)
---
def f():
    out = []
    for k in sorted({'b': 2, 'a': 1}):
        out.append(k)
    d = {'x': 1, 'y': 2}
    for k, v in d.items():
        out.append((k, v))
    return out, list(d), list(d.values()), len(d), 'x' in d
---
def f():
    data = [('a', 3), ('b', 1), ('c', 3)]
    return sorted(data, key=lambda p: (-p[1], p[0])), min(data, key=lambda p: p[1]), max(data, key=lambda p: p[1])
---
def f():
    total = 0
    for x in (v for v in range(5) if v % 2 == 0):
        total += x
    it = iter([1, 2, 3])
    a = next(it)
    b = next(it, 'end')
    c = next(it, 'end')
    d = next(it, 'end')
    return total, a, b, c, d
---
def f():
    x = 10
    x -= 3
    x *= 2
    x //= 4
    x **= 2
    x %= 5
    y = 7
    y /= 2
    return x, y
---
def f():
    s = 'a'
    s += 'b'
    t = s
    s += 'c'
    return s, t
---
def f():
    return [v for row in [[1, 2], [3]] for v in row if v != 2], [(a, b) for a in range(2) for b in range(a + 1)]
---
def f():
    return (lambda *a, **k: (a, k))(1, 2, z=3), (lambda: 5)()
---
def f():
    return 5 if False else 6, [1, 2][True], -True, +(-3), ~5, 5 & 3, 5 | 3, 5 ^ 3, 1 << 4, 256 >> 2
---
def f():
    a = [1, 2, 3, 4]
    a[1:3] = [9]
    del a[0]
    b = {'k': 1}
    del b['k']
    return a, b
---
def f():
    assert 1 == 1
    assert [] == [], 'msg'
    return 'ok'
---
def f():
    assert 1 == 2, 'boom'
---
def f():
    log = []
    def noisy(v):
        log.append(v)
        return v
    g = (noisy(v) for v in [1, 2, 3, 4])
    first = next(g)
    found = next((v for v in g if v > 2), None)
    return first, found, log, next(g, 'end'), next(g, 'end')
---
def f():
    log = []
    def check(v):
        log.append(v)
        return v > 1
    return any(check(v) for v in [0, 1, 2, 3]), all(check(v) for v in [5, 0, 7]), log
---
def f():
    def count_up():
        n = 0
        while True:
            yield n
            n += 1
    g = count_up()
    return [next(g), next(g), next(g)], next(v for v in count_up() if v * v > 50)
---
def f():
    log = []
    def gen():
        log.append('start')
        yield 1
        log.append('between')
        yield 2
        log.append('end')
    g = gen()
    log.append('created')
    a = next(g)
    log.append('got %d' % a)
    rest = list(g)
    return log, rest
---
def f():
    def inner():
        yield 1
        yield 2
        return 'done'
    def outer():
        r = yield from inner()
        yield r
        yield from [7, 8]
    return list(outer())
---
def f():
    def pairs(xs):
        for i, a in enumerate(xs):
            for b in xs[i + 1:]:
                if a == b:
                    continue
                yield a, b
        else:
            yield 'over', None
    return list(pairs([1, 2, 2, 3]))
---
def f():
    def g():
        try:
            yield 1
            yield 1 // 0
        except ZeroDivisionError:
            yield 'caught'
        finally:
            pass
        yield 'after'
    return list(g())
---
def f():
    def acc():
        total = 0
        while True:
            v = yield total
            if v is None:
                return
            total += v
    g = acc()
    out = [next(g), g.send(3), g.send(4)]
    return out
---
def f():
    import itertools
    xs = [1, 2, 3, 4, 5]
    return (list(itertools.chain([1], (2, 3), 'ab')), list(itertools.islice(xs, 1, None)), list(itertools.islice(xs, 2)),
            list(itertools.accumulate(xs)), list(itertools.accumulate(xs, lambda a, b: a * b, initial=10)),
            list(zip(xs, itertools.islice(xs, 1, None))), list(itertools.islice(itertools.repeat(7), 3)), list(itertools.product('ab', [1, 2])))
---
def f():
    from itertools import chain as _chain, islice, count
    from functools import partial as _partial, reduce
    import operator as _op
    add3 = _partial(_op.add, 3)
    pw = _partial(pow, exp=2) if False else _partial(lambda a, b: a ** b, b=2)
    return (list(_chain(range(2), range(5, 7))), add3(4), pw(5), reduce(lambda a, b: a * b, [1, 2, 3, 4]), reduce(_op.add, [], 'z'),
            list(islice(count(10, 5), 3)), _op.itemgetter(1)(['a', 'b']), _op.itemgetter(0, 2)('xyz'), sorted([(2, 'b'), (1, 'z')], key=_op.itemgetter(0)),
            _op.gt(3, 2), _op.le(3, 2), _op.getitem({'k': 5}, 'k'), _op.neg(4), _op.contains([1, 2], 2), _op.not_(0))
---
def f():
    import functools
    log = []
    def step(acc, v):
        log.append((acc, v))
        return acc and (v <= 3)
    return functools.reduce(step, (v for v in [1, 2, 5, 1]), True), log
---
def f():
    data = [3, 8, 1]
    out = [(y := v * 2) + 1 for v in data]
    total = 0
    running = [total := total + v for v in data]
    hit = any((last := v) > 5 for v in data)
    return out, y, running, total, hit, last
---
def f():
    table = (('x', 1), ('y', 2))
    pick = lambda name: next((val for key, val in table if name == key), None)
    return pick('y'), pick('q'), next(iter([]), 'dflt')
---
def f():
    return next(iter([]))
---
def f():
    it = iter([1, 2, 3, 4, 5])
    a = list(zip(it, it))
    m = map(lambda v: v * 2, [1, 2, 3])
    first = next(m)
    return a, first, list(m), list(m), list(filter(None, [0, 1, '', 'a'])), list(map(lambda a, b: a + b, [1, 2, 3], [10, 20]))
---
def f():
    xs = [1, 2, 3]
    r = reversed(xs)
    e = enumerate(xs, start=1)
    return next(r), list(r), next(e), list(e), list(reversed(range(3))), list(reversed('ab'))
---
def f():
    calls = []
    def src():
        calls.append(1)
        return len(calls)
    return list(iter(src, 3)), calls
---
def f():
    heap = [5, 1, 4]
    import itertools
    def pop(h):
        return h.pop(0)
    return next(v for v in map(pop, itertools.repeat(heap)) if v < 3), heap
---
def f():
    d = {'a': 1, 'b': 2}
    get = d.__getitem__
    xs = [10, 20, 30]
    return list(map(get, ['b', 'a'])), list(map(xs.__getitem__, range(2))), dict(zip('ab', (1, 2))), dict(((k, v * 2) for k, v in d.items())), dict([('q', 1)], r=2)
---
def f():
    a, b = (v * 2 for v in (1, 2))
    first, *rest = (v for v in range(4))
    def args(*a, **k):
        return a, k
    return a, b, first, rest, args(*(v for v in 'ab'), **{'z': 1}), [*map(str, [1, 2])], sum(v for v in range(4)), sum((v for v in [1.5, 2]), 10)
---
def f():
    return min((v for v in [3, 1, 2]), default=9), max((v for v in []), default=9), min(3, 1, 2, key=lambda v: -v), sorted((v for v in [3, 1, 2]), reverse=True), max('abc', key=ord)
---
def f():
    return max(v for v in [])
---
def f():
    g = (v for v in [1, 2])
    return len(g)
---
def f():
    f2 = len
    table = {'n': len, 's': str, 'm': max}
    return f2([1, 2]), table['n']('abc'), table['s'](12), table['m'](1, 5), list(map(str, [1, 2])), list(map(len, ['a', 'bb'])), list(map(abs, [-1, 2]))
---
def f():
    out = []
    for i, (a, b) in enumerate(zip('ab', (v for v in [1, 2, 3]))):
        out.append((i, a, b))
    return out, [x for x in (v for v in [1, 2, 3]) if x != 2], {k: v for k, v in zip('xy', (1, 2))}, list(zip([1, 2], 'ab', strict=True))
---
def f():
    return list(zip([1, 2], 'abc', strict=True))
---
def f():
    def gen():
        yield 1
        raise ValueError('boom')
    g = gen()
    a = next(g)
    try:
        next(g)
    except ValueError:
        a += 10
    return a, next(g, 'closed')
---
def f():
    import itertools
    groups = [[1, 2], [], [3]]
    return list(itertools.chain.from_iterable(groups)), list(itertools.starmap(lambda a, b: a + b, [(1, 2), (3, 4)])), list(itertools.takewhile(lambda v: v < 3, [1, 2, 3, 1])), list(itertools.zip_longest([1, 2], 'a', fillvalue='-')), list(itertools.pairwise([1, 2, 3]))
---
def f():
    import operator, functools
    xs = [1]
    ys = operator.iadd(xs, [2])
    return ys is xs, xs, operator.iadd(1, 2), functools.reduce(operator.iadd, [1.5, 2, 3], 0), operator.imul(3, 4), operator.isub(5, 1)
---
class P:
    K = 3
    def __init__(self, x, y=0):
        self.x = x
        self.y = y
    def __eq__(self, o):
        return isinstance(o, P) and abs(self.x - o.x) < 0.5
    def __lt__(self, o):
        return self.x < o.x
    def __hash__(self):
        return 7
    def __add__(self, o):
        return P(self.x + o.x, self.y + o.y)
    def __len__(self):
        return int(self.x)
    @property
    def norm(self):
        return abs(self.x) + abs(self.y)
    @property
    def tag(self):
        return self._tag
    @tag.setter
    def tag(self, v):
        self._tag = v * 2
    @classmethod
    def origin(cls):
        return cls(0, 0)
    @staticmethod
    def twice(v):
        return 2 * v
def f():
    a, b, c = P(1, 2), P(1.2, 5), P(4, -1)
    c.tag = 5
    s = a + c
    ps = sorted([c, a, b])
    return (a == b, a != c, a in [c, b], [p.x for p in ps], min([c, a]).x, max(c, a, key=lambda p: p.y).x, a.norm, c.tag, P.origin().x, P.K, a.K, P.twice(4), a.twice(3),
            s.x, s.y, sum([a, c], P(0)).x, bool(P(0)), bool(a), len({a: 1, b: 2}), getattr(a, 'norm'), hasattr(a, 'tag'), hasattr(c, 'tag'))
---
class Bag:
    def __init__(self, items):
        self.items = list(items)
    def __iter__(self):
        return iter(self.items)
    def __contains__(self, v):
        return v in self.items
    def __getitem__(self, i):
        return self.items[i]
class Seq:
    def __init__(self, n):
        self.n = n
    def __getitem__(self, i):
        if i >= self.n:
            raise IndexError(i)
        return i * i
class Count:
    def __init__(self, n):
        self.n = n
        self.i = 0
    def __iter__(self):
        return self
    def __next__(self):
        if self.i >= self.n:
            raise StopIteration
        self.i += 1
        return self.i
def f():
    b = Bag([3, 1, 2])
    x, y, z = b
    return (list(b), sorted(b), 2 in b, 5 in b, [v for v in Seq(4)], list(Seq(3)), sum(Seq(4)), list(Count(3)), max(Count(4)), list(zip(b, Count(2))), x, y, z,
            next(iter(b)), list(reversed(list(b))), any(v > 2 for v in b), dict(enumerate(b)), [*b, *Seq(2)], b[1], min(b))
---
class Base:
    scale = 2
    def __init__(self, v):
        self.v = v
    def value(self):
        return self.v * self.scale
    def describe(self):
        return 'base %s' % self.value()
    def __helper(self):
        return 'private of Base'
    def call_helper(self):
        return self.__helper()
class Child(Base):
    scale = 3
    def __init__(self, v, w):
        super().__init__(v)
        self.w = w
    def value(self):
        return super().value() + self.w
    def __helper(self):
        return 'private of Child'
    def call_mine(self):
        return self.__helper()
def f():
    c = Child(2, 1)
    b = Base(5)
    return c.value(), c.describe(), b.describe(), c.call_helper(), c.call_mine(), isinstance(c, Base), isinstance(b, Child), type(c).__name__, getattr(c, '_Child__helper')(), getattr(c, '_Base__helper')()
---
import itertools as _it
from functools import partial as _partial
import operator as _op
_TABLE = ((_op.lt, 'min'), (_op.gt, 'max'))
_PAIRS = tuple(_it.product((0, 1), repeat=2))
A, B = 10, 20
def _apply(kind, a, b):
    return next((name for test, name in _TABLE if test(a, b)), 'tie')
def f():
    g = _partial(_apply, 'k')
    return [g(a, b) for a, b in _PAIRS], A + B, list(_it.islice(_it.count(A), 2))
---
import collections
from collections import namedtuple, deque, defaultdict
_Pair = namedtuple('_Pair', 'left right')
class _Best:
    __slots__ = ('value', 'index')
    def __init__(self):
        self.value = None
        self.index = -1
    def offer(self, v, i):
        if self.value is None or v < self.value:
            self.value, self.index = v, i
        return self
def f():
    p = _Pair(1, 'b')
    q = p._replace(right='c')
    best = _Best()
    for i, v in enumerate([4, 2, 2, 7]):
        best.offer(v, i)
    dq = deque([1, 2, 3])
    dq.appendleft(0)
    x = dq.popleft()
    dq.append(9)
    groups = defaultdict(list)
    for k, v in (('a', 1), ('b', 2), ('a', 3)):
        groups[k].append(v)
    counts = collections.Counter('abca')
    od = collections.OrderedDict()
    od['z'] = 1
    od['a'] = 2
    stack = [1]
    seen = []
    while stack:
        n = stack.pop()
        seen.append(n)
        if n < 8:
            stack.extend([2 * n, 2 * n + 1])
    return (p.left, p.right, q, p == (1, 'b'), tuple(p), p._fields, best.value, best.index, x, list(dq), len(dq), dq[0], dict(groups), groups['zz'], sorted(counts.items()),
            counts['a'], list(od), seen, a_b(*p))
def a_b(a, b):
    return '%s-%s' % (a, b)
---
import heapq
import bisect
def f():
    h = []
    for v in (5, 1, 4, 1, 3):
        heapq.heappush(h, (v, str(v)))
    out = [heapq.heappop(h) for _ in range(3)]
    h2 = [9, 2, 7]
    heapq.heapify(h2)
    xs = [1, 3, 3, 7]
    bisect.insort(xs, 3)
    bisect.insort_left(xs, 0)
    return out, h, h2[0], heapq.nsmallest(2, [4, 1, 3]), heapq.nlargest(1, [4, 1, 3]), bisect.bisect_left(xs, 3), bisect.bisect_right(xs, 3), bisect.bisect(xs, 100), xs, heapq.heappushpop(h2, 1), heapq.heapreplace(h2, 10), sorted(h2)
---
import functools
import contextlib
_LOG = []
def _traced(fn):
    @functools.wraps(fn)
    def wrapper(*a, **k):
        _LOG.append(('call', fn.__name__, a))
        return fn(*a, **k)
    return wrapper
@_traced
def _double(v):
    return 2 * v
@functools.lru_cache(maxsize=None)
def _fib(n):
    _LOG.append(('fib', n))
    return n if n < 2 else _fib(n - 1) + _fib(n - 2)
@contextlib.contextmanager
def _flag(state, name):
    state[name] = True
    _LOG.append('enter')
    try:
        yield state
    finally:
        del state[name]
        _LOG.append('exit')
def f():
    st = {}
    with _flag(st, 'busy') as s:
        inside = dict(s)
    caught = None
    try:
        with _flag(st, 'again'):
            raise ValueError('x')
    except ValueError:
        caught = dict(st)
    return _double(4), _double.__name__, _fib(6), len([e for e in _LOG if e[0] == 'fib']), inside, st, caught, [e for e in _LOG if isinstance(e, str)]
---
def f():
    def kind(v):
        match v:
            case 0:
                return 'zero'
            case 1 | 2:
                return 'small'
            case (a, b):
                return 'pair %s %s' % (a, b)
            case [first, *rest] if rest:
                return 'seq %s +%d' % (first, len(rest))
            case str() as s:
                return 'text ' + s
            case int(n) if n < 0:
                return 'negative'
            case None:
                return 'none'
            case {'k': val}:
                return 'map %s' % val
            case _:
                return 'other'
    return [kind(v) for v in (0, 2, (3, 4), [5, 6, 7], 'ab', -3, None, 9.5, [1], {'k': 8, 'z': 0})]
---
class Grid:
    def __init__(self, n):
        self.cells = [[0] * n for _ in range(n)]
        self.n = n
    def __getitem__(self, ij):
        i, j = ij
        return self.cells[i][j]
    def __setitem__(self, ij, v):
        i, j = ij
        self.cells[i][j] = v
    def __len__(self):
        return self.n * self.n
    def __call__(self, k):
        return self.cells[k // self.n][k % self.n]
    def __str__(self):
        return 'Grid(%d)' % self.n
    def __repr__(self):
        return '<grid %d>' % self.n
    def __enter__(self):
        self.cells[0][0] = -1
        return self
    def __exit__(self, *exc):
        self.cells[0][0] = 0
        return False
def f():
    g = Grid(2)
    g[0, 1] = 5
    g[1, 0] += 2
    with g as h:
        inside = h[0, 0]
    return g[0, 1], g[1, 0], len(g), g(1), str(g), repr(g), '%s|%r' % (g, g), '{} {!r}'.format(g, g), f'{g}', [g], inside, g[0, 0], bool(g), callable(g)
---
def f():
    def counter():
        n = 0
        def bump(k=1):
            nonlocal n
            n += k
            return n
        return bump
    c = counter()
    c()
    c(5)
    rows = [[0] * 2] * 2
    rows[0][0] = 7
    d = dict.fromkeys('ab', [])
    d['a'].append(1)
    return c(), rows, d, -7 // 2, -7 % 3, int(-2.5), round(2.5), round(3.5), round(-0.5), divmod(-7, 2), [1, 2, 3][-5:2], list(range(10, 0, -3)), (1, 'a') < (1, 'b'), True + True, sorted([3, 1, 2])[::-1]
---
def f():
    log = []
    def inner(v):
        try:
            log.append('try')
            return 10 // v
        except KeyError:
            log.append('wrong handler')
        finally:
            log.append('finally')
    try:
        inner(0)
    except ArithmeticError as e:
        log.append('outer ' + type(e).__name__)
    try:
        [][3]
    except LookupError:
        log.append('lookup')
    try:
        {}['k']
    except (ValueError, LookupError):
        log.append('lookup2')
    try:
        int('x')
    except Exception:
        log.append('any')
    return log, inner(5)
---
def f():
    g = (v * v for v in range(3))
    first = list(g)
    second = list(g)
    m = map(str, [1, 2])
    a = list(m)
    b = list(m)
    z = zip('ab', [1, 2])
    return first, second, a, b, dict(z), dict(z), sum(g)
---
def f():
    d = {'a': 1, 'b': 2}
    try:
        for k in d:
            d[k + k] = 0
    except RuntimeError:
        return 'changed during iteration', len(d)
    return 'no error', len(d)
---
def f():
    xs = [1, 2, 3, 4]
    for v in xs:
        if v % 2 == 0:
            xs.remove(v)
    ys = [3, 1, 2]
    zs = sorted(ys)
    ys2 = ys
    ys2.sort()
    return xs, ys, zs, ys is ys2
---
def f():
    def gen():
        yield 1
        yield 2
    g = gen()
    return len(list(g)), len(list(g)), next(gen()), [v for v in gen()] + [v for v in gen()]
---
from collections import namedtuple as _namedtuple
class _Segment(_namedtuple('_SegmentBase', 'x1 y1 x2 y2')):
    __slots__ = ()
    def length(self):
        x1, y1, x2, y2 = self
        return ((x2 - x1) ** 2 + (y2 - y1) ** 2) ** 0.5
    def shifted(self, d):
        return self._replace(x1=self.x1 + d, x2=self.x2 + d)
class _Vertex(_namedtuple('_Vertex', 'x y')):
    __slots__ = ()
    @classmethod
    def of(cls, pair):
        return cls(pair[0], pair[1])
def _area(ax, ay, bx, by):
    return ax * by - ay * bx
def f():
    s = _Segment(0, 0, 3, 4)
    t = s.shifted(1)
    a, b = _Vertex.of((1, 2)), _Vertex.of([3, 5])
    return (s.length(), s[2], len(s), tuple(s), list(t), t.x1, s == (0, 0, 3, 4), s == t, s < t, _area(*a, *b), repr(a), a._fields, a._asdict(), isinstance(s, tuple), hash(a) == hash((1, 2)),
            {a: 1}[_Vertex(1, 2)], sorted([b, a])[0].x, max(a), bool(s))
---
def f():
    comp = None
    log = []
    def restart():
        nonlocal comp
        comp = True
    def accumulate(v):
        nonlocal comp
        comp = comp and v < 3
        log.append(comp)
    def fold(vs):
        restart()
        for v in vs:
            accumulate(v)
        return comp
    a = fold([1, 2])
    b = fold([1, 5, 2])
    k = 10
    def late():
        return k
    k = 20
    return a, b, comp, log, late()
---
class Pt:
    def __init__(self, x, y):
        self.x = x
        self.y = y
class Seg:
    def __init__(self, a, b):
        self.a = a
        self.b = b
def kind(v):
    match v:
        case int():
            return 'int'
        case Pt(x=0, y=yy):
            return 'on axis %s' % yy
        case Pt() | Seg():
            return 'geometry'
        case list():
            return 'list'
        case _:
            return 'other'
def f():
    return [kind(v) for v in (3, True, Pt(0, 5), Pt(1, 2), Seg(1, 2), [1], 'x', None)]
---
class Cal:
    DAYS = [31, 28, 31]
    BASE = 1970
    __secret = [0]
    def __init__(self, y):
        self.y = y
    def feb(self):
        return Cal.DAYS[1]
    def bump(self):
        Cal.DAYS[1] = 29
        Cal.__secret[0] += 1
        return self.DAYS
    def secret(self):
        return self.__secret[0]
    @classmethod
    def rebase(cls, b):
        cls.BASE = b
def f():
    a, b = Cal(1), Cal(2)
    before = a.feb()
    a.bump()
    seen = (b.feb(), b.DAYS is Cal.DAYS, b.secret())
    Cal.rebase(2000)
    b.BASE = 5
    return before, seen, a.BASE, b.BASE, Cal.BASE, Cal(3).BASE
---
from dataclasses import dataclass, field
from typing import NamedTuple
import enum
@dataclass
class _Acc:
    total: float = 0.0
    count: int = 0
    items: list = field(default_factory=list)
    def add(self, v):
        self.total += v
        self.count += 1
        self.items.append(v)
        return self
    @property
    def mean(self):
        return self.total / self.count if self.count else float('nan')
@dataclass(frozen=True)
class _Key:
    a: int
    b: str = 'x'
class _Pt(NamedTuple):
    x: float
    y: float = 0.0
    def norm1(self):
        return abs(self.x) + abs(self.y)
class _Mode(enum.IntEnum):
    MIN = 1
    MAX = 2
class _Color(enum.Enum):
    RED = 'r'
    BLUE = 'b'
def f():
    a = _Acc().add(2.0).add(4.0)
    b = _Acc()
    k1, k2 = _Key(1), _Key(1, 'x')
    try:
        k1.a = 5
        frozen = 'assigned'
    except AttributeError:
        frozen = 'refused'
    p = _Pt(3.0)
    x, y = p
    return (a.total, a.count, a.items, b.items, a.mean, a == _Acc(6.0, 2, [2.0, 4.0]), repr(k1), k1 == k2, hash(k1) == hash(k2), {k1: 1}[k2], frozen, p.norm1(), x, y, p._replace(y=2.0).y, p == (3.0, 0.0),
            _Mode.MIN == 1, _Mode.MAX + 1, _Mode(2) is _Mode.MAX, _Mode.MIN.name, _Mode.MAX.value, [m.name for m in _Mode], _Mode['MIN'] is _Mode.MIN, sorted([_Mode.MAX, _Mode.MIN]) == [1, 2],
            _Color.RED is _Color('r'), _Color.RED == 'r', _Color.BLUE.name, _Color.RED != _Color.BLUE, {_Color.RED: 1}[_Color.RED], isinstance(_Mode.MIN, int))
---
import functools
class _Shape:
    def __init__(self, n):
        self.n = n
class _Square(_Shape):
    pass
@functools.singledispatch
def _describe(v):
    return 'other'
@_describe.register(int)
def _(v):
    return 'int %d' % v
@_describe.register(str)
def _(v):
    return 'str ' + v
@_describe.register(list)
@_describe.register(tuple)
def _(v):
    return 'seq %d' % len(v)
@_describe.register(_Shape)
def _(v):
    return 'shape %d' % v.n
class _Box:
    def __init__(self, inner):
        self._inner = inner
        self.own = 1
    def __getattr__(self, name):
        return getattr(self._inner, name)
class _Walk:
    def __init__(self, xs):
        self.xs = xs
    def __iter__(self):
        for v in self.xs:
            if v < 0:
                return
            yield v * 2
    def pairs(self):
        yield from zip(self.xs, self.xs[1:])
def f():
    b = _Box(_Shape(7))
    return ([_describe(v) for v in (3, True, 'a', [1, 2], (1,), 2.5, None, _Shape(4), _Square(5))], b.own, b.n, list(_Walk([1, 2, -1, 5])), list(_Walk([1, 2, 3]).pairs()), hasattr(b, 'n'), hasattr(b, 'zz'))
---
def f():
    class Local:
        k = 3
        def __init__(self, v):
            self.v = v
        def twice(self):
            return 2 * self.v + self.k
    def make(n):
        return [Local(i) for i in range(n)]
    return [o.twice() for o in make(3)], Local.k, isinstance(make(1)[0], Local)
---
import dataclasses as _dataclasses
from dataclasses import dataclass as _dataclass, field as _field
from typing import NamedTuple as _NamedTuple
from enum import Enum as _Enum, IntEnum as _IntEnum
import enum as _enum
@_dataclass(frozen=True)
class _Seg:
    x1: float
    x2: float
    length: float = _field(init=False)
    def __post_init__(self):
        object.__setattr__(self, 'length', abs(self.x2 - self.x1))
    def __bool__(self):
        return self.length != 0
@_dataclasses.dataclass
class _Stack:
    items: list = _dataclasses.field(default_factory=list)
    count: int = 0
    def push(self, v):
        self.items.append(v)
        self.count += 1
class _Pair(_NamedTuple):
    a: int
    b: int = 5
    def total(self):
        return self.a + self.b
class _Fold(_Enum):
    ALL = True
    ANY = False
    @classmethod
    def of(cls, mode):
        return cls.ALL if mode == 1 else cls.ANY
    @property
    def neutral(self):
        return self.value
    def step(self, acc, v):
        return (acc and v) if self is _Fold.ALL else (acc or v)
class _Kind(_Enum):
    ENU = ('E', 'N', 1)
    GEO = ('lon', 'lat', 2)
    def __init__(self, first, second, digits):
        self.first = first
        self.second = second
        self.digits = digits
    def labels(self):
        return self.first + '/' + self.second
class _Dir(_enum.IntEnum):
    BACK = -1
    FWD = 1
class _Auto(_Enum):
    P = _enum.auto()
    Q = _enum.auto()
def f():
    s = _Seg(1.0, 4.0)
    st = _Stack()
    st.push(3)
    f1 = _Fold.of(1)
    return (s.length, bool(s), bool(_Seg(2.0, 2.0)), [fl.name for fl in _dataclasses.fields(s)], st.items, st.count, _Stack().items, _Pair(1).total(), tuple(_Pair(2, 3)),
            f1 is _Fold.ALL, f1.neutral, f1.step(True, False), _Fold.of(0).step(False, True), [m.name for m in _Fold], _Fold(False) is _Fold.ANY, repr(_Fold.ALL), str(_Fold.ANY),
            _Kind.GEO.labels(), _Kind.ENU.digits, _Kind.GEO.value, [k.first for k in _Kind], 3 * _Dir.BACK, _Dir.FWD == 1, _Dir(1) is _Dir.FWD, _Auto.P.value, _Auto.Q.value,
            {_Fold.ALL: 'x'}[_Fold.ALL], _Fold.ALL == _Fold.ALL, _Fold.ALL == True, _dataclasses.replace(st, count=9).count, _dataclasses.astuple(_Seg(0.0, 2.0)))
---
class _Heap:
    def __init__(self):
        self.data = []
    def push(self, v):
        self.data.append(v)
        self.data.sort()
    def pop_smallest(self):
        return self.data.pop(0)
    def __len__(self):
        return len(self.data)
def f():
    class Frontier:
        def __init__(self, inner):
            self._inner = inner
            self.pushed = 0
        def __getattr__(self, name):
            return getattr(self._inner, name)
        def __len__(self):
            return len(self._inner)
        def push(self, v):
            self.pushed += 1
            self._inner.push(v)
    fr = Frontier(_Heap())
    for v in (5, 2, 9):
        fr.push(v)
    out = []
    while fr:
        out.append(fr.pop_smallest())
    return out, fr.pushed, fr.data, len(fr)
---
class _Template:
    def _ranks(self, n):
        raise NotImplementedError
    def _combine(self, xs, i):
        raise NotImplementedError
    def run(self, xs):
        return [self._combine(xs, i) for i in self._ranks(len(xs))]
class _Backward:
    def _ranks(self, n):
        return range(1, n)
    def _combine(self, xs, i):
        return xs[i] - xs[i - 1]
class Diff(_Backward, _Template):
    pass
class Twice(_Template):
    def _ranks(self, n):
        return range(n)
    def _combine(self, xs, i):
        return 2 * xs[i]
_REGISTRY = []
def _register(tag):
    def deco(fn):
        _REGISTRY.append((tag, fn))
        return fn
    return deco
@_register('a')
def _first(v):
    return v + 1
@_register('b')
def _second(v):
    return v * 10
class Table:
    __HANDLERS = []
    def _handles(table, kind):
        def deco(fn):
            table.append((kind, fn))
            return fn
        return deco
    @_handles(__HANDLERS, int)
    def __byInt(self, v):
        return 'int %d' % v
    @_handles(__HANDLERS, str)
    def __byStr(self, v):
        return 'str ' + v
    def dispatch(self, v):
        for kind, fn in Table.__HANDLERS:
            if isinstance(v, kind):
                return fn(self, v)
        return 'none'
def f():
    t = Table()
    return Diff().run([1, 4, 9]), Twice().run([1, 2]), [(tag, fn(2)) for tag, fn in _REGISTRY], t.dispatch(3), t.dispatch('x'), t.dispatch(2.5)
---
from dataclasses import dataclass as _dataclass, field as _field
def f():
    scale = 3
    @_dataclass
    class _Search:
        start: tuple
        frontier: dict = _field(default_factory=lambda: {(0, 0): 0})
        done: list = _field(default_factory=list)
        steps: int = _field(default=0)
        label: str = _field(default='s', init=False)
        def settle(self):
            k = min(self.frontier)
            self.done.append(k)
            self.steps += 1
            return self.frontier.pop(k)
    s1, s2 = _Search((0, 0)), _Search((1, 1), {(2, 2): 5}, steps=4)
    s1.settle()
    try:
        _Search((0, 0), label='x')
        lab = None
    except TypeError:
        lab = 'TypeError'
    searches = (s1.done, s1.frontier, s1.steps, s2.frontier, s2.done, s2.steps, s1.label, lab, s1 == _Search((0, 0)), _Search((0, 0)) == _Search((0, 0)))
    @_dataclass(frozen=True)
    class _Feature:
        name: str
        layer: list
        weight: float = 1.5
        required = True
        def missing(self, have):
            return self.required and self.name not in have
        def value(self, v):
            return v * scale * self.weight
    class _Uid(_Feature):
        required = False
        def value(self, v):
            return 'uid'
    class _Twice(_Feature):
        def value(self, v):
            return 2 * super().value(v)
    fs = [(_Uid if n == 'uid' else _Feature)(n, []) for n in ('speed', 'uid')] + [_Twice('t', [], weight=2.0)]
    fs[0].layer.append(1)
    try:
        fs[0].name = 'x'
        frozen = False
    except Exception as ex:
        frozen = type(ex).__name__
    try:
        _Feature()
        need = None
    except TypeError:
        need = 'TypeError'
    return ([f_.missing({'a'}) for f_ in fs], [f_.value(2) for f_ in fs], fs[0] == _Feature('speed', [1]), fs[0] == fs[1], frozen, need,
            isinstance(fs[1], _Feature), isinstance(fs[0], _Uid), fs[2].weight, _Uid.required, _Feature.required, searches)
---
import enum as _enum
class _Rank(_enum.Enum):
    YEAR = "year"
    DAY = "day"
    MS = "ms"
    def of(self, rec):
        return rec[self.value]
*_COARSE, _FINEST = _Rank
_FIRST, *_REST = _Rank
_A = _B = 7
_P, _Q = divmod(17, 5)
def f():
    rec = {'year': 2020, 'day': 3, 'ms': 250}
    return ([r.name for r in reversed(_Rank)], [r.of(rec) for r in _COARSE], _FINEST.of(rec), _FIRST.name, [r.value for r in _REST], _A + _B, _P, _Q,
            len(_Rank), _Rank('day') is _Rank.DAY, _Rank['MS'].value)
---
from typing import NamedTuple as _NT
class _Line(_NT):
    a: float
    b: float
    c: float = 1.0
    @classmethod
    def through(cls, seg):
        return cls._make((seg[1] - seg[3], seg[2] - seg[0], seg[0] * seg[3] - seg[2] * seg[1]))
    def side(self, x, y):
        return self.a * x + self.b * y + self.c
def f():
    ln = _Line.through([0.0, 0.0, 2.0, 2.0])
    try:
        _Line._make([1.0])
        short = None
    except TypeError:
        short = 'TypeError'
    return ln.side(1.0, 0.0), ln.side(0.0, 1.0), tuple(ln), _Line._fields, short, _Line(1.0, 2.0).c, ln._replace(c=5.0).c, _Line._make(iter((1, 2, 3))).b
---
class _Found(Exception):
    def __init__(self, where, value):
        super().__init__('found')
        self.where = where
        self.value = value
def f():
    rows = [[1, 2], [3, 4], [5, 6]]
    def search(v):
        try:
            for i, r in enumerate(rows):
                for j, x in enumerate(r):
                    if x == v:
                        raise _Found((i, j), x)
        except _Found as hit:
            return hit.where, hit.value, str(hit), hit.args
        else:
            return None
        finally:
            rows.append([0])
    return search(4), search(9), len(rows)
---
def f():
    out = []
    for n in (7, 8, 9):
        for d in range(2, n):
            if n % d == 0:
                out.append((n, d))
                break
        else:
            out.append((n, 'prime'))
    k = 0
    while k < 3:
        k += 1
    else:
        out.append(('done', k))
    _MISSING = object()
    d = {'a': None}
    out.append((d.get('a', _MISSING) is _MISSING, d.get('b', _MISSING) is _MISSING))
    it = iter([1, 2, 0, 4])
    out.append(list(iter(lambda: next(it), 0)))
    return out
---
import abc as _abc
class _Strategy(_abc.ABC):
    registry = {}
    def __init_subclass__(cls, code=None, **kw):
        super().__init_subclass__(**kw)
        if code is not None:
            _Strategy.registry[code] = cls
    @_abc.abstractmethod
    def pick(self, xs):
        ...
    def run(self, xs):
        return self.pick(list(xs))
class _First(_Strategy, code=1):
    def pick(self, xs):
        return xs[0]
class _Last(_Strategy, code=2):
    def pick(self, xs):
        return xs[-1]
def _make(code):
    return _Strategy.registry[code]()
def f():
    try:
        _Strategy()
        abstract = None
    except TypeError:
        abstract = 'TypeError'
    return _make(1).run((4, 5, 6)), _make(2).run((4, 5, 6)), sorted(_Strategy.registry), abstract, isinstance(_make(1), _Strategy)
---
import functools as _functools
@_functools.total_ordering
class _Key:
    def __init__(self, a, b):
        self.a, self.b = a, b
    def __eq__(self, o):
        return (self.a, self.b) == (o.a, o.b)
    def __lt__(self, o):
        return (self.a, self.b) < (o.a, o.b)
    def __hash__(self):
        return hash((self.a, self.b))
def f():
    ks = [_Key(2, 1), _Key(1, 5), _Key(1, 2)]
    s = sorted(ks)
    return [(k.a, k.b) for k in s], _Key(1, 1) <= _Key(1, 1), _Key(2, 0) > _Key(1, 9), _Key(1, 2) >= _Key(1, 3), max(ks).a, len({_Key(1, 1), _Key(1, 1)})
---
import functools as _functools
class _Positive:
    def __set_name__(self, owner, name):
        self.slot = '_' + name
    def __get__(self, obj, objtype=None):
        if obj is None:
            return self
        return getattr(obj, self.slot)
    def __set__(self, obj, value):
        if value <= 0:
            raise ValueError('positive')
        setattr(obj, self.slot, value)
class _Cell:
    width = _Positive()
    def __init__(self, width):
        self.width = width
        self.calls = 0
    @_functools.cached_property
    def area(self):
        self.calls += 1
        return self.width * self.width
def f():
    c = _Cell(3)
    a1, a2 = c.area, c.area
    try:
        c.width = -1
        err = None
    except ValueError as ex:
        err = str(ex)
    c.width = 5
    return a1, a2, c.calls, err, c.width, c._width, c.area
---
class _Scale:
    def __init__(self, k):
        self.k = k
        self.n = 0
    def __call__(self, x, *, offset=0):
        self.n += 1
        return self.k * x + offset
class _Countdown:
    def __init__(self, n):
        self.n = n
    def __iter__(self):
        return self
    def __next__(self):
        if self.n <= 0:
            raise StopIteration
        self.n -= 1
        return self.n
class _Restore:
    def __init__(self, box, key, value):
        self.box, self.key, self.value = box, key, value
    def __enter__(self):
        self.old = self.box[self.key]
        self.box[self.key] = self.value
        return self.box
    def __exit__(self, et, ev, tb):
        self.box[self.key] = self.old
        return et is KeyError
def f():
    s = _Scale(3)
    box = {'mode': 1}
    seen = []
    with _Restore(box, 'mode', 2) as b:
        seen.append(b['mode'])
    with _Restore(box, 'mode', 7):
        seen.append(box['mode'])
        raise KeyError('swallowed')
    try:
        with _Restore(box, 'mode', 9):
            raise ValueError('x')
    except ValueError:
        seen.append('ve')
    return list(map(s, [1, 2])), s(1, offset=4), s.n, list(_Countdown(3)), sum(_Countdown(4)), seen, box, callable(s)
---
def _register(cls):
    cls.tag = cls.__name__.lower()
    cls.describe = lambda self: self.tag + str(self.v)
    return cls
@_register
class _Box:
    def __init__(self, v):
        self.v = v
def _g(a, b, /, c, *, d=4, **rest):
    return a, b, c, d, sorted(rest.items())
def _fwd(*args, **kwargs):
    return _g(*args, **kwargs)
def f():
    try:
        _g(1, 2, 3, 5)
        e1 = None
    except TypeError:
        e1 = 'TypeError'
    try:
        _g(1, b=2, c=3)
        e2 = None
    except TypeError:
        e2 = 'TypeError'
    pos = (1, 2)
    kw = {'c': 3, 'z': 0}
    return _Box(3).describe(), _Box.tag, _fwd(1, 2, 3, d=5, e=6), _fwd(*pos, **kw), e1, e2
---
import operator as _op
class _P:
    def __init__(self, x, y):
        self.x, self.y = x, y
    def norm1(self, k=1):
        return k * (abs(self.x) + abs(self.y))
def f():
    ps = [_P(3, -1), _P(1, 2), _P(1, -5)]
    gx, gxy = _op.attrgetter('x'), _op.attrgetter('x', 'y')
    rows = [(1, 'b', 2.5), (0, 'a', 1.5)]
    cols = list(zip(*rows))
    return ([gx(p) for p in ps], [gxy(p) for p in sorted(ps, key=gxy)], list(map(_op.methodcaller('norm1'), ps)), _op.methodcaller('norm1', k=2)(ps[0]),
            _op.itemgetter(1)(rows[0]), _op.itemgetter(2, 0)(rows[1]), sorted(rows, key=_op.itemgetter(1)), cols, divmod(-7, 2), divmod(7.5, 2))
---
def f():
    s = 'track_12.csv.bak'
    t = {ord('_'): '-', ord('.'): None}
    d1, d2 = {'a': 1, 'b': 2}, {'b': 3, 'c': 4}
    xs = list(range(10))
    return (s.partition('.'), s.rpartition('.'), s.rsplit('.', 1), s.split('.', 1), 'x'.partition('.'), '7'.zfill(3), '-7'.zfill(4), 'ab'.ljust(4, '.'), 'ab'.rjust(4),
            '{a}-{b}'.format_map(d1), s.translate(t), d1 | d2, d1.keys() & d2.keys(), d1.keys() - d2.keys(), sorted(d1.items() | d2.items()), {1, 2} | {2, 3}, {1, 2} & {2, 3}, {1, 2} - {2}, {1, 2} ^ {2, 3},
            xs[::2], xs[::-3], xs[-3:], xs[8:2:-2], xs[:-7:-1], s[::-1][:3], 1 < 2 <= 2 < 3, 'y' if xs else 'n', any(x > 8 for x in xs), all(x < 9 for x in xs),
            sorted([(2, 'a'), (1, 'b'), (2, 'A')], key=lambda r: (-r[0], r[1])), list(d1.items())[-1], s.startswith(('tr', 'x')), s.endswith('.bak'), s.casefold(), ' a b '.split(), 'a,b,,c'.split(','), s.count('.'), s.find('z'), s.index('1'))
---
class _Stack:
    def __init__(self):
        self._items = []
    def push(self, *xs):
        self._items.extend(xs)
    def __bool__(self):
        return bool(self._items)
    def pop(self):
        return self._items.pop()
def _walk(tree):
    stack = _Stack()
    stack.push(tree)
    while stack:
        node = stack.pop()
        if isinstance(node, tuple):
            stack.push(*reversed(node))
        else:
            yield node
def _depth(tree):
    return 1 + max(map(_depth, tree), default=0) if isinstance(tree, tuple) else 0
def f():
    t = (1, (2, (3, 4)), (), 5)
    return list(_walk(t)), _depth(t), _depth(())
---
class _Err(ValueError):
    pass
def _parse(s):
    try:
        return int(s)
    except ValueError:
        raise _Err('bad %r' % s) from None
def f():
    out = []
    for s in ('4', 'x'):
        try:
            out.append(_parse(s))
        except ValueError as ex:
            out.append((type(ex).__name__, str(ex), isinstance(ex, _Err), ex.__cause__ is None))
    try:
        try:
            raise KeyError('k')
        except KeyError as ex:
            raise RuntimeError('wrapped') from ex
    except RuntimeError as ex2:
        out.append((str(ex2), type(ex2.__cause__).__name__))
    return out
---
class _W:
    __slots__ = ('a', 'b')
    def __init__(self, a, /, b=2, *, c=0):
        self.a, self.b = a + c, b
    def mix(self, x, /, *rest, k=1):
        return self.a * x + self.b * k + sum(rest)
    @staticmethod
    def twice(v, /):
        return 2 * v
    @classmethod
    def of(cls, v, /, *, c=1):
        return cls(v, c=c)
def g(a, /, b, *, c=3):
    return a, b, c
def f():
    w = _W(1, b=5, c=2)
    return w.mix(2), w.mix(2, 10, 20, k=3), _W.twice(4), w.twice(5), _W.of(7).a, _W.of(7, c=4).a, g(1, 2), g(1, b=2, c=9), (lambda x, /, y=1: x + y)(3)
'''


def cpython(src):
    g = {'math': math}
    exec(compile(src, '<snippet>', 'exec'), g)
    try:
        return ('value', g['f']())
    except Exception as ex:        # noqa: BLE001
        return ('raises', type(ex).__name__)


_FN = []


def harness():
    """the name resolution the rules use (builtin types, math, repository names)"""
    if not _FN:
        from tlint.loader import Program
        from tlint.report import Ctx
        from tlint import absint
        ctx = Ctx(Program(os.environ.get('TLINT_REPO', '/repo')), 'C01', 'quick', 0)
        _FN.append(absint.funcs(ctx, None, {}))
    return _FN[0]


def interpreted_module(src):
    """a snippet with classes / several functions: written as the module tracklib.snip of a scratch package and read by the loader,
    as the repository is"""
    import shutil
    import tempfile
    from tlint.loader import Program
    from tlint.report import Ctx
    from tlint import absint
    d = tempfile.mkdtemp(prefix='tlint-selftest-')
    try:
        os.makedirs(os.path.join(d, 'tracklib'))
        open(os.path.join(d, 'tracklib', '__init__.py'), 'w').close()
        with open(os.path.join(d, 'tracklib', 'snip.py'), 'w') as fh:
            fh.write(src + '\n')
        ctx = Ctx(Program(d), 'C01', 'quick', 0)
        fn = absint.funcs(ctx, 'tracklib.snip', {})
        f = ctx.prog.func('tracklib.snip.f')
        try:
            return ('value', orders.make_func(f.node, fn)())
        except orders.Unsupported as ex:
            return ('declined', str(ex))
        except orders.Raised as ex:
            return ('raises', ex.name)
        except Exception as ex:        # noqa: BLE001
            return ('raises', type(ex).__name__)
    finally:
        shutil.rmtree(d, ignore_errors=True)


def interpreted(src):
    tree = ast.parse(src)
    if len(tree.body) > 1:
        return interpreted_module(src)
    fdef = tree.body[0]
    try:
        return ('value', orders.make_func(fdef, harness())())
    except orders.Unsupported as ex:
        return ('declined', str(ex))
    except orders.Raised as ex:
        return ('raises', ex.name)
    except Exception as ex:        # noqa: BLE001
        return ('raises', type(ex).__name__)


def same(a, b):
    basic = (int, float, str, bytes, bool, type(None), complex, list, tuple, dict, set, frozenset)
    if (type(a) not in basic and type(b) not in basic and not isinstance(a, basic) and not isinstance(b, basic)) and type(a).__name__ != 'GenList' and type(b).__name__ != 'GenList':
        return repr(a) == repr(b)        # an instance of a class of the snippet: CPython's object and the interpreter's record print alike
    if type(a).__name__ == type(b).__name__ and (type(a) not in basic or type(b) not in basic):
        # a class of the snippet (or a namedtuple made by it): two incarnations of the same definition - compared by content / by repr
        if isinstance(a, tuple) and isinstance(b, tuple):
            return same(tuple(a), tuple(b))
        if isinstance(a, dict) and isinstance(b, dict):
            return same(dict(a), dict(b))
        if isinstance(a, (list,)) and isinstance(b, (list,)):
            return same(list(a), list(b))
        return repr(a) == repr(b)
    if isinstance(a, float) and isinstance(b, float):
        return (a != a and b != b) or (a == b and math.copysign(1, a) == math.copysign(1, b))
    if type(a) != type(b) and not (isinstance(a, (list, tuple)) and isinstance(b, (list, tuple)) and type(a).__name__ in ('list', 'tuple', 'GenList') and type(b).__name__ in ('list', 'tuple', 'GenList') and isinstance(a, list) == isinstance(b, list)):
        return False
    if isinstance(a, (list, tuple)):
        return len(a) == len(b) and all(same(x, y) for x, y in zip(a, b))
    if isinstance(a, dict):
        return list(a) == list(b) and all(same(a[k], b[k]) for k in a)
    return a == b


def main():
    bad, declined, n = [], [], 0
    for src in [s.strip('\n') for s in SNIPPETS.split('\n---\n')]:
        if not src.strip():
            continue
        n += 1
        want, got = cpython(src), interpreted(src)
        if got[0] == 'declined':
            declined.append((src.splitlines()[1].strip(), got[1]))
        elif want[0] != got[0] or (want[0] == 'raises' and want[1] != got[1] and not (want[1] == 'AssertionError' and got[1] in ('AssertionError',))) or (want[0] == 'value' and not same(want[1], got[1])):
            bad.append((src, want, got))
    print('interpreter self-test: %d snippets, %d agree, %d declined, %d DISAGREE' % (n, n - len(bad) - len(declined), len(declined), len(bad)))
    for first, why in declined:
        print('  declined: %s ... (%s)' % (first[:60], why[:80]))
    for src, want, got in bad:
        print('  DISAGREE on:\n    ' + src.replace('\n', '\n    '))
        print('    CPython    :', want)
        print('    interpreter:', got)
    return 1 if bad else 0


if __name__ == '__main__':
    sys.exit(main())
