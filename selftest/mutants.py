"""Hand-written edits for the self-test (see run.py).  `old` must occur exactly once in the file."""
EDITS = []


def M(pid, id, file, old, new, rule=None, count=1):
    EDITS.append(dict(property=pid, id=id, file=file, old=old, new=new, kind='mutant', rule=rule, count=count))


def T(pid, id, file, old, new, count=1):
    EDITS.append(dict(property=pid, id=id, file=file, old=old, new=new, kind='twin', count=count))


TRACK = 'tracklib/core/track.py'
OPS = 'tracklib/core/operators.py'
UT = 'tracklib/core/utils.py'
OT = 'tracklib/core/obs_time.py'
NET = 'tracklib/core/network.py'
SI = 'tracklib/core/spatial_index.py'
DYN = 'tracklib/algo/dynamics.py'
MAP = 'tracklib/algo/mapping.py'
SEG = 'tracklib/algo/segmentation.py'
SIM = 'tracklib/algo/simplification.py'
INT = 'tracklib/algo/interpolation.py'
CMP = 'tracklib/algo/comparison.py'
GEO = 'tracklib/util/geometry.py'
ANA = 'tracklib/algo/analytics.py'
CIN = 'tracklib/algo/cinematics.py'
RAS = 'tracklib/core/raster.py'
OC = 'tracklib/core/obs_coords.py'
KER = 'tracklib/core/kernel.py'
FIL = 'tracklib/algo/filtering.py'
TW = 'tracklib/io/track_writer.py'
TRD = 'tracklib/io/track_reader.py'
NR = 'tracklib/io/network_reader.py'
NW = 'tracklib/io/network_writer.py'

# ---------------------------------------------------------------- C01
M('C01', 'create-wrong-index', TRACK, "        idAF = len(self.__analyticalFeaturesDico)\n        self.__analyticalFeaturesDico[name] = idAF",
  "        idAF = len(self.__analyticalFeaturesDico) + 1\n        self.__analyticalFeaturesDico[name] = idAF", 'C01.H')
M('C01', 'remove-no-shift', TRACK, "            if self.__analyticalFeaturesDico[k] > idAF:\n                self.__analyticalFeaturesDico[k] -= 1",
  "            if self.__analyticalFeaturesDico[k] > idAF:\n                pass", 'C01.H')
M('C01', 'remove-shift-by-two', TRACK, "                self.__analyticalFeaturesDico[k] -= 1", "                self.__analyticalFeaturesDico[k] -= 2", 'C01.H')
M('C01', 'remove-read-after-del', TRACK,
  "        idAF = self.__analyticalFeaturesDico[name]\n        for i in range(self.size()):\n            del self.getObs(i).features[idAF]\n        del self.__analyticalFeaturesDico[name]",
  "        idAF = len(self.__analyticalFeaturesDico) - 1\n        for i in range(self.size()):\n            del self.getObs(i).features[idAF]\n        del self.__analyticalFeaturesDico[name]", 'C01.H')
M('C01', 'update-other-column', TRACK, "        idAF = self.__analyticalFeaturesDico[name] \n", "        idAF = len(self.__analyticalFeaturesDico) - 1\n", 'C01.H')
M('C01', 'cleanup-only-first', TRACK, "            for af in SUPPRESS_AF:\n                if af[0] == \"#\":\n                    self.removeAnalyticalFeature(af)",
  "            for af in SUPPRESS_AF:\n                if af[0] == \"#\" and len(af) > 2:\n                    self.removeAnalyticalFeature(af)", 'C01.J')
M('C01', 'operator-moves-x', OPS, "        f = lambda x: -x\n        return track.operate(Operator.APPLY, af_input, f, af_output)",
  "        f = lambda x: -x\n        track.getObs(0).position.setX(0)\n        return track.operate(Operator.APPLY, af_input, f, af_output)", 'C01.F')
M('C01', 'temp-name-public', TRACK, "        if op1IsAF and op2IsAF:\n            out_af = \"#\" + str(temp_af_counter)", "        if op1IsAF and op2IsAF:\n            out_af = \"tmp\" + str(temp_af_counter)", 'C01.J')
T('C01', 'twin-create-rename', TRACK, "        idAF = len(self.__analyticalFeaturesDico)\n        self.__analyticalFeaturesDico[name] = idAF",
  "        column = len(self.__analyticalFeaturesDico)\n        self.__analyticalFeaturesDico[name] = column")
T('C01', 'twin-remove-ge', TRACK, "            if self.__analyticalFeaturesDico[k] > idAF:", "            if idAF < self.__analyticalFeaturesDico[k]:")
T('C01', 'twin-shift-assign', TRACK, "                self.__analyticalFeaturesDico[k] -= 1", "                self.__analyticalFeaturesDico[k] = self.__analyticalFeaturesDico[k] - 1")

# ---------------------------------------------------------------- C02
M('C02', 'rpn-left-to-right', UT, "        for p in range(len(s) - 1, -1, -1):", "        for p in range(0, len(s)):", 'C02.G')
M('C02', 'sr-minus-wrong-class', OPS, '        "sr-": SCALAR_REV_SUBSTRACTER,', '        "sr-": SCALAR_SUBSTRACTER,', 'C02.G')
M('C02', 'scalar-sub-swapped', OPS, "            temp[i] = number - track.getObsAnalyticalFeature(af_input, i)", "            temp[i] = track.getObsAnalyticalFeature(af_input, i) - number", 'C02.G')
M('C02', 'scalar-scalar-div-mul', TRACK, "            if operator == \"/\":\n                return op1 / op2", "            if operator == \"/\":\n                return op1 * op2", 'C02.G')
M('C02', 'differentiator-forward', OPS,
  "        for i in range(1, track.size()):\n            temp[i] = track.getObsAnalyticalFeature(\n                af_input, i\n            ) - track.getObsAnalyticalFeature(af_input, i - 1)\n        temp[0] = NAN\n        addListToAF(track, af_output, temp)\n        return temp\n\n\nclass ForwardFiniteDiff",
  "        for i in range(1, track.size()):\n            temp[i] = track.getObsAnalyticalFeature(\n                af_input, i - 1\n            ) - track.getObsAnalyticalFeature(af_input, i)\n        temp[0] = NAN\n        addListToAF(track, af_output, temp)\n        return temp\n\n\nclass ForwardFiniteDiff", 'C02.G')
M('C02', 'd2-coefficient', OPS, "            temp[i] -= 2 * track.getObsAnalyticalFeature(af_input, i)", "            temp[i] -= track.getObsAnalyticalFeature(af_input, i)", 'C02.G')
M('C02', 'diode-nonstrict-sign', OPS, "        f = lambda x: x * (x > 0)", "        f = lambda x: x * (x < 0)", 'C02.G')
M('C02', 'avg-count-all', OPS, "            if isnan(val):\n                continue\n            count += 1\n            mean += track.getObsAnalyticalFeature(af_input, i)\n        return mean / count",
  "            count += 1\n            if isnan(val):\n                continue\n            mean += track.getObsAnalyticalFeature(af_input, i)\n        return mean / count", 'C02.G')
M('C02', 'argmin-index-stale', OPS, "            if val < minimum:\n                minimum = val\n                idmin = i\n        return idmin",
  "            if val < minimum:\n                minimum = val\n            idmin = i\n        return idmin", 'C02.G')
M('C02', 'max-nonstrict-wrong-dir', OPS, "            if val > maximum:\n                maximum = val\n        return maximum", "            if val < maximum:\n                maximum = val\n        return maximum", 'C02.G')
M('C02', 'operate-swapped-args', TRACK, "                return operator.execute(self, arg1, arg2, arg3)\n            if len(arg1) != len(arg2):\n                raise OperatorError(\n                    \"Error in \"\n                    + type(operator).__name__\n                    + \": non-concordant number in input features\"",
  "                return operator.execute(self, arg2, arg1, arg3)\n            if len(arg1) != len(arg2):\n                raise OperatorError(\n                    \"Error in \"\n                    + type(operator).__name__\n                    + \": non-concordant number in input features\"", 'C02.G')
# (not a defect: operate() removes every '#'-prefixed feature after the evaluation, '#output' included - the former structural rule C02.N
#  demanded the inner removal and would have raised a false alarm on this behaviour-preserving edit)
T('C02', 'twin-output-left-to-operate', TRACK, "            output = self.getAnalyticalFeature(\"#output\")\n            self.removeAnalyticalFeature(\"#output\")\n            return output",
  "            output = self.getAnalyticalFeature(\"#output\")\n            return output")
T('C02', 'twin-adder-commute', OPS,
  "            temp[i] = track.getObsAnalyticalFeature(\n                af_input1, i\n            ) + track.getObsAnalyticalFeature(af_input2, i)",
  "            right = track.getObsAnalyticalFeature(af_input2, i)\n            temp[i] = right + track.getObsAnalyticalFeature(af_input1, i)")
T('C02', 'twin-min-rename', OPS, "        minimum = +1e300\n        for i in range(track.size()):\n            val = track.getObsAnalyticalFeature(af_input, i)\n            if val < minimum:\n                minimum = val\n        return minimum",
  "        smallest = +1e300\n        for k in range(0, track.size()):\n            v = track.getObsAnalyticalFeature(af_input, k)\n            if smallest > v:\n                smallest = v\n        return smallest")
T('C02', 'twin-sum-skip-form', OPS, "            if isnan(val):\n                continue\n            somme += track.getObsAnalyticalFeature(af_input, i)\n        return somme",
  "            if not isnan(val):\n                somme = somme + track.getObsAnalyticalFeature(af_input, i)\n        return somme")

# ---------------------------------------------------------------- C03
M('C03', 'leap-every-4', OT, "        return ((year % 4 == 0) and ((year % 100 != 0) or (year % 400 == 0)))", "        return (year % 4 == 0)", 'C03.L')
M('C03', 'month-table-feb', OT, "    __day_per_month = [31, 28, 31, 30, 31, 30, 31, 31, 30, 31, 30, 31]", "    __day_per_month = [31, 29, 31, 30, 31, 30, 31, 31, 30, 31, 30, 31]", 'C03.M')
M('C03', 'month-break-nonstrict', OT, "            if elapsed_seconds < sec_on_month:\n                break", "            if elapsed_seconds <= sec_on_month:\n                break", 'C03.G')
M('C03', 'leap-on-march', OT, "            if (month == 1) and ObsTime.isLeapYear(year):", "            if (month == 2) and ObsTime.isLeapYear(year):", 'C03.G')
M('C03', 'hour-unit', OT, "        time.hour = (int)(elapsed_seconds / 3600)\n        elapsed_seconds -= time.hour * 3600", "        time.hour = (int)(elapsed_seconds / 3600)\n        elapsed_seconds -= time.hour * 360", 'C03.Q')
M('C03', 'toabs-min-unit', OT, "        seconds += self.min * 60\n", "        seconds += self.min * 6\n", 'C03.Y')
M('C03', 'toabs-leap-wrong-year', OT, "            if ObsTime.isLeapYear(y):\n                seconds += 86400", "            if ObsTime.isLeapYear(y + 1):\n                seconds += 86400", 'C03.Y')
M('C03', 'toabs-month-offbyone', OT, "        for m in range(1, self.month):\n            seconds += ObsTime.__day_per_month[m - 1] * 86400", "        for m in range(1, self.month):\n            seconds += ObsTime.__day_per_month[m] * 86400", 'C03.Y')
M('C03', 'lt-last-link', OT, "        return self.ms < time.ms", "        return self.ms <= time.ms", 'C03.C')
M('C03', 'eq-forgets-year', OT, "        if self.year != time.year:\n            return False\n        \n        return True", "        return True", 'C03.C')
M('C03', 'addhour-unit', OT, "        sec = self.toAbsTime() + nb * 3600", "        sec = self.toAbsTime() + nb * 60 * 6", 'C03.A')
T('C03', 'twin-year-loop-while-cond', OT,
  "        while True:\n            sec_on_year = SECOND_PER_YEAR\n            if ObsTime.isLeapYear(year):\n                sec_on_year += 86400\n            if elapsed_seconds - sec < sec_on_year:\n                break\n            sec += sec_on_year\n            year += 1",
  "        while True:\n            length = SECOND_PER_YEAR\n            if ObsTime.isLeapYear(year):\n                length = length + 86400\n            if sec + length > elapsed_seconds:\n                break\n            sec = sec + length\n            year = year + 1")
T('C03', 'twin-gt-swap-sides', OT, "        if self.year != time.year:\n            return self.year > time.year\n        if self.month != time.month:\n            return self.month > time.month",
  "        if time.year != self.year:\n            return time.year < self.year\n        if not (self.month == time.month):\n            return self.month > time.month")
T('C03', 'twin-toabs-order', OT, "        seconds += self.hour * 3600\n        seconds += self.min * 60\n        seconds += self.sec\n", "        seconds += self.sec\n        seconds += 60 * self.min\n        seconds = seconds + self.hour * 3600\n")

# ---------------------------------------------------------------- C04
M('C04', 'gt-off-by-one', TRACK, "                self.__POINTS[arg : self.size()], self.uid, self.tid, self.base", "                self.__POINTS[arg + 1 : self.size()], self.uid, self.tid, self.base", 'C04.G')
M('C04', 'mod-stride-offset', TRACK, "            track = Track(self.__POINTS[::sample], self.uid, self.tid, base=self.base)", "            track = Track(self.__POINTS[1::sample], self.uid, self.tid, base=self.base)", 'C04.G')
M('C04', 'span-strict', TRACK, "            if self.__POINTS[k].timestamp > tfin:\n                continue", "            if self.__POINTS[k].timestamp >= tfin:\n                continue", 'C04.G')
M('C04', 'span-no-swap', TRACK, "        if tini > tfin:\n            ttemp = tini\n            tini = tfin\n            tfin = ttemp", "        if tini > tfin:\n            ttemp = tini\n            tini = tfin", 'C04.G')
M('C04', 'remove-ascending', TRACK, "        for i in range(len(tab_idx) - 1, -1, -1):\n            counter += self.__removeObsById(tab_idx[i])", "        for i in range(len(tab_idx)):\n            counter += self.__removeObsById(tab_idx[i])", 'C04.G')
M('C04', 'extract-exclusive', TRACK, "        for k in range(id_ini, id_fin + 1):\n            track.addObs(self.__POINTS[k])", "        for k in range(id_ini, id_fin):\n            track.addObs(self.__POINTS[k])", None)
M('C04', 'gt-mutates-source', TRACK, "            output.__transmitAF(self)\n            return output\n\n    # ------------------------------------------------------------\n    # [<] Removes last n points of track or time comp",
  "            output.__transmitAF(self)\n            self.__POINTS = self.__POINTS[arg:]\n            return output\n\n    # ------------------------------------------------------------\n    # [<] Removes last n points of track or time comp", 'C04.F')
M('C04', 'transmit-alias', TRACK, "        self.__analyticalFeaturesDico = track.__analyticalFeaturesDico.copy()", "        self.__analyticalFeaturesDico = track.__analyticalFeaturesDico", 'C04.G')
M('C04', 'insertion-floor-guard', TRACK, "        while self.getObs(id).timestamp > timestamp:\n            if id == 0:\n                break\n            id -= 1", "        while self.getObs(id).timestamp > timestamp:\n            id -= 1", 'C04.G')
T('C04', 'twin-lt-temp', TRACK, "            output = Track(\n                self.__POINTS[0 : (self.size() - arg)], self.uid, self.tid, self.base\n            )",
  "            last = self.size() - arg\n            output = Track(\n                self.__POINTS[0:last], self.uid, self.tid, self.base\n            )")
T('C04', 'twin-span-else', TRACK, "            if self.__POINTS[k].timestamp < tini:\n                continue\n            if self.__POINTS[k].timestamp > tfin:\n                continue\n            track.addObs(self.__POINTS[k].copy())",
  "            ts = self.__POINTS[k].timestamp\n            if ts < tini or ts > tfin:\n                continue\n            track.addObs(self.__POINTS[k].copy())")

# ---------------------------------------------------------------- C05
M('C05', 'temporal-weights-unnormalised', INT, "        wbwd = (tfwd - t) / (tfwd - tbwd)\n        wfwd = (t - tbwd) / (tfwd - tbwd)", "        wbwd = (tfwd - t) / (tfwd - tbwd)\n        wfwd = (t - tbwd)", 'C05.G')
M('C05', 'temporal-wrong-fix', INT, "        pt_bwd = track.getObs(running_id - 1)\n        pt_fwd = track.getObs(running_id)\n        tbwd = T[running_id - 1]", "        pt_bwd = track.getObs(running_id)\n        pt_fwd = track.getObs(running_id)\n        tbwd = T[running_id - 1]", 'C05.G')
M('C05', 'temporal-y-uses-x', INT, "        Y = wbwd * pt_bwd.position.getY() + wfwd * pt_fwd.position.getY()\n        Z = wbwd * pt_bwd.position.getZ() + wfwd * pt_fwd.position.getZ()\n\n        pi = Obs(ENUCoords(X, Y, Z), ObsTime.readUnixTime(t))",
  "        Y = wbwd * pt_bwd.position.getY() + wfwd * pt_fwd.position.getX()\n        Z = wbwd * pt_bwd.position.getZ() + wfwd * pt_fwd.position.getZ()\n\n        pi = Obs(ENUCoords(X, Y, Z), ObsTime.readUnixTime(t))", 'C05.G')
M('C05', 'admission-first', INT, "        if t <= tini:\n            continue", "        if t < tini:\n            continue", 'C05.G')
M('C05', 'scan-nonstrict', INT, "        while T[running_id] < t:\n            running_id += 1", "        while T[running_id] <= t:\n            running_id += 1", 'C05.G')
M('C05', 'spatial-count', INT, "    sfin = S[len(S) - 1]\n    N = (int)((sfin - sini) / ds)\n", "    sfin = S[len(S) - 1]\n    N = (int)((sfin - sini) / ds) + 1\n", 'C05.G', count=2)
M('C05', 'spatial-abscissa', INT, "        s = k * ds + sini\n", "        s = (k - 1) * ds + sini\n", 'C05.G')
T('C05', 'twin-temporal-denominator', INT, "        wbwd = (tfwd - t) / (tfwd - tbwd)\n        wfwd = (t - tbwd) / (tfwd - tbwd)\n\n        X = wbwd * pt_bwd.position.getX() + wfwd * pt_fwd.position.getX()\n        Y = wbwd * pt_bwd.position.getY() + wfwd * pt_fwd.position.getY()\n        Z = wbwd * pt_bwd.position.getZ() + wfwd * pt_fwd.position.getZ()\n\n        pi = Obs(ENUCoords(X, Y, Z), ObsTime.readUnixTime(t))",
  "        span = tfwd - tbwd\n        wfwd = (t - tbwd) / span\n        wbwd = 1 - wfwd\n\n        X = wfwd * pt_fwd.position.getX() + wbwd * pt_bwd.position.getX()\n        Y = wbwd * pt_bwd.position.getY() + wfwd * pt_fwd.position.getY()\n        Z = wbwd * pt_bwd.position.getZ() + wfwd * pt_fwd.position.getZ()\n\n        pi = Obs(ENUCoords(X, Y, Z), ObsTime.readUnixTime(t))")

# ---------------------------------------------------------------- C06 / C07
M('C06', 'relax-drop-weight', NET, "                    fils.poids = pere.poids + e.weight + heuristic", "                    fils.poids = pere.poids + heuristic", 'C06.G')
M('C06', 'cut-nonstrict', NET, "            if (pere.poids > cut) or (pere.id == target):", "            if (pere.poids >= cut) or (pere.id == target):", 'C06.G')
M('C06', 'orientation-strict', NET, "        if edge.orientation >= 0:\n            self.NEXT_EDGES[source.id].append(edge.id)", "        if edge.orientation > 0:\n            self.NEXT_EDGES[source.id].append(edge.id)", 'C06.G')
M('C06', 'reset-sentinel-zero', NET, "            elem[1].poids = -1\n", "            elem[1].poids = 0\n", 'C06.G')
M('C06', 'queue-key-stale', NET, "                    fil.__setitem__(fils, fils.poids)", "                    fil.__setitem__(fils, pere.poids)", 'C06.G')
M('C06', 'pd-stale-test', UT, "        v, k = heappop(heap)\n        while k not in self or self[k] != v:\n            v, k = heappop(heap)\n        del self[k]", "        v, k = heappop(heap)\n        while k not in self:\n            v, k = heappop(heap)\n        del self[k]", 'C06.Q')
T('C06', 'twin-relax-temp', NET, "                    fils.poids = pere.poids + e.weight + heuristic\n                    fils.antecedent = pere\n                    fils.antecedent_edge = e.id\n                    fil.__setitem__(fils, fils.poids)",
  "                    candidate = pere.poids + e.weight + heuristic\n                    fils.antecedent = pere\n                    fils.antecedent_edge = e.id\n                    fils.poids = candidate\n                    fil[fils] = candidate")
M('C07', 'reverse-condition', NET, "            if e.source != node:\n                edge_geom = edge_geom.reverse()", "            if e.source == node:\n                edge_geom = edge_geom.reverse()", 'C07.H')
M('C07', 'keep-junction', NET, "            track = track + (edge_geom > 1)", "            track = track + (edge_geom > 0)", 'C07.H')
M('C07', 'antecedent-edge-missing', NET, "                    fils.antecedent = pere\n                    fils.antecedent_edge = e.id\n", "                    fils.antecedent = pere\n", 'C07.H')
T('C07', 'twin-backward-rename', NET, "            e = self.EDGES[node.antecedent_edge]\n            edge_geom = e.geom.copy()\n            if e.source != node:\n                edge_geom = edge_geom.reverse()\n            track = track + (edge_geom > 1)",
  "            edge = self.EDGES[node.antecedent_edge]\n            piece = edge.geom.copy()\n            if not (edge.source == node):\n                piece = piece.reverse()\n            track = track + (piece > 1)")

# ---------------------------------------------------------------- C08
M('C08', 'units-max', SI, "        return math.floor(distance / min(self.dX, self.dY) + 1)", "        return math.floor(distance / max(self.dX, self.dY) + 1)", 'C08.U')
M('C08', 'getcell-swapped-sizes', SI, "        idx = (float(coord.getX()) - self.xmin) / self.dX\n        idy = (float(coord.getY()) - self.ymin) / self.dY", "        idx = (float(coord.getX()) - self.xmin) / self.dY\n        idy = (float(coord.getY()) - self.ymin) / self.dX", 'C08.Q')
M('C08', 'missing-side', SI, "                segment1 = [i + 1, j, i + 1, j + 1]\n                if isSegmentIntersects(segment1, segment2):", "                segment1 = [i, j, i + 1, j]\n                if isSegmentIntersects(segment1, segment2):", 'C08.Q')
M('C08', 'window-asymmetric', SI, "        imax = min(i + u + 1, self.csize)", "        imax = min(i + u, self.csize)", 'C08.Q')
T('C08', 'twin-window-names', SI, "        imin = max(i - u, 0)\n        imax = min(i + u + 1, self.csize)", "        imin = max(0, i - u)\n        imax = min(self.csize, 1 + u + i)")

# ---------------------------------------------------------------- C09
M('C09', 'accumulated-wrong-state', DYN, "                    val = q + TAB_VAL[k - 1][m]", "                    val = q + TAB_VAL[k - 1][l]", 'C09.V')
M('C09', 'emission-sign', DYN, "                p = -self.Plog(s2, y, k, track)\n                TAB_MRK[k][l] = best_ant", "                p = self.Plog(s2, y, k, track)\n                TAB_MRK[k][l] = best_ant", 'C09.V')
M('C09', 'backpointer-before-write', DYN, "            track.setObsAnalyticalFeature(\"hmm_inference\", k, STATES[k][idk])\n            track.setObsAnalyticalFeature(\"hmm_cost\", k, TAB_VAL[k][idk])\n            if mode in [3, 4, 5]:\n                track[k].position = STATES[k][idk]\n            idk = TAB_MRK[k][idk]",
  "            idk = TAB_MRK[k][idk]\n            track.setObsAnalyticalFeature(\"hmm_inference\", k, STATES[k][idk])\n            track.setObsAnalyticalFeature(\"hmm_cost\", k, TAB_VAL[k][idk])\n            if mode in [3, 4, 5]:\n                track[k].position = STATES[k][idk]", 'C09.V')
M('C09', 'final-argmax', DYN, "        idk = np.argmin(TAB_VAL[-1])", "        idk = np.argmax(TAB_VAL[-1])", 'C09.V')
T('C09', 'twin-forward-rename', DYN, "                    s1 = STATES[k - 1][m]\n                    q = -self.Qlog(s1, s2, k - 1, track)\n                    val = q + TAB_VAL[k - 1][m]",
  "                    previous = STATES[k - 1][m]\n                    s1 = previous\n                    cost = -self.Qlog(previous, s2, k - 1, track)\n                    q = cost\n                    val = TAB_VAL[k - 1][m] + cost")

# ---------------------------------------------------------------- C10
M('C10', 'radius-on-other-distance', MAP, "                if d < search_radius:", "                if d < obs_noise:", 'C10.D')
M('C10', 'candidate-wrong-edge', MAP, "                eg = network.EDGES[network.getEdgeId(elem)].geom\n", "                eg = network.EDGES[network.getEdgeId(E[0])].geom\n", 'C10.D')
M('C10', 'mode-positions', MAP, "        mode=MODE_OBS_AS_2D_POSITIONS,", "        mode=MODE_OBS_AND_STATES_AS_2D_POSITIONS,", None)

# ---------------------------------------------------------------- C11
M('C11', 'threshold-strict', SEG, "                    comp = comp and (current_value <= seuil_max)", "                    comp = comp and (current_value < seuil_max)", 'C11.M')
M('C11', 'nan-not-ignored', SEG, "            if not isnan(current_value):\n\n                seuil_max", "            if True:\n\n                seuil_max", 'C11.M')
M('C11', 'split-begin-i', SEG, "                begin = i + 1\n", "                begin = i\n", 'C11.T')
M('C11', 'tail-always', SEG, "        if begin != 0:\n            # Formalisme", "        if begin >= 0:\n            # Formalisme", 'C11.E')
T('C11', 'twin-split-rename', SEG, "                newtrack = track.extract(begin, i)\n                begin = i + 1\n                newtrack.setUid(new_id)", "                piece = track.extract(begin, i)\n                newtrack = piece\n                begin = 1 + i\n                newtrack.setUid(new_id)")

# ---------------------------------------------------------------- C12
M('C12', 'k-range', SEG, "            for k in range(i + 1, j):\n                val = D[i, k] + D[k, j]", "            for k in range(i + 1, j - 1):\n                val = D[i, k] + D[k, j]", 'C12.R')
M('C12', 'split-not-recorded', SEG, "                if val < D[i, j] and mode == MODE_SEGMENTATION_MINIMIZE:\n                    D[i, j] = val\n                    M[i, j] = k", "                if val < D[i, j] and mode == MODE_SEGMENTATION_MINIMIZE:\n                    D[i, j] = val", 'C12.D')
M('C12', 'stops-minimise', SEG, "    segmentation = optimalPartition(C, MODE_SEGMENTATION_MAXIMIZE, verbose)\n    #print ('seg', segmentation)", "    segmentation = optimalPartition(C, MODE_SEGMENTATION_MINIMIZE, verbose)\n    #print ('seg', segmentation)", 'C12.C')
T('C12', 'twin-dp-rename', SEG, "                val = D[i, k] + D[k, j]\n                if val < D[i, j] and mode == MODE_SEGMENTATION_MINIMIZE:", "                val = D[k, j] + D[i, k]\n                if mode == MODE_SEGMENTATION_MINIMIZE and D[i, j] > val:")

# ---------------------------------------------------------------- C13
M('C13', 'enu-precision', TW, "        if track.getSRID().upper() == \"ENU\":\n            float_fmt = \"{:10.3f}\"", "        if track.getSRID().upper() == \"ENU\":\n            float_fmt = \"{:10.2f}\"", 'C13.R')
M('C13', 'slot-t-position', TW, "                O.append((fmt.id_T, 3))", "                O.append((fmt.id_T, 2))", 'C13.R')
M('C13', 'gpx-latlon-swapped', TW, "                f.write('            <trkpt lat=\"' + y + '\" lon=\"' + x + '\">\\n')", "                f.write('            <trkpt lat=\"' + x + '\" lon=\"' + y + '\">\\n')", 'C13.X')
M('C13', 'precompiled-offset', OT, "        (\"2h\", 11),", "        (\"2h\", 12),", None)
M('C13', 'subst-misaligned', OT, "            self.hour,\n            self.hour,\n            self.min,\n            self.min,", "            self.hour,\n            self.min,\n            self.hour,\n            self.min,", None)

# ---------------------------------------------------------------- C14
M('C14', 'enu-sign', OC, "        enu.E = -x * slon + y * clon", "        enu.E = x * slon + y * clon", 'C14.R')
M('C14', 'ecef-height', OC, "        xyz.X = (n + hgt) * math.cos(lat) * math.cos(lon)", "        xyz.X = (n - hgt) * math.cos(lat) * math.cos(lon)", 'C14.E')
# (the eccentricity of the forward projection set to the WGS84 value, 3e-12 away from the GRS80 one the inverse uses: the round trip moves by
#  2e-11 degree, inside the 1e-9 degree the property allows - a change the property does not forbid, so the check stays silent)
T('C14', 'lambert-constant-within-tolerance', OC, "def _projToLambert93(coords) -> ENUCoords:   \n    \"\"\"TODO\"\"\"\n\n    E = 0.08181919106  #: TODO", "def _projToLambert93(coords) -> ENUCoords:   \n    \"\"\"TODO\"\"\"\n\n    E = 0.0818191910428  #: TODO")
M('C14', 'lambert-constant', OC, "def _projToLambert93(coords) -> ENUCoords:   \n    \"\"\"TODO\"\"\"\n\n    E = 0.08181919106  #: TODO", "def _projToLambert93(coords) -> ENUCoords:   \n    \"\"\"TODO\"\"\"\n\n    E = 0.0818191  #: TODO", 'C14.N')
M('C14', 'geo-degree-factor', OC, "        geo.lat *= 180.0 / math.pi", "        geo.lat *= 180.0 / 3.14159", 'C14.I')
T('C14', 'twin-enu-temps', OC, "        enu.E = -x * slon + y * clon\n        enu.N = -x * clon * slat - y * slon * slat + z * clat", "        enu.E = y * clon - slon * x\n        north = z * clat - slat * (x * clon + y * slon)\n        enu.N = north")

# ---------------------------------------------------------------- C15
M('C15', 'window-not-centred', OPS, "                val = track.getObsAnalyticalFeature(af_input, i - j + D)", "                val = track.getObsAnalyticalFeature(af_input, i - j + D + 1)", None)
M('C15', 'boundary-range', OPS, "            for i in range(track.size() - D, track.size()):\n                temp[i] = track.getObsAnalyticalFeature(af_input, i)\n\n        addListToAF(track, af_output, temp)\n        return temp\n\n\nclass Filter_FFT", "            for i in range(track.size() - D + 1, track.size()):\n                temp[i] = track.getObsAnalyticalFeature(af_input, i)\n\n        addListToAF(track, af_output, temp)\n        return temp\n\n\nclass Filter_FFT", 'C15.G')
M('C15', 'even-accepted', OPS, "        if N % 2 == 0:\n            raise KernelError(\n                \"Error: kernel must contain an odd number of values in '\"\n                + type(self).__name__\n                + \"' operator\"\n            )\n        track.createAnalyticalFeature(af_output)\n        temp = [0] * track.size()\n        D = (int)(N / 2)", "        if N % 2 == 3:\n            raise KernelError(\n                \"Error: kernel must contain an odd number of values in '\"\n                + type(self).__name__\n                + \"' operator\"\n            )\n        track.createAnalyticalFeature(af_output)\n        temp = [0] * track.size()\n        D = (int)(N / 2)", 'C15.G', count=2)
M('C15', 'seq-y-from-x', FIL, "            if af == \"y\":\n                track.setYFromAnalyticalFeature(\"temp\")", "            if af == \"y\":\n                track.setXFromAnalyticalFeature(\"temp\")", 'C15.G')
T('C15', 'twin-filter-loop', OPS, "                temp[i] += val * kernel[j]\n                norm += kernel[j]", "                weight = kernel[j]\n                norm = norm + weight\n                temp[i] = temp[i] + weight * val")

# ---------------------------------------------------------------- C16
M('C16', 'dp-slice-gap', SIM, "        XY2 = tracklib.Track(L[imax:n], user_id=track.uid, track_id=track.tid, base=track.base)", "        XY2 = tracklib.Track(L[imax + 1:n], user_id=track.uid, track_id=track.tid, base=track.base)", 'C16.G')
M('C16', 'visval-first-selectable', SIM, "    output.setObsAnalyticalFeature(\"@aire\", 0, NAN)\n", "", 'C16.G')
M('C16', 'visval-no-copy', SIM, "    eps **= 2\n    output = track.copy()", "    eps **= 2\n    output = track", 'C16.G')
M('C16', 'segment-guard-removed', GEO, "    if l == 0:\n        return math.sqrt((x0 - x1) * (x0 - x1) + (y0 - y1) * (y0 - y1))\n", "", 'C16.Z')
T('C16', 'twin-dp-loop', SIM, "        if d > dmax:\n            dmax = d\n            imax = i", "        if dmax < d:\n            imax = i\n            dmax = d")

# ---------------------------------------------------------------- C17
M('C17', 'ds-3d', ANA, "    return track.getObs(i).distance2DTo(track.getObs(i - 1))", "    return track.getObs(i).distanceTo(track.getObs(i - 1))", 'C17.G')
M('C17', 'speed-mixed-pair', ANA, "    ds = track.getObs(i + 1).position.distance2DTo(track.getObs(i - 1).position)\n    dt = track.getObs(i + 1).timestamp - track.getObs(i - 1).timestamp", "    ds = track.getObs(i + 1).position.distance2DTo(track.getObs(i).position)\n    dt = track.getObs(i + 1).timestamp - track.getObs(i - 1).timestamp", 'C17.G')
M('C17', 'abscurv-keeps-ds', CIN, "    track.removeAnalyticalFeature(BIAF_DS)\n\n    return track.getAnalyticalFeature(BIAF_ABS_CURV)", "    return track.getAnalyticalFeature(BIAF_ABS_CURV)", 'C17.G')
M('C17', 'speed-moves-time', ANA, "    if dt == 0:\n        return NAN\n    else:\n        return ds / dt", "    if dt == 0:\n        track.getObs(i).timestamp = track.getObs(i).timestamp.addSec(1)\n        return NAN\n    else:\n        return ds / dt", 'C17.F')
T('C17', 'twin-speed-rename', ANA, "    ds = track.getObs(i + 1).position.distance2DTo(track.getObs(i - 1).position)\n    dt = track.getObs(i + 1).timestamp - track.getObs(i - 1).timestamp", "    nxt = track.getObs(i + 1)\n    prv = track.getObs(i - 1)\n    ds = nxt.position.distance2DTo(prv.position)\n    dt = nxt.timestamp - prv.timestamp")

# ---------------------------------------------------------------- C18
M('C18', 'dtw-drop-u', CMP, "            T[i,j] = weight(min(ul, min(u, l)), D[i,j])", "            T[i,j] = weight(min(ul, l), D[i,j])", 'C18.G')
M('C18', 'dtw-border-ptr', CMP, "        M[0,j] = 0 + (j-1)*1j", "        M[0,j] = 0 + j*1j", 'C18.G')
M('C18', 'fdtw-successor-distance', CMP, "            dist = _distance(track2.getObs(i+1).position, track1.getObs(j+1).position, dim)\n            _update_node(F, T, (i+1, j+1), weight(T[i,j], dist), V, A, node)", "            dist = _distance(track2.getObs(i).position, track1.getObs(j).position, dim)\n            _update_node(F, T, (i+1, j+1), weight(T[i,j], dist), V, A, node)", 'C18.G')
M('C18', 'p-inf-sum', CMP, "        weight = lambda A, B : max(A, B) ", "        weight = lambda A, B : A + B ", 'C18.G')
M('C18', 'score-wrong-cell', CMP, "    output.score = T[-1, -1]", "    output.score = T[0, -1]", 'C18.G')
T('C18', 'twin-dtw-argmin', CMP, "            m = min(ul, min(u, l))\n            if ul == m:\n                M[i,j] = (i-1) + (j-1)*1j\n            elif u == m:\n                M[i,j] = (i-1) + j*1j\n            else:\n                M[i,j] = i + (j-1)*1j",
  "            best = min(min(ul, u), l)\n            if u == best:\n                M[i,j] = (i-1) + j*1j\n            elif l == best:\n                M[i,j] = i + (j-1)*1j\n            else:\n                M[i,j] = (i-1) + (j-1)*1j")

# ---------------------------------------------------------------- C19
M('C19', 'column-resolution', RAS, "        idx = (float(coord.getX()) - self.xmin) / self.resolution[0]", "        idx = (float(coord.getX()) - self.xmin) / self.resolution[1]", 'C19.C')
M('C19', 'row-arm-floor', RAS, "            line = math.floor(idy) + 1 # il faut arrondir par le dessus!", "            line = math.floor(idy) # il faut arrondir par le dessus!", 'C19.C')
M('C19', 'sum-no-nan-skip', UT, "        val = tarray[i]\n        if isnan(val):\n            continue\n        somme += val\n    return somme", "        val = tarray[i]\n        somme += val\n    return somme", 'C19.A')
M('C19', 'nodata-never', RAS, "                    if isnan(sumval):\n                        afmap.grid[i][j] = NO_DATA_VALUE", "                    if sumval is None:\n                        afmap.grid[i][j] = NO_DATA_VALUE", 'C19.S')
T('C19', 'twin-count-loop', UT, "    count = 0\n    for i in range(len(tarray)):\n        val = tarray[i]\n        if isnan(val):\n            continue\n        count += 1\n    return count\n\n\ndef co_count_distinct",
  "    n = 0\n    for k in range(0, len(tarray)):\n        v = tarray[k]\n        if not isnan(v):\n            n = n + 1\n    return n\n\n\ndef co_count_distinct")

# ---------------------------------------------------------------- C20
M('C20', 'cartesienne-c-sign', GEO, "    c = -(a * x1 + b * y1)", "    c = (a * x1 + b * y1)", 'C20.L')
M('C20', 'min-selection', GEO, "        if distance1 <= distance2:\n            return distance1, x1, y1", "        if distance1 >= distance2:\n            return distance1, x1, y1", 'C20.E')
M('C20', 'polyline-index-stale', GEO, "        if dist < distmin:\n            distmin = dist\n            xproj = xp\n            yproj = yp\n            iproj = i", "        if dist < distmin:\n            distmin = dist\n            xproj = xp\n            yproj = yp\n        iproj = i", 'C20.P')
M('C20', 'inclusion-open', GEO, "    boolx1 = (xproj >= x1) and (xproj <= x2)", "    boolx1 = (xproj > x1) and (xproj < x2)", 'C20.E')
M('C20', 'wrapper-swapped', MAP, "        track.getX(), track.getY(), point.getX(), point.getY()", "        track.getX(), track.getY(), point.getY(), point.getX()", 'C20.W')
T('C20', 'twin-projsegment-names', GEO, "        distance1 = math.sqrt((x - x1) * (x - x1) + (y - y1) * (y - y1))\n        distance2 = math.sqrt((x - x2) * (x - x2) + (y - y2) * (y - y2))\n\n        if distance1 <= distance2:\n            return distance1, x1, y1\n        else:\n            return distance2, x2, y2",
  "        d_first = math.sqrt((x1 - x) ** 2 + (y1 - y) ** 2)\n        d_last = math.sqrt((x - x2) * (x - x2) + (y - y2) * (y - y2))\n\n        if d_last < d_first:\n            return d_last, x2, y2\n        return d_first, x1, y1")
