#!/usr/bin/env python3
"""Self-test of the checkers, both ways.

mutants.py lists small edits of /repo's source as (property, file, old text, new text, kind):
  kind 'mutant' : a realistic defect -> the property's check must exit 1 (optionally naming a given rule)
  kind 'twin'   : a behaviour-preserving refactoring -> the check must stay silent (exit 0, same KNOWN-FINDING lines)
Each edit is applied to a scratch copy of /repo/tracklib (+ resources) under a fresh temporary directory that is removed
at once; /repo is never touched.  An edit whose `old` text no longer occurs is reported as SKIPPED (the site was edited
away), never as a pass.  The mutated file must still compile.

usage: selftest/run.py [--only Cxx] [--kind mutant|twin] [-v]
"""
import json
import os
import re
import shutil
import subprocess
import sys
import tempfile
from concurrent.futures import ThreadPoolExecutor

HERE = os.path.dirname(os.path.abspath(__file__))
VERIF = os.path.dirname(HERE)
sys.path.insert(0, HERE)
from mutants import EDITS  # noqa


def run_one(e):
    pid, path, old, new, kind = e['property'], e['file'], e['old'], e['new'], e['kind']
    src_path = os.path.join('/repo', path)
    src = open(src_path, encoding='utf-8').read()
    if src.count(old) < 1:
        return dict(e, status='SKIPPED', detail='site not found')
    if e.get('count', 1) and src.count(old) != e.get('count', 1):
        return dict(e, status='SKIPPED', detail='site occurs %d times' % src.count(old))
    msrc = src.replace(old, new)
    try:
        compile(msrc, path, 'exec')
    except SyntaxError as ex:
        return dict(e, status='INVALID', detail='does not compile: %s' % ex)
    t = tempfile.mkdtemp(prefix='tlint-self.')
    try:
        shutil.copytree('/repo/tracklib', t + '/tracklib')
        shutil.copytree('/repo/resources', t + '/resources')
        with open(os.path.join(t, path), 'w', encoding='utf-8') as fh:
            fh.write(msrc)
        env = dict(os.environ, TLINT_EVIDENCE_DIR=t + '/ev')
        r = subprocess.run([VERIF + '/check', pid, '--repo', t], capture_output=True, text=True, env=env)
        rules = sorted(set(re.findall(r'^\S+: (C\d\d\.\w+):', r.stdout, re.M)))
        errs = re.findall(r'ANALYSIS-ERROR .*', r.stdout)
        if kind == 'mutant':
            ok = r.returncode == 1 and (not e.get('rule') or e['rule'] in rules)
            status = 'KILLED' if ok else ('ERROR' if r.returncode == 2 else 'SURVIVED')
        else:
            status = 'SILENT' if r.returncode == 0 else ('FALSE-ALARM' if r.returncode == 1 else 'ERROR')
        return dict(e, status=status, rules=rules, exit=r.returncode, detail=(errs[0][:200] if errs else ''))
    finally:
        shutil.rmtree(t, ignore_errors=True)


def main():
    only = None
    kind = None
    if '--only' in sys.argv:
        only = sys.argv[sys.argv.index('--only') + 1]
    if '--kind' in sys.argv:
        kind = sys.argv[sys.argv.index('--kind') + 1]
    edits = [e for e in EDITS if (only is None or e['property'] == only) and (kind is None or e['kind'] == kind)]
    with ThreadPoolExecutor(16) as ex:
        res = list(ex.map(run_one, edits))
    bad = 0
    tally = {}
    for r in res:
        tally[r['status']] = tally.get(r['status'], 0) + 1
        good = r['status'] in ('KILLED', 'SILENT')
        if not good:
            bad += 1
        if '-v' in sys.argv or not good:
            print('%-11s %-4s %-7s %-28s %s %s' % (r['status'], r['property'], r['kind'], r['id'], ','.join(r.get('rules', [])), r.get('detail', '')))
    print('selftest:', json.dumps(tally, sort_keys=True), 'of', len(res))
    out = {'tally': tally, 'results': [{k: v for k, v in r.items() if k not in ('old', 'new')} for r in res]}
    with open(os.path.join(HERE, 'last_run.json'), 'w') as fh:
        json.dump(out, fh, indent=1)
    return 1 if bad else 0


if __name__ == '__main__':
    sys.exit(main())
