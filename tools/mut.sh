#!/bin/sh
# usage: tools/mut.sh <patch-file | -R:<commit> > <check ids...>
# Applies a patch (or reverts a commit) on a scratch copy of /repo/tracklib and runs the checks on it.
set -e
P="$1"; shift
T=$(mktemp -d /tmp/tlint-mut.XXXXXX)
trap 'rm -rf "$T"' EXIT
cp -r /repo/tracklib "$T/tracklib"; cp -r /repo/resources "$T/resources"
case "$P" in
  -R:*) git -C /repo show "${P#-R:}" -- tracklib | (cd "$T" && patch -s -R -p1) ;;
  *) P=$(readlink -f "$P"); (cd "$T" && patch -s -p1 < "$P") ;;
esac
mkdir -p "$T/ev"
rc=0
for id in "$@"; do
  TLINT_EVIDENCE_DIR="$T/ev" /verif/check "$id" --repo "$T" ${TIER:+--tier $TIER} | grep -E "^(VIOLATION|ANALYSIS-ERROR|KNOWN|tracklib/|    witness)" || true
done
