#!/usr/bin/env python3
"""ad-hoc: apply one text edit to a scratch copy and run the property's check.  usage: tools/try_edit.py Cxx path 'old' 'new' [mutant|twin]"""
import sys, os
sys.path.insert(0, os.path.join(os.path.dirname(os.path.abspath(__file__)), '..', 'selftest'))
import run
pid, path, old, new = sys.argv[1:5]
kind = sys.argv[5] if len(sys.argv) > 5 else 'mutant'
r = run.run_one({'property': pid, 'file': path, 'old': old, 'new': new, 'kind': kind, 'id': 'adhoc', 'count': 0})
print(r['status'], r.get('rules'), r.get('detail', '')[:300])
