#!/usr/bin/env python3
"""Regenerate /verif/MANIFEST.json from the rule modules that exist."""
import importlib, json, os, sys, subprocess
sys.path.insert(0, '/verif')
props = [json.loads(l) for l in open('/verif/properties.jsonl')]
NA = json.load(open('/verif/tools/not_applicable.json')) if os.path.exists('/verif/tools/not_applicable.json') else {}
fix_commits = subprocess.run("git -C /repo log --format=%H --grep='^fix:' 456d2da..HEAD", shell=True,
                             capture_output=True, text=True).stdout.split()
checks, na = [], []
for p in props:
    pid = p['id']
    try:
        mod = importlib.import_module('tlint.rules.' + pid.lower())
    except ImportError:
        mod = None
    if mod is None or pid in NA:
        na.append({'property_id': pid, 'reason': NA.get(pid, 'not yet claimed: static rules under construction (DESIGN.md section 4)')})
        continue
    rules = [e[0] for e in mod.RULES]
    checks.append({
        'property_id': pid,
        'quick_cmd': './check %s --tier quick' % pid,
        'thorough_cmd': './check %s --tier thorough' % pid,
        'evidence_file': '/verif/evidence/%s.json' % pid,
        'replay_cmd_template': './check %s --replay {path}' % pid,
        'engine': 'tlint',
        'level_claimed': {
            'category': 'other',
            'text': 'static analysis of the current source (parsed with ast on every run; never imported or executed by CPython): the rules %s '
                    'decide the clauses listed in DESIGN.md section 4/%s either symbolically (polynomial identities, finite ordering domains, '
                    'write-effect summaries: all inputs of that clause) or by abstract interpretation of the anchored functions with the '
                    'checker\'s own AST interpreter on a finite, enumerated case domain (bounded: the domain is stated in the evidence); a '
                    'violation is reported only with a concrete witness (input case, residual polynomial, ordering, call chain)' % (', '.join(rules), pid),
            'design_ref': 'DESIGN.md section 4, %s' % pid,
        },
        'level_note': 'trusted base: CPython ast parser, the tlint engine, the specification tables in '
                      'tlint/rules/%s.py; assumptions: %s' % (pid.lower(), '; '.join(mod.ASSUMPTIONS)),
        'technique': mod.TECHNIQUE,
    })
m = {
    'version': 1,
    'setup_cmd': '/venv/bin/python -c "import ast, json, fractions, itertools"',
    'hooks': {
        'guard': 'TRACKLIB_VERIF',
        'enable': 'no hooks: the checks parse /repo/tracklib with ast on every run and never import or execute it',
        'baseline_off_cmd': 'cd /repo && /venv/bin/python -m pytest -ra -q -p no:cacheprovider --timeout=900 --continue-on-collection-errors',
        'source_commits': fix_commits,
        'add_only': True,
    },
    'engines': [{'name': 'tlint', 'path': '/verif/tlint', 'serves_properties': [c['property_id'] for c in checks],
                 'kind_free_text': 'repository-specific static analyser: ast loader, AST interpreter over abstract objects / tagged values '
                                   '(tlint.orders, absint, npstub, netmodel) for finite case domains, structured path enumeration with exact '
                                   'polynomial normal forms, finite ordering domains, write-effect summaries'}],
    'checks': checks,
    'notes': 'source_commits are the unguarded "fix:" repairs of genuine defects (see known_findings.json, DESIGN.md section 5); no instrumentation hooks exist.',
    'not_applicable': na,
}
json.dump(m, open('/verif/MANIFEST.json', 'w'), indent=1)
print('claimed', [c['property_id'] for c in checks])
