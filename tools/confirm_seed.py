#!/usr/bin/env python3
"""Confirm a seeded change produced by a sub-agent and file it under /verif/seeded/<id>/.

usage: tools/confirm_seed.py C04-1 [C04-2 ...]
For each: in the scratch worktree /tmp/wt/<Cxx> (clean), apply patch -> demo must exit 1 -> full suite must give
the baseline result set -> revert -> demo must exit 0.  Nothing is ever applied to /repo.
"""
import json, os, shutil, subprocess, sys, xml.etree.ElementTree as ET

BASE = json.load(open('/root/.vp/BASELINE.json'))
STABLE = set(BASE['stable_pass'])

def sh(cmd, cwd, env=None, timeout=1800):
    e = dict(os.environ); e.update(env or {})
    p = subprocess.run(cmd, shell=True, cwd=cwd, env=e, capture_output=True, text=True, timeout=timeout)
    return p.returncode, p.stdout + p.stderr

def suite(wt):
    xml = os.path.join(wt, '_out', 'confirm.xml')
    rc, out = sh('/venv/bin/python -m pytest -q -p no:cacheprovider --timeout=900 --continue-on-collection-errors '
                 '--junitxml=%s >/dev/null 2>&1' % xml, wt, {'PYTHONPATH': wt})
    passed = set()
    for tc in ET.parse(xml).getroot().iter('testcase'):
        if not any(ch.tag in ('failure', 'error', 'skipped') for ch in tc):
            passed.add('%s::%s' % (tc.get('classname'), tc.get('name')))
    return passed

def main():
    for sid in sys.argv[1:]:
        pid = sid.split('-')[0]
        wt = os.environ.get('WT_ROOT', '/tmp/wt2') + '/' + pid
        src = os.path.join(wt, '_out', sid)
        res = {'id': sid}
        sh('git checkout -- tracklib', wt)
        rc, out = sh('git apply --check %s/patch.diff' % src, wt)
        if rc != 0:
            print(sid, 'PATCH DOES NOT APPLY', out[:300]); continue
        env = {'PYTHONPATH': wt}
        rc0, out0 = sh('/venv/bin/python _out/%s/demo.py' % sid, wt, env)
        sh('git apply %s/patch.diff' % src, wt)
        rc1, out1 = sh('/venv/bin/python _out/%s/demo.py' % sid, wt, env)
        passed = suite(wt)
        sh('git checkout -- tracklib', wt)
        rc2, out2 = sh('/venv/bin/python _out/%s/demo.py' % sid, wt, env)
        missing = sorted(STABLE - passed)
        extra = sorted(passed - STABLE)
        ok = rc0 == 0 and rc1 == 1 and rc2 == 0 and not missing
        print(sid, 'OK' if ok else 'REJECT', 'demo clean=%d patched=%d clean-again=%d' % (rc0, rc1, rc2),
              'suite: %d passed, baseline missing=%s' % (len(passed), missing[:3]))
        if not ok:
            print(out1[-400:])
            continue
        dst = '/verif/seeded/' + sid
        os.makedirs(dst, exist_ok=True)
        shutil.copy(os.path.join(src, 'patch.diff'), dst)
        shutil.copy(os.path.join(src, 'demo.py'), dst)
        try:
            meta = json.load(open(os.path.join(src, 'meta.json')))
        except Exception:
            meta = {}
        meta['confirmed_by_me'] = {
            'worktree': 'scratch git worktree of /repo HEAD under /tmp/wt (removed afterwards)',
            'demo_clean_exit': rc0, 'demo_patched_exit': rc1, 'demo_clean_again_exit': rc2,
            'demo_patched_tail': out1.strip().splitlines()[-3:],
            'suite_with_patch': '%d baseline tests passed, %d baseline tests missing' % (len(passed & STABLE), len(missing)),
            'suite_cmd': 'PYTHONPATH=<worktree> /venv/bin/python -m pytest -q -p no:cacheprovider --timeout=900 --continue-on-collection-errors --junitxml=...',
        }
        json.dump(meta, open(os.path.join(dst, 'meta.json'), 'w'), indent=1)

if __name__ == "__main__":
    main()
