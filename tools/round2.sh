#!/bin/sh
# usage: tools/round2.sh Cxx [ids...]   (default ids 4 5 6) : confirm the sub-agent's changes in its scratch worktree, then run the property's check on each
P=$1; shift
IDS=${*:-4 5 6}
L=/tmp/confirm2_$P.log
: > $L
for k in $IDS; do
  python3 /verif/tools/confirm_seed.py $P-$k >> $L 2>&1
  if [ -f /verif/seeded/$P-$k/patch.diff ]; then
    out=$(/verif/tools/mut.sh /verif/seeded/$P-$k/patch.diff $P 2>&1)
    if echo "$out" | grep -q "^VIOLATION"; then echo "$P-$k DETECTED $(echo "$out" | grep -oE ': C[0-9]+\.[A-Za-z0-9]+:' | sort -u | tr -d ': ' | tr '\n' ',')" >> $L
    elif echo "$out" | grep -q "ANALYSIS-ERROR"; then echo "$P-$k EXIT2 $(echo "$out" | grep ANALYSIS | head -1 | cut -c1-200)" >> $L
    else echo "$P-$k MISSED" >> $L; fi
  fi
done
