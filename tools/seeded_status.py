#!/usr/bin/env python3
"""Run every check against every seeded change (each on its own scratch copy of /repo/tracklib, never on /repo itself)
and record which rules report it.  usage: tools/seeded_status.py [--all-checks]"""
import json, os, re, shutil, subprocess, sys, tempfile
from concurrent.futures import ThreadPoolExecutor

VERIF = '/verif'
ALL = '--all-checks' in sys.argv
ONLY = [a for a in sys.argv[1:] if not a.startswith('--')]
ids = sorted(d for d in os.listdir(VERIF + '/seeded') if os.path.isdir(VERIF + '/seeded/' + d) and os.path.exists(VERIF + '/seeded/%s/patch.diff' % d) and (not ONLY or any(re.search(o, d) for o in ONLY)))
props = ['C%02d' % i for i in range(1, 21)]

def run(sid):
    t = tempfile.mkdtemp(prefix='tlint-seed.')
    try:
        shutil.copytree('/repo/tracklib', t + '/tracklib')
        shutil.copytree('/repo/resources', t + '/resources')
        p = subprocess.run(['patch', '-s', '-p1', '-i', VERIF + '/seeded/%s/patch.diff' % sid], cwd=t, capture_output=True, text=True)
        if p.returncode != 0:
            return sid, {'error': 'patch does not apply to the current tree: ' + (p.stdout + p.stderr)[:200]}
        own = sid.split('-')[0]
        res = {}
        for pid in (props if ALL else [own]):
            env = dict(os.environ, TLINT_EVIDENCE_DIR=t + '/ev')
            r = subprocess.run([VERIF + '/check', pid, '--repo', t], capture_output=True, text=True, env=env)
            rules = sorted(set(re.findall(r'^\S+: (C\d\d\.\w+):', r.stdout, re.M)))
            errs = sorted(set(re.findall(r'ANALYSIS-ERROR property=\S+ rule=(\S+)', r.stdout)))
            if r.returncode != 0 or rules:
                res[pid] = {'exit': r.returncode, 'rules': rules, 'analysis_errors': errs}
        return sid, res
    finally:
        shutil.rmtree(t, ignore_errors=True)

with ThreadPoolExecutor(16) as ex:
    out = dict(ex.map(run, ids))
if not ONLY:
    json.dump(out, open(VERIF + '/seeded/STATUS.json', 'w'), indent=1, sort_keys=True)
miss = []
n_twin = n_break = 0
for sid in ids:
    r = out[sid]
    own = sid.split('-')[0]
    twin = sid.split('-')[1].startswith('R')
    if 'error' in r:
        print(sid, 'PATCH-ERROR', r['error'][:80]); miss.append(sid); continue
    o = r.get(own)
    if twin:
        n_twin += 1
        badp = {p: v for p, v in r.items() if v['exit'] != 0}
        print('%-7s %-11s %s' % (sid, 'SILENT' if not badp else 'NOT-SILENT', '  '.join('%s:exit%d:%s' % (p, v['exit'], ','.join(v['rules'] or v['analysis_errors'])) for p, v in sorted(badp.items()))))
        if badp:
            miss.append(sid)
        continue
    n_break += 1
    det = o and o['exit'] == 1
    others = [p for p in r if p != own and r[p]['exit'] == 1]
    print('%-7s %-11s %s%s' % (sid, 'DETECTED' if det else ('exit2' if o and o['exit'] == 2 else 'MISSED'), ','.join(o['rules'] or o['analysis_errors']) if o else '-',
                               ('   also: ' + ','.join(others)) if others else ''))
    if not det:
        miss.append(sid)
print('%d breaking changes, %d twins; not as wanted: %s' % (n_break, n_twin, miss))
