#!/usr/bin/env python3
"""Regenerate the generated parts of DESIGN.md (section 10: seeded changes) from seeded/*/meta.json and seeded/STATUS.json."""
import json, os, re
V = '/verif'
st = json.load(open(V + '/seeded/STATUS.json')) if os.path.exists(V + '/seeded/STATUS.json') else {}
rows = []
for sid in sorted(os.listdir(V + '/seeded')):
    m = V + '/seeded/%s/meta.json' % sid
    if not os.path.exists(m):
        continue
    d = json.load(open(m))
    own = sid.split('-')[0]
    r = st.get(sid, {})
    o = r.get(own) if isinstance(r, dict) else None
    if isinstance(r, dict) and 'error' in r:
        verdict = 'patch no longer applies'
    elif d.get('kind') == 'refactoring':
        verdict = 'silent (exit 0)' if not o else ('FALSE ALARM ' + ','.join(o['rules']) if o['exit'] == 1 else 'analysis-error ' + ','.join(o.get('analysis_errors', [])))
    else:
        verdict = ('**' + ', '.join(o['rules']) + '**') if o and o['exit'] == 1 else ('not understood (exit 2)' if o and o['exit'] == 2 else 'MISSED')
    fn = d.get('function', '?')
    if isinstance(fn, list):
        fn = ', '.join(fn)
    what = d.get('what_changed') or d.get('title') or ''
    if isinstance(what, (list, tuple)):
        what = '; '.join(str(x) for x in what)
    what = str(what).replace('\n', ' ').replace('|', '/')
    rows.append('| %s | `%s` | %s | %s |' % (sid, fn[:70], what[:230], verdict))
text = open(V + '/DESIGN.md').read()
start = text.index('<!-- SEEDED-TABLE-BEGIN -->') + len('<!-- SEEDED-TABLE-BEGIN -->')
end = text.index('<!-- SEEDED-TABLE-END -->')
table = '\n\n| id | function | change | reported by |\n|---|---|---|---|\n' + '\n'.join(rows) + '\n\n'
open(V + '/DESIGN.md', 'w').write(text[:start] + table + text[end:])
print(len(rows), 'rows')
