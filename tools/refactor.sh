#!/bin/sh
# usage: tools/refactor.sh Cxx [ids...]  (default R1..R4): confirm the sub-agent's refactorings, then run the property's check on each (must stay silent)
P=$1; shift
IDS=${*:-R1 R2 R3 R4}
L=/tmp/confirmR_$P.log
: > $L
for k in $IDS; do
  python3 /verif/tools/confirm_refactor.py $P-$k >> $L 2>&1
  if [ -f /verif/seeded/$P-$k/patch.diff ]; then
    out=$(/verif/tools/mut.sh /verif/seeded/$P-$k/patch.diff $P 2>&1)
    if echo "$out" | grep -q "^VIOLATION"; then echo "$P-$k FALSE-ALARM $(echo "$out" | grep -E '^\S+: C[0-9]+\.' | head -2 | cut -c1-300)" >> $L
    elif echo "$out" | grep -q "ANALYSIS-ERROR"; then echo "$P-$k EXIT2 $(echo "$out" | grep ANALYSIS | head -2 | cut -c1-300)" >> $L
    else echo "$P-$k SILENT" >> $L; fi
  fi
done
