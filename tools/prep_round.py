#!/usr/bin/env python3
"""usage: tools/prep_round.py ROOT "16 17 18" GUIDANCE_FILE
One scratch git worktree of /repo per property under ROOT, each with _out/PROPERTY.txt (the property text only) and _out/TASK.txt
(the instructions of the seeding sub-agent, which never sees /verif)."""
import json
import os
import subprocess
import sys

root, ids, guide = sys.argv[1], sys.argv[2].split(), open(sys.argv[3]).read().strip()
TASK = """You are helping to evaluate a verification tool for the Python library tracklib (GPS trajectory library). You work ONLY inside your own scratch git worktree of the repository: {wt}  (never touch /repo, never look at /verif). The file {wt}/_out/PROPERTY.txt holds the text of one semantic property of the library (id {pid}). Line numbers quoted there may be off by a few dozen lines; locate code by name.

Your job: produce {n} independent, realistic source changes to tracklib (each one a small patch to files under {wt}/tracklib/) such that each change
  (a) BREAKS the property stated in PROPERTY.txt (for some input / history the statement becomes false),
  (b) still imports/compiles, and
  (c) keeps the existing test suite result unchanged: the same tests pass as on the unmodified tree.
      Suite command (about 40 s):  cd {wt} && PYTHONPATH={wt} /venv/bin/python -m pytest -q -p no:cacheprovider --timeout=900 --continue-on-collection-errors 2>&1 | tail -15
      On the unmodified tree 243 tests pass and exactly 11 fail (testMapOn, testMapOnRaster, test_read_wfs, test_read_asc, test_read_ign_mnt, test_read_metadata_mnt, testWriteTwoTrackToManyGpx0AF/1AF/2AF, testCircleTrigo, testCircles); with your change it must be exactly the same set.
  (d) comes with a demonstration program demo.py (plain python, run as `cd {wt} && PYTHONPATH={wt} /venv/bin/python _out/<id>/demo.py`) that exits 0 on the unmodified tree and exits 1 (prints what went wrong) with the change applied. The demo must test the PROPERTY (as stated), not the implementation detail you changed, and must be deterministic.

What kind of changes: the sort of slip a maintainer could plausibly commit during a refactoring, optimisation, clean-up or feature addition - NOT sabotage that ordinary use would expose at once. Each change must need something specific to manifest: an unusual input (boundary value, tie, zero, NaN, empty or one-element case, a particular size/parity, a particular orientation/mode/option), a multi-step sequence of operations, or two cooperating sites that each look fine alone (for instance a helper changed in a way that is harmless for most callers but not for the one the property depends on). Make the changes DIFFERENT from each other: different functions where possible (including helpers, callers, wrappers, tables/constants the mechanism relies on - not only the most obvious anchor function), and different kinds of slip (off-by-one, wrong variable/index, swapped arguments, dropped guard, strict vs non-strict comparison where the property distinguishes them, stale value, aliasing instead of copy, wrong default, unit/axis mix-up, early exit, missing update of a co-maintained variable ...). Keep each patch small (typically 1-10 changed lines) and natural-looking (it may include a plausible comment).

Procedure for each change k in {{{ids}}}, with id = {pid}-k:
  1. make sure the worktree is clean (git -C {wt} checkout -- tracklib).
  2. write the demo, check it exits 0 on the clean tree.
  3. edit the code; check the demo now exits 1; run the suite and check the pass/fail set is unchanged (if a test breaks, choose another change).
  4. save:  mkdir -p {wt}/_out/<id>;  git -C {wt} diff -- tracklib > {wt}/_out/<id>/patch.diff ; demo at {wt}/_out/<id>/demo.py ; and {wt}/_out/<id>/meta.json with keys: property, files (list), function (qualified name of the function changed), what_changed (2-4 sentences), needs_to_manifest (what specific input/sequence is needed and why ordinary use/tests do not hit it), suite ("243 passed / same 11 failed"), demo_clean ("PASS"), demo_patched ("FAIL").
  5. revert the worktree (git -C {wt} checkout -- tracklib) and confirm the demo exits 0 again.
Patches are each relative to the clean tree (not cumulative). Do not commit anything. Do not modify tests. Leave the worktree clean at the end. When you stop a hung process, kill only processes you started (never `pkill -f pytest`: other people run the suite on this machine).

Finish with a short report: for each id, one line saying what was changed and what is needed to see it. If after honest effort you can only produce fewer, say so.

Additional guidance for this round: {guide}
"""
TWIN_TASK = 'You are helping to evaluate a verification tool for the Python library tracklib (GPS trajectory library). You work ONLY inside your own scratch git worktree of the repository: {wt}  (never touch /repo, never look at /verif). The file {wt}/_out/PROPERTY.txt holds the text of one semantic property of the library (id {pid}) together with the code locations ("anchors") it rests on. Line numbers quoted there may be off by a few dozen lines; locate code by name.\n\nYour job: produce TWO independent BEHAVIOUR-PRESERVING refactorings (ids {pid}-{r1} and {pid}-{r2}) of the code the property rests on - the kind of clean-up a maintainer really commits: rename locals, introduce or inline temporaries, extract a private helper function/method or inline one, restructure control flow (guard clauses, if/elif chains, while <-> for, early continue), replace index loops by direct iteration / comprehensions / enumerate / zip, hoist loop invariants, use equivalent library idioms (min/max/sum/any/all, slicing, tuple unpacking, f-strings), reorder independent statements, merge or split conditions (De Morgan), replace a<b by b>a, x += e by x = x + e, move constants to module/class level, change a mutated zero-initialised object into a single constructor call, etc. Each refactoring should touch the central functions named in the anchors (and may touch their helpers/callers), be substantial (roughly 15-60 changed lines, several different kinds of rewrite combined) and MUST NOT change observable behaviour for ANY input: same return values (bit-identical floats), same exceptions at the same points, same side effects on arguments and objects, same printed output. Do not fix bugs, do not change semantics in corner cases (empty inputs, NaN, ties, negative indices, aliasing of returned objects). The two refactorings must differ from each other in the functions they touch and/or in the kinds of rewrite.\n\nFor each id:\n  1. make sure the worktree is clean (git -C {wt} checkout -- tracklib).\n  2. edit the code under {wt}/tracklib/.\n  3. write {wt}/_out/<id>/equiv.py: a differential test, run as `cd {wt} && PYTHONPATH={wt} /venv/bin/python _out/<id>/equiv.py`, that loads the ORIGINAL version of each changed module from git (`git show HEAD:<path>`, compiled into a separate module object - take care of relative imports by setting __package__ and importing tracklib first) next to the refactored working-tree version, drives both with the same large set of inputs (exhaustive small cases + seeded random cases, corner cases included: empty / one element / NaN / ties / zero / negative / boundary values / error paths) and compares results, raised exception types, side effects on the inputs and printed output exactly (floats bit-for-bit). It must print the number of scenarios compared and exit 0 iff there is no mismatch (exit 1 otherwise). It must be deterministic.\n  4. run the test suite (about 40 s):  cd {wt} && PYTHONPATH={wt} /venv/bin/python -m pytest -q -p no:cacheprovider --timeout=900 --continue-on-collection-errors 2>&1 | tail -15\n     On the unmodified tree 243 tests pass and exactly 11 fail (testMapOn, testMapOnRaster, test_read_wfs, test_read_asc, test_read_ign_mnt, test_read_metadata_mnt, testWriteTwoTrackToManyGpx0AF/1AF/2AF, testCircleTrigo, testCircles); with your change it must be exactly the same set.\n  5. save: git -C {wt} diff -- tracklib > {wt}/_out/<id>/patch.diff ; and {wt}/_out/<id>/meta.json with keys: property, kind ("refactoring"), files (list), function (names of the functions changed), what_changed (list the rewrites), why_equivalent (the argument, corner cases included), suite ("243 passed / same 11 failed"), equiv ("PASS").\n  6. revert the worktree (git -C {wt} checkout -- tracklib; remove any new untracked file under tracklib/).\nPatches are each relative to the clean tree (not cumulative). Do not commit anything. Do not modify tests. Leave the worktree clean at the end.\n\nFinish with a short report: for each id, which functions were refactored and how.\n\nAdditional guidance for this round: {guide}\n'

twins = ids and ids[0].startswith("R")
os.makedirs(root, exist_ok=True)
props = {json.loads(l)['id']: json.loads(l) for l in open('/verif/properties.jsonl')}
for pid, d in sorted(props.items()):
    wt = os.path.join(root, pid)
    subprocess.run(['git', '-C', '/repo', 'worktree', 'add', '--detach', wt, 'HEAD'], stdout=subprocess.DEVNULL, stderr=subprocess.DEVNULL, check=True)
    os.makedirs(wt + '/_out', exist_ok=True)
    a = d.get('anchors', {})
    txt = ['PROPERTY %s - %s' % (pid, d['title']), '', 'Statement: ' + d['statement'], '', 'Quantified over: ' + d['quantifier']['text'], '',
           'Why the existing tests cannot settle it: ' + d['why_tests_cant'], '', 'Anchors (files / state / mechanisms / where to observe):',
           '  files: ' + ', '.join(a.get('files', []))]
    txt += ['  state: %s - %s (%s)' % (s['name'], s['meaning'], s['where']) for s in a.get('state', [])]
    txt += ['  mechanism: %s (%s)' % (s['name'], s['where']) for s in a.get('mechanism', [])]
    txt.append('  observe at: ' + '; '.join(a.get('observe_at', [])))
    open(wt + '/_out/PROPERTY.txt', 'w').write('\n'.join(txt) + '\n')
    if twins:
        open(wt + '/_out/TASK.txt', 'w').write(TWIN_TASK.format(wt=wt, pid=pid, r1=ids[0], r2=ids[1], guide=guide))
        continue
    open(wt + '/_out/TASK.txt', 'w').write(TASK.format(wt=wt, pid=pid, n={1: 'ONE', 2: 'TWO', 3: 'THREE', 4: 'FOUR'}.get(len(ids), str(len(ids))), ids=', '.join(ids), guide=guide))
print('prepared', len(props), 'worktrees under', root)
