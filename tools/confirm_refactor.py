#!/usr/bin/env python3
"""Confirm a behaviour-preserving refactoring produced by a sub-agent and file it under /verif/seeded/<id>/.

usage: tools/confirm_refactor.py C04-R1 [...]
For each: in the scratch worktree /tmp/wtr/<Cxx> (clean), apply patch -> equiv.py must exit 0 -> the full suite must
give the baseline result set -> revert.  Then the property's check is run on a scratch copy with the patch: it must
stay silent (exit 0).  Nothing is ever applied to /repo.
"""
import json, os, shutil, subprocess, sys
sys.path.insert(0, os.path.dirname(os.path.abspath(__file__)))
from confirm_seed import sh, suite, STABLE  # noqa

def main():
    for sid in sys.argv[1:]:
        pid = sid.split('-')[0]
        wt = os.environ.get('WTR_ROOT', '/tmp/wtr') + '/' + pid
        src = os.path.join(wt, '_out', sid)
        sh('git checkout -- tracklib', wt)
        rc, out = sh('git apply --check %s/patch.diff' % src, wt)
        if rc != 0:
            print(sid, 'PATCH DOES NOT APPLY', out[:300]); continue
        env = {'PYTHONPATH': wt}
        sh('git apply %s/patch.diff' % src, wt)
        rc1, out1 = sh('/venv/bin/python _out/%s/equiv.py' % sid, wt, env)
        passed = suite(wt)
        sh('git checkout -- tracklib', wt)
        sh('git clean -fdq tracklib', wt)
        missing = sorted(STABLE - passed)
        ok = rc1 == 0 and not missing
        print(sid, 'OK' if ok else 'REJECT', 'equiv exit=%d' % rc1, 'suite: %d passed, baseline missing=%s' % (len(passed), missing[:3]))
        if not ok:
            print(out1[-400:]); continue
        dst = '/verif/seeded/' + sid
        os.makedirs(dst, exist_ok=True)
        shutil.copy(os.path.join(src, 'patch.diff'), dst)
        shutil.copy(os.path.join(src, 'equiv.py'), dst)
        try:
            meta = json.load(open(os.path.join(src, 'meta.json')))
        except Exception:
            meta = {}
        meta['kind'] = 'refactoring'
        meta['confirmed_by_me'] = {
            'worktree': 'scratch git worktree of /repo HEAD under /tmp/wtr (removed afterwards)',
            'equiv_exit': rc1, 'equiv_tail': out1.strip().splitlines()[-2:],
            'suite_with_patch': '%d baseline tests passed, %d baseline tests missing' % (len(passed & STABLE), len(missing)),
        }
        json.dump(meta, open(os.path.join(dst, 'meta.json'), 'w'), indent=1)

if __name__ == '__main__':
    main()
