import math, sys, io, contextlib
import tracklib as tl
from tracklib import *

def mk(n=4):
    t = Track()
    for i in range(n):
        t.addObs(Obs(ENUCoords(i, 2*i, 0), ObsTime.readUnixTime(1000+i)))
    return t

print("--- C02 a*2^3")
t = mk(); t.createAnalyticalFeature('a', [1.,2.,3.,4.])
try:
    print(t.operate("a*2^3"))
except Exception as e: print("EXC", type(e).__name__, e)
print("--- C02 x=a removes a?")
t = mk(); t.createAnalyticalFeature('a', [1.,2.,3.,4.]); t.createAnalyticalFeature('b', [5.,6.,7.,8.])
try:
    t.operate("x=a"); print(t.getListAnalyticalFeatures(), t.getX())
except Exception as e: print("EXC", type(e).__name__, e)
print("--- C02 a=5 overwrite existing")
t = mk(); t.createAnalyticalFeature('a', [1.,2.,3.,4.])
t.operate("a=5"); print(t['a'])
print("--- C02 x=y")
t = mk()
try:
    t.operate("x=y"); print(t.getX(), t.getListAnalyticalFeatures())
except Exception as e: print("EXC", type(e).__name__, e)
print("--- C02 b=a (alias)")
t = mk(); t.createAnalyticalFeature('a', [1.,2.,3.,4.])
t.operate("b=a"); print(t.getListAnalyticalFeatures(), t['b'])

print("--- C03")
for s in [ObsTime(2021,1,1).toAbsTime(), ObsTime(2020,12,31,12).toAbsTime(), ObsTime(2019,12,31,12).toAbsTime(), ObsTime(2021,1,1,0,0,1).toAbsTime()]:
    r = ObsTime.readUnixTime(s); print(s, r.year, r.month, r.day, r.hour, r.min, r.sec, r.ms)
