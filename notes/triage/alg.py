import sympy as sp
x,y,a,b,c = sp.symbols('x y a b c', real=True)
# projection_droite general branch
xv=-b; yv=a; norm=sp.sqrt(xv*xv+yv*yv); xb=0; yb=-c/b
BH=((x-xb)*xv+(y-yb)*yv)/norm
xp=xb+BH*xv/norm; yp=yb+BH*yv/norm
print("on line:", sp.simplify(a*xp+b*yp+c))
print("normal :", sp.simplify((x-xp)*b-(y-yp)*a))
print("dist   :", sp.simplify((a*x+b*y+c)**2/(a*a+b*b) - ((x-xp)**2+(y-yp)**2)))
# cartesienne
x1,y1,x2,y2=sp.symbols('x1 y1 x2 y2', real=True)
u1=x2-x1;u2=y2-y1; B=-u1; A=u2; C=-(A*x1+B*y1)
print(sp.simplify(A*x1+B*y1+C), sp.simplify(A*x2+B*y2+C))
# interpolation weights
t,tb,tf=sp.symbols('t tb tf')
wb=(tf-t)/(tf-tb); wf=(t-tb)/(tf-tb)
print(sp.simplify(wb+wf), sp.simplify(wb*tb+wf*tf-t))
# rotation
sl,cl,sp_,cp=sp.symbols('sl cl sp cp')
M=sp.Matrix([[-sl, cl, 0],[-cl*sp_, -sl*sp_, cp],[cl*cp, sl*cp, sp_]])   # ecef->enu rows E,N,U over x,y,z
Minv=sp.Matrix([[-sl, -cl*sp_, cl*cp],[cl, -sl*sp_, sl*cp],[0, cp, sp_]])  # enu->ecef rows X,Y,Z over e,n,u
print((M.T-Minv).applyfunc(sp.simplify))
MMt=(M*M.T).applyfunc(lambda e: sp.expand(e).subs({cl**2:1-sl**2, cp**2:1-sp_**2}))
print(MMt.applyfunc(sp.expand))
# toSlidingWindow symmetry
i,size=sp.symbols('i size')
xi=lambda k: size/2 - k - sp.Rational(1,2)
print(sp.simplify(xi(i)+xi(size-1-i)))
# distToNode
