import ast, glob, builtins, sys, warnings
warnings.filterwarnings("ignore")
# crude: names loaded in module that are never bound anywhere in module (any scope) nor builtins, ignoring star imports resolution (report modules with star imports separately)
for f in sorted(glob.glob('/repo/tracklib/**/*.py', recursive=True)):
    t=ast.parse(open(f).read())
    bound=set(dir(builtins)); star=[]
    for n in ast.walk(t):
        if isinstance(n,(ast.FunctionDef,ast.ClassDef,ast.AsyncFunctionDef)): bound.add(n.name)
        if isinstance(n,ast.arg): bound.add(n.arg)
        if isinstance(n,ast.Name) and isinstance(n.ctx,(ast.Store,ast.Del)): bound.add(n.id)
        if isinstance(n,ast.Import):
            for a in n.names: bound.add((a.asname or a.name).split('.')[0])
        if isinstance(n,ast.ImportFrom):
            for a in n.names:
                if a.name=='*': star.append(n.module or '.'*n.level)
                else: bound.add(a.asname or a.name)
        if isinstance(n,ast.ExceptHandler) and n.name: bound.add(n.name)
        if isinstance(n,(ast.Global,ast.Nonlocal)): bound.update(n.names)
    und={}
    for n in ast.walk(t):
        if isinstance(n,ast.Name) and isinstance(n.ctx,ast.Load) and n.id not in bound:
            und.setdefault(n.id,[]).append(n.lineno)
    if und: print(f.replace('/repo/',''), 'star=',star, {k:v[:4] for k,v in und.items()})
