import warnings; warnings.filterwarnings("ignore")
from tracklib import *
t = Track()
for i in range(5): t.addObs(Obs(ENUCoords(i,0,0), ObsTime.readUnixTime(i)))
t.createAnalyticalFeature('a',[5.,-1.,3.,-4.,2.])
print("MAD", t.operate(Operator.MAD,'a'), "expected 3;  MEDIAN", t.operate(Operator.MEDIAN,'a'), t.operate("MAD{a}")[:1])
