import itertools
bad=[]
seen=set()
for ul,u,l in itertools.product(range(3),repeat=3):
    # canonical weak ordering key
    vals=sorted(set((ul,u,l))); key=tuple(vals.index(v) for v in (ul,u,l))
    if key in seen: continue
    seen.add(key)
    di=(l>=min(ul,u)); dj=(u>=min(ul,l))
    pred={ (1,1):ul, (1,0):u, (0,1):l, (0,0):None}[(int(di),int(dj))]
    ok = pred is not None and pred==min(ul,u,l)
    if not ok: bad.append((key,(int(di),int(dj))))
print(len(seen),"orderings; bad:",bad)
