import warnings, itertools
warnings.filterwarnings("ignore")
from tracklib import *
import numpy as np
def mk(pts):
    t = Track()
    for i,(x,y) in enumerate(pts):
        t.addObs(Obs(ENUCoords(x, y, 0), ObsTime.readUnixTime(1000+i)))
    return t
pts = [(0,0),(1,0),(0,1),(1,1),(2,0)]
found=0
for n1 in (2,3):
  for n2 in (2,3):
    for A in itertools.product(pts, repeat=n1):
      for B in itertools.product(pts, repeat=n2):
        a=mk(A); b=mk(B)
        m = match(a,b,mode=MODE_MATCHING_DTW,p=1,verbose=False)
        tot=0
        for i in range(len(m)):
            for j in m['pair',i]:
                tot += a[i].position.distance2DTo(b[j].position)
        if abs(tot-m.score)>1e-9:
            found+=1
            if found<4: print(A,B,m.score,tot,[m['pair',i] for i in range(len(m))])
print("mismatches", found)
# C12
C5 = np.array([[0,1,1,9,0],[1,0,1,1,0],[1,1,0,1,0],[9,1,1,0,0],[0,0,0,0,0]],dtype=float)
print(optimalPartition(C5, MODE_SEGMENTATION_MINIMIZE, verbose=False), optimalPartition(C5, MODE_SEGMENTATION_MAXIMIZE, verbose=False))
