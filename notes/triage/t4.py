import warnings, itertools, os, io, contextlib
warnings.filterwarnings("ignore")
from tracklib import *
import numpy as np
def mk(pts, t0=1000):
    t = Track()
    for i,(x,y) in enumerate(pts):
        t.addObs(Obs(ENUCoords(x, y, 0), ObsTime.readUnixTime(t0+i)))
    return t
print("--- C08 margin 0")
tc = TrackCollection([mk([(0,0),(10,10)])])
try:
    with contextlib.redirect_stdout(io.StringIO()):
        si = SpatialIndex(tc, (2,2), margin=0, verbose=False)
    print("ok", si.csize, si.lsize)
    print(si.request(ENUCoords(10,10)))
except Exception as e: print("EXC", type(e).__name__, e)
print("--- C08 nonsquare units")
tc = TrackCollection([mk([(0,0),(100,100)]), mk([(50,0),(50.0,100)])])
with contextlib.redirect_stdout(io.StringIO()):
    si = SpatialIndex(tc, (1,10), margin=0.05, verbose=False)
print(si.dX, si.dY, si.groundDistanceToUnits(5))
q = ENUCoords(45.2, 50)   # 4.8 from track 1 (x=50)
print(si.neighborhood(q, unit=si.groundDistanceToUnits(5)))
print("--- C13 network header 0")
net = Network()
def edge(id, a, b, w, pa, pb, ori=0):
    tr = mk([pa,pb]); e = Edge(id, tr); e.weight=w; e.orientation=ori
    net.addEdge(e, Node(a, ENUCoords(*pa,0)), Node(b, ENUCoords(*pb,0)))
edge("e1","A","B",0,(0,0),(1,0)); edge("e2","B","C",1,(1,0),(2,0),1); edge("e3","C","D",1,(2,0),(3,0),-1)
NetworkWriter.writeToCsv(net, "/tmp/tl_triage/net0.csv", h=0)
fmt = NetworkFormat({"pos_edge_id":0,"pos_source":1,"pos_target":2,"pos_direction":3,"pos_wkt":4,"header":0,"srid":"ENU","separator":","})
n2 = NetworkReader.readFromFile("/tmp/tl_triage/net0.csv", fmt, verbose=False)
print(len(n2.EDGES), list(n2.EDGES))
NetworkWriter.writeToCsv(net, "/tmp/tl_triage/net1.csv", h=1)
fmt.header=1
n2 = NetworkReader.readFromFile("/tmp/tl_triage/net1.csv", fmt, verbose=False)
print(len(n2.EDGES), list(n2.EDGES), [e.orientation for e in n2])
print("--- C13 track csv blank sep")
t = mk([(1.5,2.5),(3.25,-4.125)], t0=ObsTime(2020,12,31,23,59,58).toAbsTime())
TrackWriter.writeToFile(t, "/tmp/tl_triage/t.csv", id_E=1, id_N=0, id_U=3, id_T=2, separator=" ")
print(open("/tmp/tl_triage/t.csv").read())
r = TrackReader.readFromCsv("/tmp/tl_triage/t.csv", id_E=1, id_N=0, id_U=3, id_T=2, separator=" ")
print(r)
TrackWriter.writeToFile(t, "/tmp/tl_triage/t.csv", id_E=1, id_N=0, id_U=3, id_T=2, separator=";", h=1)
print(open("/tmp/tl_triage/t.csv").read())
r = TrackReader.readFromCsv("/tmp/tl_triage/t.csv", id_E=1, id_N=0, id_U=3, id_T=2, separator=";", h=1)
print(r)
