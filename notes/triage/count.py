import ast, glob, os
tot_f=0; tot_c=0; tot_m=0; files=sorted(glob.glob('/repo/tracklib/**/*.py', recursive=True))
for f in files:
    t=ast.parse(open(f).read())
    for n in ast.walk(t):
        if isinstance(n,(ast.FunctionDef,ast.AsyncFunctionDef)): tot_f+=1
        if isinstance(n,ast.ClassDef): tot_c+=1
print(len(files), "files", tot_f, "functions", tot_c, "classes")
t=ast.parse(open('/repo/tracklib/core/operators.py').read())
bases={}
for n in t.body:
    if isinstance(n,ast.ClassDef):
        bases[n.name]=[b.id for b in n.bases if isinstance(b,ast.Name)]
from collections import Counter
print(Counter(b for v in bases.values() for b in v))
for n in t.body:
    if isinstance(n,ast.ClassDef) and n.name=='Operator':
        for s in n.body:
            if isinstance(s,ast.Assign) and isinstance(s.value,ast.Dict):
                print(s.targets[0].id, len(s.value.keys))
