import warnings; warnings.filterwarnings("ignore")
import io, contextlib
from tracklib import *
import tracklib; print(tracklib.__file__)
def mk(n=4):
    t = Track()
    for i in range(n): t.addObs(Obs(ENUCoords(i, 2*i, 0), ObsTime.readUnixTime(1000+i)))
    return t
t = mk(); t.createAnalyticalFeature('a', [1.,2.,3.,4.]); print(t.operate("a*2^3"))
t.operate("x=a"); print(t.getListAnalyticalFeatures(), t.getX())
t.operate("a=5"); print(t['a'])
t.operate("x=y"); print(t.getX(), t.getListAnalyticalFeatures())
t.operate("y=7"); print(t.getY()); t.operate("q=3"); print(t['q'])
t.operate("y=a*2"); print(t.getY(), t.getListAnalyticalFeatures())
for d in [(2022,1,1,0),(2020,12,31,12),(2021,1,1,0),(2019,12,31,23),(2000,2,29,5),(2100,3,1,0)]:
    s=ObsTime(*d).toAbsTime(); r=ObsTime.readUnixTime(s); print(d, (r.year,r.month,r.day,r.hour))
