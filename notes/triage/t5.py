import warnings, itertools, os, io, contextlib, random
warnings.filterwarnings("ignore")
from tracklib import *
import numpy as np
def mk(pts, t0=1000, dt=1):
    t = Track()
    for i,(x,y) in enumerate(pts):
        t.addObs(Obs(ENUCoords(x, y, 0), ObsTime.readUnixTime(t0+i*dt)))
    return t
print("--- C13 csv ; h=1")
t = mk([(1.5,2.5),(3.25,-4.125)], t0=ObsTime(2020,6,30,23,59,58).toAbsTime())
TrackWriter.writeToFile(t, "/tmp/tl_triage/t.csv", id_E=1, id_N=0, id_U=3, id_T=2, separator=";", h=1)
print(open("/tmp/tl_triage/t.csv").read())
r = TrackReader.readFromCsv("/tmp/tl_triage/t.csv", id_E=1, id_N=0, id_U=3, id_T=2, separator=";", h=1)
print(r)
print("--- C04 insertion")
bad=0
for n in range(0,10):
    for pos in range(-1, 2*n+2):
        t = mk([(i,0) for i in range(n)], t0=1000, dt=2)
        o = Obs(ENUCoords(99,99,0), ObsTime.readUnixTime(1000+pos))
        try:
            t.insertObs(o)
            T = t.getT()
            if any(T[i]>T[i+1] for i in range(len(T)-1)): bad+=1; print("unsorted", n, pos, T)
        except Exception as e:
            bad+=1; print("EXC", n, pos, type(e).__name__, e)
print("bad", bad)
print("--- C01 sequences")
t = mk([(0,0),(1,1),(2,2)])
t.createAnalyticalFeature('a',[1,2,3]); t.createAnalyticalFeature('b',[4,5,6]); t.createAnalyticalFeature('c',[7,8,9])
t.removeAnalyticalFeature('a'); print(t['b'], t['c']); t.createAnalyticalFeature('a',[0,0,1]); print(t['a'],t['b'],t['c'], [len(o.features) for o in t])
t.operate("d=b+c*2"); print(t.getListAnalyticalFeatures(), t['d'])
print(t.operate("b+c"), t.getListAnalyticalFeatures())
print("--- C15 filter")
t = mk([(i,0) for i in range(7)]); t.createAnalyticalFeature('a',[1,2,3,4,5,6,7])
print(t.operate(Operator.FILTER, 'a', [1,1,1], 'f'))
k = GaussianKernel(1); print(k.toSlidingWindow(), sum(k.toSlidingWindow()))
print(t.operate(Operator.FILTER, 'a', k, 'g'))
k.setFilterBoundary(True); print(t.operate(Operator.FILTER, 'a', k, 'h'))
