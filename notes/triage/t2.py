import math, sys, io, contextlib, warnings
warnings.filterwarnings("ignore")
import tracklib as tl
from tracklib import *
from tracklib.core.utils import co_min, co_max, co_median
NAN=float('nan')
r = ObsTime.readUnixTime(ObsTime(2022,1,1).toAbsTime()); print("C03 2022-01-01:", r.year, r.month, r.day, r.hour)
print("--- C19 co_min nan first", co_min([NAN, 1, 2]), co_max([NAN,1,2]))
try: print(co_median([NAN]))
except Exception as e: print("co_median EXC", type(e).__name__, e)
print("--- C16 DP closed loop")
def mk(pts):
    t = Track()
    for i,(x,y) in enumerate(pts):
        t.addObs(Obs(ENUCoords(x, y, 0), ObsTime.readUnixTime(1000+i)))
    return t
t = mk([(0,0),(1,0),(1,1),(0,1),(0,0)])
try: s = simplify(t, 0.1, MODE_SIMPLIFY_DOUGLAS_PEUCKER); print(s.size())
except Exception as e: print("DP EXC", type(e).__name__, e)
print("--- C16 visvalingam first fix")
t = mk([(0,0),(5,0.0),(10,0),(10,10),(0,0.01)])
s = simplify(t, 1.0, MODE_SIMPLIFY_VISVALINGAM); print([ (o.position.getX(), o.position.getY()) for o in s])
print("--- C12 minimize ignored")
import numpy as np
C = np.array([[0,1,5,9],[1,0,1,5],[5,1,0,1],[9,5,1,0],], dtype=float)
C5 = np.zeros((5,5)); C5[:4,:4]=C
print(optimalPartition(C5, MODE_SEGMENTATION_MINIMIZE, verbose=False), optimalPartition(C5, MODE_SEGMENTATION_MAXIMIZE, verbose=False))
print("--- C20 vertical")
print(proj_segment([10,0,10,5], 5, 2))
print("--- C07 zero weight")
net = Network()
def edge(id, a, b, w, pa, pb, ori=0):
    tr = mk([pa,pb]); e = Edge(id, tr); e.weight=w; e.orientation=ori
    net.addEdge(e, Node(a, ENUCoords(*pa,0)), Node(b, ENUCoords(*pb,0)))
edge("e1","A","B",0,(0,0),(1,0)); edge("e2","B","C",1,(1,0),(2,0))
p = net.shortest_path("A","C"); print(p.path if p else None, p.size() if p else None, net.shortest_distance("A","C"))
print("--- C18 tie")
t1 = mk([(0,0),(1,0),(2,0)]); 
t2 = mk([(0,0),(0,1),(2,0)])
for a,b in [(t1,t2)]:
    m = match(a,b,mode=MODE_MATCHING_DTW,p=1,verbose=False)
    tot=0
    for i in range(len(m)):
        for j in m['pair',i]:
            tot += a[i].position.distance2DTo(b[j].position)
    print(m.score, tot, [m['pair',i] for i in range(len(m))])
