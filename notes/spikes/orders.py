"""Prototype: evaluate a comparison-only AST expression on every weak ordering of its free names."""
import ast, itertools
def weak_orderings(names):
    seen=set()
    for ranks in itertools.product(range(len(names)), repeat=len(names)):
        vals=sorted(set(ranks)); key=tuple(vals.index(r) for r in ranks)
        if key not in seen:
            seen.add(key); yield dict(zip(names,key))
def ev(n, env):
    if isinstance(n,ast.Name): return env[n.id]
    if isinstance(n,ast.Constant): return n.value
    if isinstance(n,ast.Call) and isinstance(n.func,ast.Name) and n.func.id in('min','max'):
        return (min if n.func.id=='min' else max)(ev(a,env) for a in n.args)
    if isinstance(n,ast.Compare):
        l=ev(n.left,env); ok=True
        for op,c in zip(n.ops,n.comparators):
            r=ev(c,env)
            ok = ok and {ast.Lt:l<r,ast.LtE:l<=r,ast.Gt:l>r,ast.GtE:l>=r,ast.Eq:l==r,ast.NotEq:l!=r}[type(op)]
            l=r
        return ok
    if isinstance(n,ast.BoolOp):
        vs=[ev(v,env) for v in n.values]; return all(vs) if isinstance(n.op,ast.And) else any(vs)
    if isinstance(n,ast.UnaryOp) and isinstance(n.op,ast.Not): return not ev(n.operand,env)
    if isinstance(n,ast.BinOp):
        a,b=ev(n.left,env),ev(n.right,env)
        return {ast.Add:lambda:a+b,ast.Sub:lambda:a-b,ast.Mult:lambda:a*b}[type(n.op)]()
    raise NotImplementedError(ast.dump(n))
src=open('/repo/tracklib/algo/comparison.py').read(); mod=ast.parse(src)
f=[n for n in mod.body if isinstance(n,ast.FunctionDef) and n.name=='_dtw'][0]
# find the assignment to M[i,j] inside the doubly nested loop
asg=[n for n in ast.walk(f) if isinstance(n,ast.Assign) and isinstance(n.targets[0],ast.Subscript) and ast.unparse(n.targets[0])=='M[i, j]'][0]
print(ast.unparse(asg))
# value = (i - A) + (j - B)*1j  -> extract A,B
v=asg.value
A=v.left.right; B=v.right.left.right
print("di =",ast.unparse(A)," dj =",ast.unparse(B))
bad=[]
for env in weak_orderings(['ul','u','l']):
    di=int(ev(A,env)); dj=int(ev(B,env))
    pred={(1,1):'ul',(1,0):'u',(0,1):'l'}.get((di,dj))
    if pred is None or env[pred]!=min(env.values()): bad.append((env,(di,dj)))
print("orderings:",len(list(weak_orderings(['ul','u','l']))),"violating:",bad)
