"""Prototype: exact rational-function normal form (own code, no sympy)."""
from fractions import Fraction
import ast, itertools

class Poly:
    """polynomial: dict monomial->Fraction ; monomial = tuple(sorted((atom, exp)))"""
    __slots__=("t",)
    def __init__(self,t=None): self.t={k:v for k,v in (t or {}).items() if v!=0}
    @staticmethod
    def const(c): return Poly({():Fraction(c)})
    @staticmethod
    def atom(a): return Poly({((a,1),):Fraction(1)})
    def __add__(s,o):
        r=dict(s.t)
        for k,v in o.t.items(): r[k]=r.get(k,0)+v
        return Poly(r)
    def __neg__(s): return Poly({k:-v for k,v in s.t.items()})
    def __sub__(s,o): return s+(-o)
    def __mul__(s,o):
        r={}
        for k1,v1 in s.t.items():
            for k2,v2 in o.t.items():
                d=dict(k1)
                for a,e in k2: d[a]=d.get(a,0)+e
                k=tuple(sorted(((a,e) for a,e in d.items() if e!=0), key=repr))
                r[k]=r.get(k,0)+v1*v2
        return Poly(r)
    def __pow__(s,n):
        r=Poly.const(1)
        for _ in range(n): r=r*s
        return r
    def iszero(s): return not s.t
    def key(s): return tuple(sorted(((k,v) for k,v in s.t.items()), key=repr))
    def __repr__(s):
        if not s.t: return "0"
        return " + ".join(f"{v}*"+"*".join(f"{a}^{e}" for a,e in k) if k else str(v) for k,v in sorted(s.t.items(), key=repr))

class Rat:
    """num/den of Poly"""
    def __init__(s,n,d=None): s.n=n; s.d=d if d is not None else Poly.const(1)
    def __add__(s,o): return Rat(s.n*o.d+o.n*s.d, s.d*o.d)
    def __sub__(s,o): return Rat(s.n*o.d-o.n*s.d, s.d*o.d)
    def __mul__(s,o): return Rat(s.n*o.n, s.d*o.d)
    def __truediv__(s,o): return Rat(s.n*o.d, s.d*o.n)
    def __neg__(s): return Rat(-s.n,s.d)
    def __pow__(s,n): return Rat(s.n**n, s.d**n) if n>=0 else Rat(s.d**(-n), s.n**(-n))

SQRT={}   # atom name -> Rat radicand
def reduce_sqrt(p):
    """replace atom^2k by radicand^k (radicand must be polynomial here: den==1)"""
    changed=True
    while changed:
        changed=False
        out=Poly()
        for k,v in p.t.items():
            term=Poly({():v}); 
            for a,e in k:
                if a in SQRT and e>=2:
                    rad=SQRT[a]
                    assert rad.d.key()==Poly.const(1).key()
                    term=term*(rad.n**(e//2))
                    if e%2: term=term*Poly.atom(a)
                    changed=True
                else:
                    term=term*(Poly.atom(a)**e)
            out=out+term
        p=out
    return p
def is_zero(r):
    return reduce_sqrt(r.n).iszero()
def equal(r1,r2): return is_zero(r1-r2)

class Tr:
    """AST expr -> Rat, with environment of inlined locals"""
    def __init__(s,env=None): s.env=dict(env or {})
    def ex(s,n):
        if isinstance(n,ast.Constant) and isinstance(n.value,(int,float)):
            return Rat(Poly.const(Fraction(str(n.value))))
        if isinstance(n,ast.Name):
            if n.id in s.env: return s.env[n.id]
            return Rat(Poly.atom(n.id))
        if isinstance(n,ast.UnaryOp) and isinstance(n.op,ast.USub): return -s.ex(n.operand)
        if isinstance(n,ast.UnaryOp) and isinstance(n.op,ast.UAdd): return s.ex(n.operand)
        if isinstance(n,ast.BinOp):
            a=s.ex(n.left)
            if isinstance(n.op,ast.Pow):
                if isinstance(n.right,ast.Constant) and isinstance(n.right.value,int): return a**n.right.value
                raise NotImplementedError(ast.dump(n))
            b=s.ex(n.right)
            return {ast.Add:a.__add__,ast.Sub:a.__sub__,ast.Mult:a.__mul__,ast.Div:a.__truediv__}[type(n.op)](b)
        if isinstance(n,ast.Call):
            f=ast.unparse(n.func)
            if f in("math.sqrt",):
                rad=s.ex(n.args[0]); name="sqrt<%s|%s>"%(reduce_sqrt(rad.n).key().__hash__(), rad.d.key().__hash__())
                SQRT[name]=rad; return Rat(Poly.atom(name))
            if f in("math.fabs","abs"):
                rad=s.ex(n.args[0])*s.ex(n.args[0]); name="abs<%s>"%hash((rad.n.key(),rad.d.key()))
                SQRT[name]=rad; return Rat(Poly.atom(name))   # abs(e)^2 = e^2
            return Rat(Poly.atom(ast.unparse(n)))
        if isinstance(n,ast.Subscript): return Rat(Poly.atom(ast.unparse(n)))
        if isinstance(n,ast.Attribute): return Rat(Poly.atom(ast.unparse(n)))
        raise NotImplementedError(ast.dump(n))

def straightline(stmts, env=None, subst=None):
    """interpret straight-line assignments; returns list of (env, returned tuple) per return on each if-branch (only simple if with Compare ==0 supported)"""
    tr=Tr(env); 
    if subst: tr.env.update(subst)
    outs=[]
    for st in stmts:
        if isinstance(st,ast.Assign) and len(st.targets)==1 and isinstance(st.targets[0],ast.Name):
            tr.env[st.targets[0].id]=tr.ex(st.value)
        elif isinstance(st,ast.AugAssign) and isinstance(st.target,ast.Name):
            cur=tr.ex(ast.Name(id=st.target.id,ctx=ast.Load())); v=tr.ex(st.value)
            tr.env[st.target.id]={ast.Add:cur.__add__,ast.Sub:cur.__sub__,ast.Mult:cur.__mul__,ast.Div:cur.__truediv__}[type(st.op)](v)
        elif isinstance(st,ast.Return):
            vals=st.value.elts if isinstance(st.value,ast.Tuple) else [st.value]
            outs.append((dict(tr.env),[tr.ex(v) for v in vals])); return outs
        elif isinstance(st,ast.If):
            # equality-with-constant test on a name -> substitution on then-branch
            t=st.test
            sub={}
            if isinstance(t,ast.Compare) and isinstance(t.ops[0],ast.Eq) and isinstance(t.left,ast.Name) and isinstance(t.comparators[0],ast.Constant):
                sub={t.left.id: Rat(Poly.const(Fraction(str(t.comparators[0].value))))}
            o=straightline(st.body, tr.env, sub)
            outs+= [("then:"+ast.unparse(t),)+x for x in o]
            # else / fallthrough continues
            if st.orelse:
                o2=straightline(st.orelse, tr.env); outs+=[("else",)+x for x in o2]
        elif isinstance(st,ast.Expr): pass
        else: raise NotImplementedError(ast.dump(st)[:80])
    return outs

if __name__=="__main__":
    import sys
    src=open('/repo/tracklib/util/geometry.py').read(); mod=ast.parse(src)
    fn={n.name:n for n in mod.body if isinstance(n,ast.FunctionDef)}
    f=fn['projection_droite']
    # params: param (a,b,c via subscripts) , x, y
    outs=straightline(f.body)
    for o in outs:
        tag = o[0] if isinstance(o[0],str) else "fallthrough"
        env,vals = (o[1],o[2]) if isinstance(o[0],str) else (o[0],o[1])
        a,b,c=env['a'],env['b'],env['c']; x=Rat(Poly.atom('x')); y=Rat(Poly.atom('y'))
        xp,yp=vals
        print(tag, "on-line:", is_zero(a*xp+b*yp+c), " normal:", is_zero((x-xp)*b-(y-yp)*a))
    # cartesienne
    f=fn['cartesienne']
    # weights
    src=open('/repo/tracklib/algo/interpolation.py').read(); mod=ast.parse(src)
    g={n.name:n for n in mod.body if isinstance(n,ast.FunctionDef)}['__resampleTemporal']
    loop=[n for n in ast.walk(g) if isinstance(n,ast.For)][1]
    tr=Tr()
    for st in loop.body:
        if isinstance(st,ast.Assign) and isinstance(st.targets[0],ast.Name):
            try: tr.env[st.targets[0].id]=tr.ex(st.value)
            except NotImplementedError: pass
    one=Rat(Poly.const(1))
    print("wsum==1:", equal(tr.env['wbwd']+tr.env['wfwd'], one))
    print("abscissa:", equal(tr.env['wbwd']*tr.env['tbwd']+tr.env['wfwd']*tr.env['tfwd'], tr.env['t']))
    print("X form:", tr.env['X'].n)
