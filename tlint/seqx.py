"""Symbolic evaluation of text-building code (writers): strings are sequences of literal and symbolic parts,
`+` concatenates in order, lists are real lists, presence flags and column numbers are concrete, everything else is an
opaque symbol with a canonical text.  Unknown tests fork the path.  Nothing of the analysed program is executed: the
interpreter walks the syntax tree of the function and of the repo helpers it calls.

    sx = SeqX(resolve=lambda name: FuncInfo | None)
    for p in sx.run(stmts, env):      # p.kind in 'fall' 'return' ; p.env ; p.value ; p.conds ; p.events
"""
import ast
import copy

from .loader import shape_error


class Unsupported(Exception):
    pass


class Sym:
    """opaque value"""
    __slots__ = ('text',)

    def __init__(self, text):
        self.text = text

    def __repr__(self):
        return self.text

    def __eq__(self, o):
        return isinstance(o, Sym) and o.text == self.text

    def __hash__(self):
        return hash(('Sym', self.text))


class Loop:
    """a block of text repeated for every element of `over`"""
    __slots__ = ('over', 'parts')

    def __init__(self, over, parts):
        self.over = over
        self.parts = tuple(parts)

    def __repr__(self):
        return 'for-each(%s){%s}' % (self.over, ' '.join(_p(x) for x in self.parts))

    def __eq__(self, o):
        return isinstance(o, Loop) and (o.over, o.parts) == (self.over, self.parts)

    def __hash__(self):
        return hash(('Loop', self.over, self.parts))


def _p(x):
    return repr(x) if isinstance(x, str) else repr(x)


class Cat:
    """a string: concatenation of literal (str) and symbolic (Sym / Loop) parts; adjacent literals are merged"""
    __slots__ = ('parts',)

    def __init__(self, parts=()):
        out = []
        for x in parts:
            if isinstance(x, Cat):
                xs = x.parts
            else:
                xs = (x,)
            for y in xs:
                if isinstance(y, str):
                    if y == '':
                        continue
                    if out and isinstance(out[-1], str):
                        out[-1] += y
                        continue
                out.append(y)
        self.parts = tuple(out)

    def __repr__(self):
        return ' + '.join(_p(x) for x in self.parts) if self.parts else "''"

    def __eq__(self, o):
        return isinstance(o, Cat) and o.parts == self.parts

    def __hash__(self):
        return hash(('Cat', self.parts))

    def endswith(self, s):
        return bool(self.parts) and isinstance(self.parts[-1], str) and self.parts[-1].endswith(s)

    def split(self, sep):
        """fields of the text when cut at every occurrence of the symbolic part `sep` (a Sym) or literal `sep` (a str)"""
        fields = [[]]
        for x in self.parts:
            if x == sep:
                fields.append([])
            elif isinstance(x, str) and isinstance(sep, str) and sep in x:
                bits = x.split(sep)
                fields[-1].append(bits[0])
                for b in bits[1:]:
                    fields.append([b])
            else:
                fields[-1].append(x)
        return [Cat(f) for f in fields]


def is_text(v):
    return isinstance(v, (str, Cat)) or (isinstance(v, Sym) and getattr(v, 'text', '').startswith(('str(', 'fmt<')))


def text(v):
    if isinstance(v, Sym):
        return v.text
    if isinstance(v, Cat):
        return repr(v)
    if isinstance(v, (list, tuple)):
        return ('[%s]' if isinstance(v, list) else '(%s)') % ', '.join(text(x) for x in v)
    return repr(v)


class Path:
    __slots__ = ('kind', 'env', 'value', 'conds', 'events', 'node')

    def __init__(self, kind, env, value=None, conds=(), events=(), node=None):
        self.kind = kind
        self.env = env
        self.value = value
        self.conds = list(conds)
        self.events = list(events)
        self.node = node


class _St:
    __slots__ = ('env', 'conds', 'events')

    def __init__(self, env, conds=None, events=None):
        self.env = env
        self.conds = conds if conds is not None else []
        self.events = events if events is not None else []

    def fork(self):
        return _St(copy.deepcopy(self.env), list(self.conds), list(self.events))


MAX_PATHS = 4000


class SeqX:
    def __init__(self, resolve=None, decide=None, max_depth=4):
        self.resolve = resolve or (lambda name: None)
        self.decide = decide or (lambda text: None)      # decide(text of an unknown test) -> True/False/None
        self.depth = 0
        self.max_depth = max_depth
        self.npaths = 0

    # ---- expressions -------------------------------------------------------------------------------------
    def ev(self, n, st):
        env = st.env
        if isinstance(n, ast.Constant):
            return n.value
        if isinstance(n, ast.Name):
            if n.id in env:
                return env[n.id]
            if n.id in ('None', 'True', 'False'):
                return {'None': None, 'True': True, 'False': False}[n.id]
            return Sym(n.id)
        if isinstance(n, ast.Attribute):
            key = self._key(n, st)
            if key is not None and key in env:
                return env[key]
            base = self.ev(n.value, st)
            return Sym('%s.%s' % (text(base), n.attr))
        if isinstance(n, (ast.List, ast.Tuple)):
            v = [self.ev(e, st) for e in n.elts]
            return v if isinstance(n, ast.List) else tuple(v)
        if isinstance(n, ast.BinOp):
            l, r = self.ev(n.left, st), self.ev(n.right, st)
            if isinstance(n.op, ast.Add):
                if isinstance(l, list) and isinstance(r, list):
                    return l + r
                if isinstance(l, tuple) and isinstance(r, tuple):
                    return l + r
                if isinstance(l, (int, float)) and not isinstance(l, bool) and isinstance(r, (int, float)) and not isinstance(r, bool):
                    return l + r
                if isinstance(l, (str, Cat)) or isinstance(r, (str, Cat)):
                    return Cat([l if isinstance(l, (str, Cat, Sym, Loop)) else Sym(text(l)), r if isinstance(r, (str, Cat, Sym, Loop)) else Sym(text(r))])
                if isinstance(l, (Sym, Loop)) and isinstance(r, (Sym, Loop)):
                    return Cat([l, r])            # writers add texts; symbolic numbers do not occur in them
                return Sym('(%s + %s)' % (text(l), text(r)))
            if isinstance(l, (int, float)) and isinstance(r, (int, float)) and not isinstance(l, bool) and not isinstance(r, bool):
                try:
                    if isinstance(n.op, ast.Sub):
                        return l - r
                    if isinstance(n.op, ast.Mult):
                        return l * r
                    if isinstance(n.op, ast.FloorDiv):
                        return l // r
                    if isinstance(n.op, ast.Mod):
                        return l % r
                except ZeroDivisionError:
                    pass
            if isinstance(n.op, ast.Mult) and isinstance(l, list) and isinstance(r, int):
                return l * r
            if isinstance(n.op, ast.Mult) and isinstance(r, list) and isinstance(l, int):
                return r * l
            return Sym('(%s %s %s)' % (text(l), type(n.op).__name__, text(r)))
        if isinstance(n, ast.UnaryOp):
            if isinstance(n.op, ast.Not):
                t = self.truth(n.operand, st)
                return (not t) if t is not None else Sym('not %s' % text(self.ev(n.operand, st)))
            v = self.ev(n.operand, st)
            if isinstance(n.op, ast.USub) and isinstance(v, (int, float)):
                return -v
            return Sym('%s%s' % ('-' if isinstance(n.op, ast.USub) else '+', text(v)))
        if isinstance(n, (ast.Compare, ast.BoolOp)):
            t = self.truth(n, st)
            return t if t is not None else Sym(self.ctext(n, st))
        if isinstance(n, ast.IfExp):
            t = self.truth(n.test, st)
            if t is None:
                t = self.decide(self.ctext(n.test, st))
            if t is None:
                return Sym('(%s if %s else %s)' % (text(self.ev(n.body, st)), self.ctext(n.test, st), text(self.ev(n.orelse, st))))
            return self.ev(n.body if t else n.orelse, st)
        if isinstance(n, ast.Subscript):
            base = self.ev(n.value, st)
            if isinstance(n.slice, ast.Slice):
                lo = self.ev(n.slice.lower, st) if n.slice.lower is not None else None
                hi = self.ev(n.slice.upper, st) if n.slice.upper is not None else None
                if isinstance(base, (list, tuple, str)) and all(x is None or isinstance(x, int) for x in (lo, hi)) and n.slice.step is None:
                    return base[lo:hi]
                return Sym('%s[%s:%s]' % (text(base), '' if lo is None else text(lo), '' if hi is None else text(hi)))
            idx = self.ev(n.slice, st)
            if isinstance(base, (list, tuple, str)) and isinstance(idx, int) and not isinstance(idx, bool) and -len(base) <= idx < len(base):
                return base[idx]
            if isinstance(base, dict) and isinstance(idx, (str, int)) and idx in base:
                return base[idx]
            return Sym('%s[%s]' % (text(base), text(idx)))
        if isinstance(n, ast.Call):
            return self.call(n, st)
        if isinstance(n, ast.JoinedStr):
            parts = []
            for v in n.values:
                if isinstance(v, ast.Constant):
                    parts.append(v.value)
                else:
                    x = self.ev(v.value, st)
                    parts.append(x if isinstance(x, (str, Cat)) else Sym('str(%s)' % text(x)))
            return Cat(parts)
        if isinstance(n, ast.Dict):
            try:
                return {self.ev(k, st): self.ev(v, st) for k, v in zip(n.keys, n.values)}
            except TypeError:
                return Sym('dict<%s>' % ast.unparse(n))
        if isinstance(n, (ast.ListComp, ast.GeneratorExp)) and len(n.generators) == 1 and not n.generators[0].ifs:
            it = self.ev(n.generators[0].iter, st)
            if isinstance(it, (list, tuple)):
                out = []
                for x in it:
                    sub = _St(dict(st.env), st.conds, st.events)
                    self.bind(n.generators[0].target, x, sub)
                    out.append(self.ev(n.elt, sub))
                return out
            return Sym('comp<%s>' % ast.unparse(n))
        if isinstance(n, ast.Lambda):
            return Sym('lambda<%s>' % ast.unparse(n))
        raise Unsupported('expression %s' % type(n).__name__)

    def _key(self, n, st):
        """dotted key of an attribute chain rooted at a name (fmt.id_E)"""
        parts = []
        while isinstance(n, ast.Attribute):
            parts.append(n.attr)
            n = n.value
        if isinstance(n, ast.Name):
            root = st.env.get(n.id)
            if isinstance(root, Sym):
                return '.'.join([root.text] + parts[::-1])
            if root is None and n.id not in st.env:
                return '.'.join([n.id] + parts[::-1])
        return None

    def ctext(self, n, st):
        """canonical text of a test, locals substituted"""
        if isinstance(n, ast.BoolOp):
            return '(%s)' % (' and ' if isinstance(n.op, ast.And) else ' or ').join(self.ctext(v, st) for v in n.values)
        if isinstance(n, ast.UnaryOp) and isinstance(n.op, ast.Not):
            return 'not %s' % self.ctext(n.operand, st)
        if isinstance(n, ast.Compare) and len(n.ops) == 1:
            ops = {ast.Eq: '==', ast.NotEq: '!=', ast.Lt: '<', ast.LtE: '<=', ast.Gt: '>', ast.GtE: '>=', ast.Is: 'is', ast.IsNot: 'is not',
                   ast.In: 'in', ast.NotIn: 'not in'}
            return '%s %s %s' % (text(self.ev(n.left, st)), ops[type(n.ops[0])], text(self.ev(n.comparators[0], st)))
        return text(self.ev(n, st))

    def truth(self, n, st):
        """True / False when the test is decided by the concrete part of the state, else None"""
        if isinstance(n, ast.BoolOp):
            vals = [self.truth(v, st) for v in n.values]
            if isinstance(n.op, ast.And):
                if any(v is False for v in vals):
                    return False
                return True if all(v is True for v in vals) else None
            if any(v is True for v in vals):
                return True
            return False if all(v is False for v in vals) else None
        if isinstance(n, ast.UnaryOp) and isinstance(n.op, ast.Not):
            t = self.truth(n.operand, st)
            return None if t is None else (not t)
        if isinstance(n, ast.Compare) and len(n.ops) == 1:
            a, b = self.ev(n.left, st), self.ev(n.comparators[0], st)
            op = n.ops[0]
            conc = lambda v: v is None or isinstance(v, (bool, int, float, str))
            if isinstance(op, (ast.Is, ast.IsNot)):
                if conc(a) and conc(b):
                    r = (a is b) or (a == b and type(a) is type(b))
                    return r if isinstance(op, ast.Is) else not r
                if (a is None) != (b is None):            # a symbol is an object, never None
                    return isinstance(op, ast.IsNot)
                return None
            if isinstance(op, (ast.In, ast.NotIn)):
                if conc(a) and isinstance(b, (list, tuple, str, dict)) and (not isinstance(b, (list, tuple)) or all(conc(x) for x in b)):
                    try:
                        r = a in b
                    except TypeError:
                        return None
                    return r if isinstance(op, ast.In) else not r
                return None
            if conc(a) and conc(b):
                try:
                    r = {ast.Eq: lambda: a == b, ast.NotEq: lambda: a != b, ast.Lt: lambda: a < b, ast.LtE: lambda: a <= b,
                         ast.Gt: lambda: a > b, ast.GtE: lambda: a >= b}[type(op)]()
                except (TypeError, KeyError):
                    return None
                return r
            if isinstance(op, (ast.Eq, ast.NotEq)):
                if isinstance(a, (Sym, Cat)) and a == b:
                    return isinstance(op, ast.Eq)
                if (a is None) != (b is None):
                    return isinstance(op, ast.NotEq)
            return None
        v = self.ev(n, st)
        if v is None or isinstance(v, (bool, int, float, str, list, tuple, dict)):
            return bool(v)
        if isinstance(v, Cat):
            return True if any(isinstance(x, str) for x in v.parts) else None
        return None

    def call(self, n, st):
        fn = n.func
        args = [self.ev(a, st) for a in n.args]
        kwargs = {k.arg: self.ev(k.value, st) for k in n.keywords if k.arg}
        if isinstance(fn, ast.Name):
            name = fn.id
            a0 = args[0] if args else None
            if name == 'str' and len(args) == 1:
                if isinstance(a0, (str, Cat)):
                    return a0
                if isinstance(a0, (int, float)) and not isinstance(a0, bool):
                    return str(a0)
                return Sym('str(%s)' % text(a0))
            if name == 'len' and len(args) == 1 and isinstance(a0, (list, tuple, str, dict)):
                return len(a0)
            if name == 'range' and all(isinstance(a, int) for a in args) and args:
                return list(range(*args))
            if name == 'enumerate' and len(args) == 1 and isinstance(a0, (list, tuple)):
                return [(i, x) for i, x in enumerate(a0)]
            if name in ('list', 'tuple') and len(args) == 1 and isinstance(a0, (list, tuple)):
                return list(a0) if name == 'list' else tuple(a0)
            if name in ('int', 'float') and len(args) == 1 and isinstance(a0, (int, float)):
                return int(a0) if name == 'int' else float(a0)
            if name == 'isinstance' and len(args) == 2:
                if a0 is None or isinstance(a0, (bool, int, float, str, list, tuple, dict)):
                    tn = text(args[1])
                    known = {'str': str, 'int': int, 'float': float, 'list': list, 'tuple': tuple, 'dict': dict, 'bool': bool}
                    if tn in known:
                        return isinstance(a0, known[tn])
                    return False
                if isinstance(a0, Cat):
                    return text(args[1]) == 'str'
            v = self._inline(name, args, kwargs, st)
            if v is not _NO:
                return v
            tx = '%s(%s)' % (name, self._argtext(args, kwargs))
            st.events.append(('call', name, None, args, kwargs, n))
            return Sym(tx)
        if isinstance(fn, ast.Attribute):
            recv = self.ev(fn.value, st)
            m = fn.attr
            if isinstance(recv, list):
                if m == 'append' and len(args) == 1:
                    recv.append(args[0])
                    return None
                if m == 'extend' and len(args) == 1 and isinstance(args[0], (list, tuple)):
                    recv.extend(args[0])
                    return None
                if m == 'insert' and len(args) == 2 and isinstance(args[0], int):
                    recv.insert(args[0], args[1])
                    return None
                if m == 'sort':
                    key = n.keywords[0].value if n.keywords and n.keywords[0].arg == 'key' else None
                    ks = []
                    for x in recv:
                        k = x
                        if key is not None:
                            kn = ast.unparse(key).split('.')[-1]
                            k = self._inline(kn, [x], {}, st)
                            if k is _NO and isinstance(key, ast.Lambda):
                                sub = _St(dict(st.env), st.conds, st.events)
                                sub.env[key.args.args[0].arg] = x
                                k = self.ev(key.body, sub)
                        ks.append(k)
                    if all(isinstance(k, (int, float, str)) and not isinstance(k, bool) for k in ks) and len({type(k) is str for k in ks}) <= 1:
                        order = sorted(range(len(recv)), key=lambda i: ks[i])
                        recv[:] = [recv[i] for i in order]
                        return None
                    raise Unsupported('sort of a list whose keys are not concrete')
            if isinstance(recv, str) and not args and m in ('strip', 'upper', 'lower', 'rstrip', 'lstrip'):
                return getattr(recv, m)()
            if isinstance(recv, str) and m == 'join' and len(args) == 1 and isinstance(args[0], (list, tuple)):
                out = []
                for i, x in enumerate(args[0]):
                    if i:
                        out.append(recv)
                    out.append(x if isinstance(x, (str, Cat, Sym)) else Sym(text(x)))
                return Cat(out)
            if isinstance(recv, Sym) and m == 'join' and len(args) == 1 and isinstance(args[0], (list, tuple)):
                out = []
                for i, x in enumerate(args[0]):
                    if i:
                        out.append(recv)
                    out.append(x if isinstance(x, (str, Cat, Sym)) else Sym(text(x)))
                return Cat(out)
            owner = ast.unparse(fn.value)
            v = self._inline(m, args, kwargs, st, owner=owner)
            if v is not _NO:
                return v
            tx = '%s.%s(%s)' % (text(recv), m, self._argtext(args, kwargs))
            st.events.append(('call', m, recv, args, kwargs, n))
            return Sym(tx)
        raise Unsupported('call of %s' % type(fn).__name__)

    def _argtext(self, args, kwargs):
        return ', '.join([text(a) for a in args] + ['%s=%s' % (k, text(v)) for k, v in sorted(kwargs.items())])

    def _inline(self, name, args, kwargs, st, owner=None):
        fi = self.resolve(name) if owner is None else self.resolve((owner, name))
        if fi is None or self.depth >= self.max_depth:
            return _NO
        params = [a.arg for a in fi.node.args.args]
        if fi.cls is not None and params and params[0] == 'self':
            params = params[1:]
        env = {}
        defaults = fi.node.args.defaults
        for i, d in enumerate(defaults):
            try:
                env[params[len(params) - len(defaults) + i]] = self.ev(d, _St({}))
            except Exception:
                pass
        for p_, a in zip(params, args):
            env[p_] = a
        env.update(kwargs)
        body = fi.node.body
        if body and isinstance(body[0], ast.Expr) and isinstance(body[0].value, ast.Constant) and isinstance(body[0].value.value, str):
            body = body[1:]
        self.depth += 1
        try:
            sub = _St(env, list(st.conds), st.events)
            outs = [p for p in self._block(body, sub)]
        finally:
            self.depth -= 1
        rets = [p for p in outs if p.kind in ('return', 'fall')]
        if len(rets) != 1:
            return _NO
        st.conds[:] = rets[0].conds
        return rets[0].value

    # ---- statements --------------------------------------------------------------------------------------
    def bind(self, t, v, st):
        if isinstance(t, ast.Name):
            st.env[t.id] = v
        elif isinstance(t, (ast.Tuple, ast.List)):
            if isinstance(v, (list, tuple)) and len(v) == len(t.elts):
                for tt, vv in zip(t.elts, v):
                    self.bind(tt, vv, st)
            else:
                for i, tt in enumerate(t.elts):
                    self.bind(tt, Sym('%s[%d]' % (text(v), i)), st)
        elif isinstance(t, ast.Attribute):
            key = self._key(t, st)
            if key is None:
                raise Unsupported('attribute store %s' % ast.unparse(t))
            st.env[key] = v
            st.events.append(('store', key, None, [v], {}, t))
        elif isinstance(t, ast.Subscript):
            base = self.ev(t.value, st)
            idx = self.ev(t.slice, st)
            if isinstance(base, list) and isinstance(idx, int) and -len(base) <= idx < len(base):
                base[idx] = v
            elif isinstance(base, dict):
                base[idx] = v
            else:
                st.events.append(('store', text(base), idx, [v], {}, t))
        else:
            raise Unsupported('target %s' % type(t).__name__)

    def run(self, stmts, env=None):
        self.npaths = 0
        st = _St(dict(env or {}))
        return list(self._block(list(stmts), st))

    def _block(self, stmts, st):
        if not stmts:
            self.npaths += 1
            if self.npaths > MAX_PATHS:
                raise Unsupported('too many paths')
            yield Path('fall', st.env, None, st.conds, st.events)
            return
        first, rest = stmts[0], stmts[1:]
        for p in self._stmt(first, st):
            if p.kind == 'fall':
                yield from self._block(rest, _St(p.env, p.conds, p.events))
            else:
                yield p

    def _stmt(self, s, st):
        if isinstance(s, ast.Assign):
            v = self.ev(s.value, st)
            for t in s.targets:
                self.bind(t, v, st)
            yield Path('fall', st.env, None, st.conds, st.events)
        elif isinstance(s, ast.AugAssign):
            cur = ast.BinOp(left=_load(s.target), op=s.op, right=s.value)
            ast.copy_location(cur, s)
            ast.fix_missing_locations(cur)
            self.bind(s.target, self.ev(cur, st), st)
            yield Path('fall', st.env, None, st.conds, st.events)
        elif isinstance(s, ast.Expr):
            if not isinstance(s.value, ast.Constant):
                self.ev(s.value, st)
            yield Path('fall', st.env, None, st.conds, st.events)
        elif isinstance(s, ast.Return):
            v = self.ev(s.value, st) if s.value is not None else None
            yield Path('return', st.env, v, st.conds, st.events, s)
        elif isinstance(s, ast.Raise):
            yield Path('raise', st.env, None, st.conds, st.events, s)
        elif isinstance(s, (ast.Break, ast.Continue)):
            yield Path('break' if isinstance(s, ast.Break) else 'continue', st.env, None, st.conds, st.events, s)
        elif isinstance(s, (ast.Pass, ast.Import, ast.ImportFrom, ast.Global, ast.Nonlocal, ast.FunctionDef, ast.Assert, ast.Delete)):
            yield Path('fall', st.env, None, st.conds, st.events)
        elif isinstance(s, ast.If):
            t = self.truth(s.test, st)
            if t is None:
                tx = self.ctext(s.test, st)
                t = self.decide(tx)
                if t is None:
                    a = st.fork()
                    a.conds.append((tx, True))
                    yield from self._block(s.body, a)
                    st.conds.append((tx, False))
                    yield from self._block(s.orelse, st)
                    return
            yield from self._block(s.body if t else s.orelse, st)
        elif isinstance(s, ast.For):
            it = self.ev(s.iter, st)
            if isinstance(it, (list, tuple)):
                states = [st]
                for x in list(it):
                    nxt = []
                    for cur in states:
                        self.bind(s.target, x, cur)
                        for p in self._block(s.body, cur):
                            if p.kind in ('fall', 'continue'):
                                nxt.append(_St(p.env, p.conds, p.events))
                            elif p.kind == 'break':
                                raise Unsupported('break in a concrete loop')
                            else:
                                yield p
                    states = nxt
                for cur in states:
                    yield Path('fall', cur.env, None, cur.conds, cur.events)
                return
            # symbolic iteration: the body is walked once; text variables that grow get a repeated block
            before = {k: v for k, v in st.env.items() if isinstance(v, (str, Cat))}
            self.bind(s.target, Sym(ast.unparse(s.target)) if isinstance(s.target, ast.Name) else Sym(ast.unparse(s.target)), st)
            if isinstance(s.target, ast.Tuple):
                for tt in s.target.elts:
                    self.bind(tt, Sym(ast.unparse(tt)), st)
            marks = {}
            for k in before:
                marks[k] = Sym('<%s so far>' % k)
                st.env[k] = Cat([marks[k]])
            ev0 = len(st.events)
            outs = [p for p in self._block(s.body, st)]
            for p in outs:
                if p.kind not in ('fall', 'continue'):
                    yield p
                    continue
                for k, old in before.items():
                    new = p.env.get(k)
                    if isinstance(new, Cat) and new.parts and new.parts[0] == marks[k]:
                        delta = new.parts[1:]
                        p.env[k] = Cat([old, Loop(text(it), delta)]) if delta else old
                    elif new == Cat([marks[k]]):
                        p.env[k] = old
                    else:
                        p.env[k] = Sym('<%s after the loop over %s>' % (k, text(it)))
                p.events[ev0:] = [('loop', text(it), None, [e for e in p.events[ev0:]], {}, s)]
                yield Path('fall', p.env, None, p.conds, p.events)
        elif isinstance(s, ast.While):
            raise Unsupported('while loop')
        elif isinstance(s, ast.With):
            for item in s.items:
                v = self.ev(item.context_expr, st)
                if item.optional_vars is not None:
                    self.bind(item.optional_vars, v, st)
            yield from self._block(s.body, st)
        elif isinstance(s, ast.Try):
            yield from self._block(s.body + s.orelse + s.finalbody, st)
        else:
            raise Unsupported('statement %s' % type(s).__name__)


_NO = object()


def _load(t):
    t2 = copy.deepcopy(t)
    for n in ast.walk(t2):
        if hasattr(n, 'ctx'):
            n.ctx = ast.Load()
    return t2


def guard(fn, f):
    """run fn(); an Unsupported construct becomes a shape error located in function f"""
    try:
        return fn()
    except Unsupported as e:
        raise shape_error('%s: text-building code not interpretable: %s' % (f.qual, e), f.loc())
