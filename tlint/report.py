"""Obligations, verdict lines, replay files and the evidence JSON."""
import ast
import hashlib
import json
import os
import time

from .loader import AnalysisError

VERIF = os.path.dirname(os.path.dirname(os.path.abspath(__file__)))
KNOWN_FILE = os.path.join(VERIF, 'known_findings.json')


def construct_key(node_or_text):
    """Position-free, whitespace-free key of a construct."""
    if isinstance(node_or_text, ast.AST):
        try:
            txt = ast.unparse(node_or_text)
        except Exception:
            txt = ast.dump(node_or_text)
    else:
        txt = str(node_or_text)
    return ' '.join(txt.split())


class Obligation:
    __slots__ = ('rule', 'func', 'loc', 'desc', 'ok', 'witness', 'key', 'known')

    def __init__(self, rule, func, loc, desc, ok, witness=None, key=None):
        self.rule = rule
        self.func = func
        self.loc = loc
        self.desc = desc
        self.ok = ok
        self.witness = witness
        self.key = key
        self.known = None

    def as_dict(self):
        d = {'rule': self.rule, 'function': self.func, 'at': self.loc,
             'obligation': self.desc, 'verdict': 'discharged' if self.ok else
             ('known-finding' if self.known else 'VIOLATED')}
        if self.witness is not None:
            d['witness'] = self.witness
        return d


class Ctx:
    """Per-run context handed to every rule."""

    def __init__(self, prog, pid, tier, seed=0):
        self.prog = prog
        self.pid = pid
        self.tier = tier
        self.seed = seed
        self.obligations = []
        self.info = []            # informational notes (never change the exit code)
        self.rules_run = []
        self.errors = []          # AnalysisError list
        self.analysed_functions = set()
        self.t0 = time.time()
        self.known = self._load_known()
        self.extra = {}

    # -- known findings ------------------------------------------------
    def _load_known(self):
        if not os.path.exists(KNOWN_FILE):
            return []
        with open(KNOWN_FILE) as fh:
            data = json.load(fh)
        return [e for e in data.get('findings', []) if e.get('property') == self.pid]

    # -- recording -----------------------------------------------------
    def touch(self, func):
        if func is not None:
            self.analysed_functions.add(func.qual if hasattr(func, 'qual') else str(func))

    def _loc(self, func, node):
        if func is not None and hasattr(func, 'loc'):
            return func.loc(node)
        return '?'

    def ok(self, rule, func, desc, node=None, detail=None):
        self.touch(func)
        o = Obligation(rule, getattr(func, 'qual', str(func)), self._loc(func, node), desc, True,
                       witness=detail)
        self.obligations.append(o)
        return o

    def violation(self, rule, func, desc, witness, node=None, key=None):
        """`witness` = the concrete thing that is wrong (see DESIGN section 1)."""
        self.touch(func)
        k = key if key is not None else (construct_key(node) if node is not None else desc)
        o = Obligation(rule, getattr(func, 'qual', str(func)), self._loc(func, node), desc, False,
                       witness=witness, key=construct_key(k))
        for e in self.known:
            if e.get('status', 'open') != 'open':
                continue
            if e.get('rule') == rule and e.get('function') == o.func and \
                    construct_key(e.get('construct', '')) == o.key:
                o.known = e
        self.obligations.append(o)
        return o

    def check(self, cond, rule, func, desc, witness=None, node=None, key=None):
        if cond:
            return self.ok(rule, func, desc, node)
        return self.violation(rule, func, desc, witness if witness is not None else desc, node, key)

    def recognise(self, cond, rule, func, desc, node=None, witness=None, key=None):
        """a structural fact established by recognising a construct: if the construct is not recognised the
        checker says so (ANALYSIS-ERROR, exit 2) - it has no witness, so it never claims a violation"""
        if cond:
            return self.ok(rule, func, desc, node)
        e = AnalysisError('shape', '%s: construct not recognised: %s' % (getattr(func, 'qual', func), desc),
                          self._loc(func, node))
        e.rule = rule
        self.errors.append(e)
        return None

    def note(self, rule, text):
        self.info.append({'rule': rule, 'note': text})

    # -- running rules ---------------------------------------------------
    def run_rule(self, rule_id, fn, advisory=False):
        """advisory rules give a sharper (symbolic) witness for one shape of the anchor; when the anchor has another shape they
        stand down (noted in the evidence) because a shape-independent rule of the same property decides the clause"""
        before = len(self.obligations)
        nerr = len(self.errors)
        try:
            fn(self)
        except _StoodDown:
            return
        except AnalysisError as e:
            e.rule = rule_id
            self.errors.append(e)
        except RecursionError as e:
            err = AnalysisError('internal', 'recursion limit in rule %s' % rule_id)
            err.rule = rule_id
            self.errors.append(err)
        except Exception as e:      # a checker bug must never look like a violation
            import traceback
            tb = traceback.format_exc(limit=6)
            err = AnalysisError('internal', '%s: %s\n%s' % (type(e).__name__, e, tb))
            err.rule = rule_id
            self.errors.append(err)
        if advisory:
            stood_down = [e for e in self.errors[nerr:] if e.kind in ('shape', 'anchor')]
            if stood_down:
                self.errors[nerr:] = [e for e in self.errors[nerr:] if e.kind not in ('shape', 'anchor')]
                self.note(rule_id, 'advisory rule stood down (shape not the one it knows): ' + '; '.join(e.msg for e in stood_down)[:400])
                self.rules_run.append((rule_id, len(self.obligations) - before))
                return
        n = len(self.obligations) - before
        self.rules_run.append((rule_id, n))
        if n == 0 and not any(getattr(e, 'rule', None) == rule_id for e in self.errors):
            err = AnalysisError('census', 'rule %s matched no construct (vacuous)' % rule_id)
            err.rule = rule_id
            self.errors.append(err)

    # -- output ----------------------------------------------------------
    def finish(self, explanation, assumptions, technique, floors=None):
        """Print verdict lines, write evidence and replay files; return exit code."""
        wall = time.time() - self.t0
        census = self.prog.census()
        viol = [o for o in self.obligations if not o.ok and not o.known]
        known = [o for o in self.obligations if not o.ok and o.known]
        good = [o for o in self.obligations if o.ok]
        ev_dir = os.environ.get('TLINT_EVIDENCE_DIR') or os.path.join(VERIF, 'evidence')
        rp_dir = os.path.join(ev_dir, 'replay')
        os.makedirs(rp_dir, exist_ok=True)

        print('tlint %s tier=%s: %d files, %d classes, %d functions parsed; %d rules, %d obligations'
              % (self.pid, self.tier, census['files'], census['classes'], census['functions'],
                 len(self.rules_run), len(self.obligations)))
        for rid, n in self.rules_run:
            print('  rule %-8s instances=%d' % (rid, n))
        for o in known:
            print('KNOWN-FINDING: property=%s rule=%s %s: %s' %
                  (self.pid, o.rule, o.func, o.known.get('what_fails', o.desc)))
        lines = []
        for i, o in enumerate(viol):
            path = os.path.join(rp_dir, '%s-%s-%d.json' % (self.pid, o.rule.replace('.', '_'), i))
            with open(path, 'w') as fh:
                json.dump({'property': self.pid, 'rule': o.rule, 'function': o.func,
                           'at': o.loc, 'obligation': o.desc, 'witness': o.witness,
                           'construct': o.key}, fh, indent=1, default=str)
            print('%s: %s: %s: %s' % (o.loc, o.rule, o.func, o.desc))
            print('    witness: %s' % (json.dumps(o.witness, default=str)[:600]))
            lines.append('VIOLATION property=%s replay=%s' % (self.pid, path))
        for e in self.errors:
            print('ANALYSIS-ERROR property=%s rule=%s kind=%s %s%s' %
                  (self.pid, getattr(e, 'rule', '?'), e.kind, e.msg,
                   (' anchor=%s' % e.where) if e.where else ''))
        for l in lines:
            print(l)

        distinct = len({(o.rule, o.func, o.desc) for o in self.obligations})
        samples = [o.as_dict() for o in self.obligations]
        evidence = {
            'property_id': self.pid,
            'tier': self.tier,
            'seed': int(self.seed),
            'level': 'other',
            'coverage': {
                'explanation': explanation,
                'technique': technique,
                'obligations': len(self.obligations),
                'discharged': len(good),
                'evaluations': len(self.obligations),
                'distinct_nontrivial': distinct,
                'rule': 'one obligation per (rule, construct) located by role in the current source of /repo; '
                        'non-trivial = the rule examined at least one concrete AST construct; distinct = '
                        'distinct (rule, function, obligation text)',
                'samples': samples,
                'exhaustive': True,
                'rules': [{'rule': r, 'instances': n} for r, n in self.rules_run],
                'census': census,
                'functions_analysed': sorted(self.analysed_functions),
                'known_findings': [o.as_dict() for o in known],
                'informational': self.info,
                'analysis_errors': [{'rule': getattr(e, 'rule', '?'), 'kind': e.kind, 'msg': e.msg}
                                    for e in self.errors],
                'trusted_base': ['CPython ast parser', 'the tlint engine (/verif/tlint)',
                                 'the specification tables inside the rule modules'],
                'checker_cmd': './check %s --tier %s' % (self.pid, self.tier),
            },
            'assumptions': assumptions,
            'wall_s': round(wall, 3),
            'violations': len(viol),
        }
        evidence['coverage'].update(self.extra)
        with open(os.path.join(ev_dir, '%s.json' % self.pid), 'w') as fh:
            json.dump(evidence, fh, indent=1, default=str)
        if viol:
            return 1
        if self.errors:
            return 2
        return 0


class Proxy:
    """run rules written for another property under rule ids of this one: `mapping` {their rule id: our rule id};
    obligations of unmapped rules are dropped"""

    def __init__(self, ctx, mapping):
        self._ctx = ctx
        self._mapping = mapping

    def __getattr__(self, k):
        return getattr(self._ctx, k)

    def ok(self, rule, *a, **kw):
        if rule in self._mapping:
            return self._ctx.ok(self._mapping[rule], *a, **kw)

    def violation(self, rule, *a, **kw):
        if rule in self._mapping:
            return self._ctx.violation(self._mapping[rule], *a, **kw)

    def check(self, cond, rule, func, desc, witness=None, node=None, key=None):
        if rule in self._mapping:
            return self._ctx.check(cond, self._mapping[rule], func, desc, witness=witness, node=node, key=key)

    def recognise(self, cond, rule, func, desc, node=None, witness=None, key=None):
        if rule in self._mapping:
            return self._ctx.recognise(cond, self._mapping[rule], func, desc, node=node, witness=witness, key=key)


class Capture:
    """buffers the obligations a rule reports, so that the verdict of a shape-dependent rule can be weighed against the
    shape-independent rule that decides the same clause"""

    def __init__(self, ctx):
        self._ctx = ctx
        self.buf = []

    def __getattr__(self, k):
        return getattr(self._ctx, k)

    def ok(self, rule, func, desc, node=None, detail=None):
        self.buf.append(('ok', (rule, func, desc), {'node': node, 'detail': detail}))

    def violation(self, rule, func, desc, witness, node=None, key=None):
        self.buf.append(('violation', (rule, func, desc, witness), {'node': node, 'key': key}))

    def check(self, cond, rule, func, desc, witness=None, node=None, key=None):
        if cond:
            return self.ok(rule, func, desc, node)
        return self.violation(rule, func, desc, witness if witness is not None else desc, node, key)

    def recognise(self, cond, rule, func, desc, node=None, witness=None, key=None):
        if cond:
            return self.ok(rule, func, desc, node)
        raise AnalysisError('shape', '%s: construct not recognised: %s' % (getattr(func, 'qual', func), desc))


def weighed(rule_id, sym, deciders):
    """`sym` reads the anchor in the shapes it knows (and, when it can, establishes the clause for all inputs or pins the construct
    at fault); `deciders` are rules of the same property, run BEFORE it, that decide the same clause by interpreting the code whatever
    its shape.  When sym cannot establish the clause (a mismatch with what it expects to read, or a shape it does not follow) and the
    deciders found nothing wrong, that is a limit of sym's reader - noted in the evidence - not a violation.  When a decider did find a
    violation (or could not run), sym's findings are reported as they are."""
    def rule(ctx):
        cap = Capture(ctx)
        err = None
        try:
            sym(cap)
        except AnalysisError as e:
            if e.kind not in ('shape', 'anchor'):
                raise
            err = e
        bad = [b for b in cap.buf if b[0] == 'violation']
        ran = {rid for rid, _ in ctx.rules_run}
        decided = all(d in ran for d in deciders) and not any(getattr(e, 'rule', None) in deciders for e in ctx.errors)
        clean = decided and not any((not o.ok) and o.rule in deciders for o in ctx.obligations)
        dropped = []
        for kind, a, kw in cap.buf:
            if kind == 'ok':
                ctx.ok(*a, **kw)
            else:
                o = ctx.violation(*a, **kw)
                if clean and not getattr(o, 'known', None):      # (a recorded finding is reported wherever it is seen)
                    ctx.obligations.remove(o)
                    dropped.append((kind, a, kw))
        bad = dropped
        if (bad or err is not None) and clean:
            why = err.msg if err is not None else '; '.join(sorted({b[1][2] for b in bad}))[:300]
            ctx.note(rule_id, 'the anchor is not in a shape this rule reads (%s): it stands down; the clause is decided by %s' % (why, ', '.join(deciders)))
            if not any(b[0] == 'ok' for b in cap.buf):
                f0 = bad[0][1][1] if bad else None
                if f0 is not None:
                    ctx.ok(rule_id, f0, 'shape not read by this rule: clause decided by %s' % ', '.join(deciders))
                else:
                    ctx.rules_run.append((rule_id, 0))
                    raise _StoodDown()
        elif err is not None:
            raise err
    rule.__doc__ = sym.__doc__
    return rule


class _StoodDown(Exception):
    pass
