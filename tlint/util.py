"""Small AST helpers shared by the rules."""
import ast

from .loader import shape_error, anchor_error


def unparse(n):
    try:
        return ast.unparse(n)
    except Exception:
        return ast.dump(n)


def body_nodocstring(func):
    b = func.node.body
    out = []
    for s in b:
        if isinstance(s, ast.Expr) and isinstance(s.value, ast.Constant) and isinstance(s.value.value, str):
            continue
        out.append(s)
    return out


def loops_in(node, top_only=False):
    out = []
    if top_only:
        for s in node:
            if isinstance(s, (ast.For, ast.While)):
                out.append(s)
        return out
    for n in ast.walk(node):
        if isinstance(n, (ast.For, ast.While)):
            out.append(n)
    return out


def names_stored(nodes):
    s = set()
    for node in nodes:
        for n in ast.walk(node):
            if isinstance(n, ast.Name) and isinstance(n.ctx, ast.Store):
                s.add(n.id)
    return s


def names_loaded(node):
    return {n.id for n in ast.walk(node) if isinstance(n, ast.Name) and isinstance(n.ctx, ast.Load)}


def attr_stores(nodes, attr=None):
    out = []
    for node in nodes:
        for n in ast.walk(node):
            if isinstance(n, ast.Attribute) and isinstance(n.ctx, ast.Store) and (attr is None or n.attr == attr):
                out.append(n)
    return out


def calls_in(node, name=None):
    out = []
    for n in ast.walk(node):
        if isinstance(n, ast.Call):
            f = n.func
            fname = f.id if isinstance(f, ast.Name) else (f.attr if isinstance(f, ast.Attribute) else None)
            if name is None or fname == name:
                out.append(n)
    return out


def callee_name(call):
    f = call.func
    return f.id if isinstance(f, ast.Name) else (f.attr if isinstance(f, ast.Attribute) else None)


def const_list(node):
    """literal list/tuple of constants -> python list, else None"""
    if isinstance(node, (ast.List, ast.Tuple)) and all(isinstance(e, ast.Constant) for e in node.elts):
        return [e.value for e in node.elts]
    return None


def parent_map(root):
    pm = {}
    for n in ast.walk(root):
        for c in ast.iter_child_nodes(n):
            pm[c] = n
    return pm


def enclosing(pm, node, kinds):
    n = pm.get(node)
    while n is not None and not isinstance(n, kinds):
        n = pm.get(n)
    return n


def stmt_of(pm, node):
    n = node
    while n is not None and not isinstance(n, ast.stmt):
        n = pm.get(n)
    return n


def contains(node, sub):
    return any(x is sub for x in ast.walk(node))


def subst_names(expr, mapping):
    """copy of `expr` with Name loads replaced by the expressions of `mapping` (name -> ast expr), repeatedly"""
    import copy

    class T(ast.NodeTransformer):
        def visit_Name(self, n):
            if isinstance(n.ctx, ast.Load) and n.id in mapping:
                return self.visit(copy.deepcopy(mapping[n.id]))
            return n
    return T().visit(copy.deepcopy(expr))


def single_assignments(stmts):
    """name -> value expr for the names assigned exactly once, by a plain `name = expr`, in the statement list (not nested)"""
    cnt = {}
    val = {}
    for s in stmts:
        for n in ast.walk(s):
            if isinstance(n, ast.Name) and isinstance(n.ctx, ast.Store):
                cnt[n.id] = cnt.get(n.id, 0) + 1
        if isinstance(s, ast.Assign) and len(s.targets) == 1 and isinstance(s.targets[0], ast.Name):
            val[s.targets[0].id] = s.value
    return {k: v for k, v in val.items() if cnt.get(k) == 1}


def add_terms(expr):
    """terms of a left-associated chain of + (sequence concatenation keeps the order)"""
    if isinstance(expr, ast.BinOp) and isinstance(expr.op, ast.Add):
        return add_terms(expr.left) + add_terms(expr.right)
    return [expr]
