"""A small model of numpy arrays for the AST interpreter of tlint.orders (1-D / 2-D, view semantics, dtype families).

Only what the repository's dynamic programmes use: allocation (zeros/ones/full/empty/array/asarray/copy/triu/transpose),
integer and slice indexing (a slice gives a *view* sharing storage, as numpy does), element and slice stores, shape, T,
element-wise + - * and unary minus, maximum/minimum, argmin/argmax on 1-D.  A store into an integer-typed array wraps to
the width of that type, a store into a boolean array saturates - this is how a table that inherits the caller's dtype is seen.
"""
from . import orders

_INT_BITS = {'int8': (8, True), 'uint8': (8, False), 'int16': (16, True), 'uint16': (16, False),
             'int32': (32, True), 'int64': (64, True)}


def _norm_dtype(d):
    if d is None:
        return None
    if isinstance(d, type):
        return {'float': 'float', 'int': 'int64', 'bool': 'bool'}.get(d.__name__, 'float')
    s = str(d).split('.')[-1]
    if s in ('float32', 'single', 'float16', 'half'):
        return 'float32'
    if s in ('float', 'float64', 'double', 'float_'):
        return 'float'
    if s in ('int', 'int_', 'intp'):
        return 'int64'
    if s in _INT_BITS or s == 'bool':
        return s
    if s.startswith('complex'):
        return 'complex'
    if s == 'object':
        return 'object'
    return 'float'


def _coerce(v, dtype):
    if dtype in ('complex', 'object'):
        return v
    if dtype == 'float32':
        # a store into a single-precision table rounds to 24 bits (and overflows to inf beyond 3.4e38)
        return _f32(v) if isinstance(v, (int, float)) and not isinstance(v, complex) else v
    if dtype == 'float' or dtype is None:
        return float(v) if isinstance(v, (int, bool)) else v
    if dtype == 'bool':
        return bool(v)
    bits, signed = _INT_BITS[dtype]
    if isinstance(v, float):
        if v != v or v in (float('inf'), float('-inf')):
            raise ValueError('cannot convert float NaN/inf to integer')
        v = int(v)
    v = int(v) % (1 << bits)     # (NpInt is an int)
    if signed and v >= 1 << (bits - 1):
        v -= 1 << bits
    return v


class NpInt(int):
    """element read from an integer-typed array: arithmetic with another such element (or a plain int) stays in that type and wraps"""

    def __new__(cls, v, dtype):
        o = int.__new__(cls, v)
        o.dtype = dtype
        return o

    def _w(self, other, op):
        if isinstance(other, float):
            return NpF64(op(int(self), float(other)))      # numpy: integer scalar (op) float gives a float64 scalar
        if isinstance(other, NpInt) and other.dtype != self.dtype:
            return op(int(self), int(other))
        return NpInt(_coerce(op(int(self), int(other)), self.dtype), self.dtype)

    def __add__(self, o):
        return self._w(o, lambda a, b: a + b)

    __radd__ = __add__

    def __sub__(self, o):
        return self._w(o, lambda a, b: a - b)

    def __rsub__(self, o):
        return self._w(o, lambda a, b: b - a)

    def __mul__(self, o):
        return self._w(o, lambda a, b: a * b)

    __rmul__ = __mul__

    def __neg__(self):
        return NpInt(_coerce(-int(self), self.dtype), self.dtype)

    def __truediv__(self, o):
        return NpF64(_np_div(int(self), o)) if isinstance(o, (int, float)) else NotImplemented

    def __rtruediv__(self, o):
        return NpF64(_np_div(o, int(self))) if isinstance(o, (int, float)) else NotImplemented

    def __repr__(self):
        return 'np.%s(%d)' % (self.dtype, int(self))

    def __str__(self):
        return str(int(self))


def _f32(v):
    import struct
    v = float(v)
    if v != v or v in (float('inf'), float('-inf')):
        return v
    try:
        return struct.unpack('f', struct.pack('f', v))[0]
    except OverflowError:
        return float('inf') if v > 0 else float('-inf')


def _np_div(a, b):
    """numpy scalar division: x/0 is +-inf, 0/0 is nan (a RuntimeWarning, not ZeroDivisionError)"""
    a, b = float(a), float(b)
    if b == 0:
        if a != a or a == 0:
            return float('nan')
        neg = (a < 0) != (str(b)[0] == '-')
        return float('-inf') if neg else float('inf')
    return a / b


def _num(o):
    return isinstance(o, (int, float, NpF32)) and not isinstance(o, NpBool)


class NpF64(float):
    """numpy.float64 scalar: a float subclass; arithmetic stays numpy (division by zero gives inf/nan), repr is numpy 2's"""
    dtype = 'float64'
    isa = ('float64', 'floating', 'number', 'generic', 'double')

    def _r(self, o, op):
        if not _num(o):
            return NotImplemented
        return NpF64(op(float(self), float(o)))

    def __add__(self, o): return self._r(o, lambda a, b: a + b)
    __radd__ = __add__
    def __sub__(self, o): return self._r(o, lambda a, b: a - b)
    def __rsub__(self, o): return self._r(o, lambda a, b: b - a)
    def __mul__(self, o): return self._r(o, lambda a, b: a * b)
    __rmul__ = __mul__
    def __truediv__(self, o): return self._r(o, _np_div)
    def __rtruediv__(self, o): return self._r(o, lambda a, b: _np_div(b, a))
    def __neg__(self): return NpF64(-float(self))
    def __abs__(self): return NpF64(abs(float(self)))
    def __pow__(self, o): return self._r(o, lambda a, b: a ** b)
    def __repr__(self): return 'np.float64(%r)' % float(self)
    def __str__(self): return float.__repr__(self)
    __hash__ = float.__hash__


class NpF32:
    """numpy.float32 scalar: NOT a float subclass; value rounded to single precision; arithmetic with Python numbers stays float32"""
    dtype = 'float32'
    isa = ('float32', 'floating', 'number', 'generic')

    def __init__(self, v):
        self.v = _f32(v)

    def _r(self, o, op):
        if isinstance(o, NpF64):
            return NpF64(op(self.v, float(o)))
        if not _num(o):
            return NotImplemented
        return NpF32(op(self.v, float(o)))

    def __float__(self): return self.v
    def __int__(self): return int(self.v)
    def __bool__(self): return bool(self.v)
    def __add__(self, o): return self._r(o, lambda a, b: a + b)
    __radd__ = __add__
    def __sub__(self, o): return self._r(o, lambda a, b: a - b)
    def __rsub__(self, o): return self._r(o, lambda a, b: b - a)
    def __mul__(self, o): return self._r(o, lambda a, b: a * b)
    __rmul__ = __mul__
    def __truediv__(self, o): return self._r(o, _np_div)
    def __rtruediv__(self, o): return self._r(o, lambda a, b: _np_div(b, a))
    def __pow__(self, o): return self._r(o, lambda a, b: a ** b)
    def __neg__(self): return NpF32(-self.v)
    def __abs__(self): return NpF32(abs(self.v))
    def _c(self, o, op):
        if not _num(o):
            return NotImplemented
        return NpBool(op(self.v, float(o)))
    def __eq__(self, o): return self._c(o, lambda a, b: a == b)
    def __ne__(self, o):
        r = self._c(o, lambda a, b: a != b)
        return NpBool(True) if r is NotImplemented else r
    def __lt__(self, o): return self._c(o, lambda a, b: a < b)
    def __le__(self, o): return self._c(o, lambda a, b: a <= b)
    def __gt__(self, o): return self._c(o, lambda a, b: a > b)
    def __ge__(self, o): return self._c(o, lambda a, b: a >= b)
    def __hash__(self): return hash(self.v)
    def __repr__(self): return 'np.float32(%r)' % self.v
    def __str__(self): return repr(self.v)
    def __format__(self, spec): return format(self.v, spec)


class NpBool:
    """numpy.bool_ scalar: truthy/falsy, equal to the Python bool, but neither `is True/False` nor an int"""
    dtype = 'bool'
    isa = ('bool_', 'generic')

    def __init__(self, v):
        self.v = bool(v)

    def __bool__(self): return self.v
    def __eq__(self, o): return NpBool(self.v == bool(o)) if isinstance(o, (bool, int, NpBool)) else NotImplemented
    def __ne__(self, o): return NpBool(self.v != bool(o)) if isinstance(o, (bool, int, NpBool)) else NotImplemented
    def __hash__(self): return hash(self.v)
    def __and__(self, o): return NpBool(self.v and bool(o))
    __rand__ = __and__
    def __or__(self, o): return NpBool(self.v or bool(o))
    __ror__ = __or__
    def __invert__(self): return NpBool(not self.v)
    def __int__(self): return int(self.v)
    def __index__(self): return int(self.v)
    def __float__(self): return float(self.v)
    def __add__(self, o): return int(self.v) + o
    __radd__ = __add__
    def __mul__(self, o): return int(self.v) * o
    __rmul__ = __mul__
    def __repr__(self): return 'np.True_' if self.v else 'np.False_'
    __str__ = lambda self: 'True' if self.v else 'False'


def _elem(v, dtype):
    if dtype in _INT_BITS and not isinstance(v, bool):
        return NpInt(v, dtype)
    return v


def Unsupported_(msg):
    return orders.Unsupported(msg)


class Arr(orders.PyStub):
    isa = ('ndarray',)

    def __init__(self, shape, store=None, index=None, dtype='float', fill=0.0):
        self.shape = tuple(shape)
        self.dtype = dtype
        n = 1
        for s in self.shape:
            n *= s
        if store is None:
            store = [_coerce(fill, dtype)] * n
            index = list(range(n))
        self._store = store
        self._index = index          # local flat position (row-major) -> offset in the shared store

    # -- helpers
    @property
    def ndim(self):
        return len(self.shape)

    @property
    def size(self):
        n = 1
        for s in self.shape:
            n *= s
        return n

    @property
    def T(self):
        return self.transpose()

    def _flat(self, key):
        if len(self.shape) == 1:
            if isinstance(key, tuple):
                if len(key) != 1:
                    raise IndexError('too many indices for array')
                key = key[0]
            k = self._norm(key, 0)
            return k
        i, j = key
        return self._norm(i, 0) * self.shape[1] + self._norm(j, 1)

    def _norm(self, k, axis):
        if isinstance(k, float) and k.is_integer() and False:
            k = int(k)
        if isinstance(k, bool) or not isinstance(k, int):
            raise IndexError('array index %r is not an integer' % (k,))
        n = self.shape[axis]
        if not -n <= k < n:
            raise IndexError('index %d is out of bounds for axis %d with size %d' % (k, axis, n))
        return k % n

    def _axis(self, k, axis):
        """list of positions selected on one axis, and whether the axis is kept"""
        n = self.shape[axis]
        if isinstance(k, slice):
            return list(range(n))[k], True
        return [self._norm(k, axis)], False

    def __getitem__(self, key):
        if isinstance(key, Arr) and key.dtype == 'bool':
            if key.shape != self.shape:
                raise IndexError('boolean index did not match indexed array')
            sel = [off for off, m_ in zip(self._index, key.tolist_flat()) if m_]
            return Arr((len(sel),), self._store, sel, self.dtype)
        if len(self.shape) == 1:
            if isinstance(key, tuple) and len(key) == 1:
                key = key[0]
            if isinstance(key, slice):
                pos = list(range(self.shape[0]))[key]
                return Arr((len(pos),), self._store, [self._index[p] for p in pos], self.dtype)
            return _elem(self._store[self._index[self._flat(key)]], self.dtype)
        if not isinstance(key, tuple):
            key = (key, slice(None))
        if len(key) != 2:
            raise IndexError('too many indices for array')
        rows, kr = self._axis(key[0], 0)
        cols, kc = self._axis(key[1], 1)
        if not kr and not kc:
            return _elem(self._store[self._index[rows[0] * self.shape[1] + cols[0]]], self.dtype)
        idx = [self._index[r * self.shape[1] + c] for r in rows for c in cols]
        shape = tuple(n for n, keep in ((len(rows), kr), (len(cols), kc)) if keep)
        return Arr(shape, self._store, idx, self.dtype)

    def __setitem__(self, key, value):
        if isinstance(key, Arr) and key.dtype == 'bool':
            # boolean mask: the elements where the mask is true
            if key.shape != self.shape:
                raise IndexError('boolean index did not match indexed array')
            sel = [off for off, m_ in zip(self._index, key.tolist_flat()) if m_]
            vals = value.tolist_flat() if isinstance(value, Arr) else ([value] * len(sel) if not isinstance(value, (list, tuple)) else list(value))
            if len(vals) != len(sel):
                raise ValueError('NumPy boolean array indexing assignment cannot assign %d input values to the %d output values' % (len(vals), len(sel)))
            for off, v in zip(sel, vals):
                self._store[off] = _coerce(v, self.dtype)
            return
        if isinstance(key, (bool, NpBool)):
            raise Unsupported_('array indexed with a scalar boolean')
        tgt = self[key] if self._is_region(key) else None
        if tgt is None:
            self._store[self._index[self._flat(key)]] = _coerce(value, self.dtype)
            return
        if isinstance(value, Arr):
            if value.size != tgt.size and value.size != 1:
                raise ValueError('could not broadcast input array from shape %r into shape %r' % (value.shape, tgt.shape))
            vals = value.tolist_flat() * (tgt.size if value.size == 1 else 1)
        elif isinstance(value, (list, tuple)):
            vals = _flatten(value)
            if len(vals) != tgt.size:
                raise ValueError('cannot copy sequence with size %d to array with %d elements' % (len(vals), tgt.size))
        else:
            vals = [value] * tgt.size
        for off, v in zip(tgt._index, vals):
            self._store[off] = _coerce(v, self.dtype)

    def _is_region(self, key):
        if isinstance(key, slice):
            return True
        if isinstance(key, tuple):
            return any(isinstance(k, slice) for k in key)
        return len(self.shape) == 2

    def tolist_flat(self):
        return [self._store[o] for o in self._index]

    def tolist(self):
        f = self.tolist_flat()
        if len(self.shape) == 1:
            return f
        return [f[r * self.shape[1]:(r + 1) * self.shape[1]] for r in range(self.shape[0])]

    def __len__(self):
        return self.shape[0]

    def __iter__(self):
        for k in range(self.shape[0]):
            yield self[k]

    def copy(self):
        return Arr(self.shape, list(self.tolist_flat()), list(range(self.size)), self.dtype)

    def astype(self, dtype, copy=True):
        d = _norm_dtype(dtype)
        return Arr(self.shape, [_coerce(v, d) for v in self.tolist_flat()], list(range(self.size)), d)

    def transpose(self):
        if len(self.shape) == 1:
            return self
        r, c = self.shape
        return Arr((c, r), self._store, [self._index[i * c + j] for j in range(c) for i in range(r)], self.dtype)

    def fill(self, v):
        for o in self._index:
            self._store[o] = _coerce(v, self.dtype)

    def _zip(self, other, op):
        if isinstance(other, Arr):
            if other.shape != self.shape:
                raise ValueError('operands could not be broadcast together with shapes %r %r' % (self.shape, other.shape))
            vals = [op(a, b) for a, b in zip(self.tolist_flat(), other.tolist_flat())]
            d = self.dtype if self.dtype == other.dtype else 'float'
        else:
            vals = [op(a, other) for a in self.tolist_flat()]
            d = self.dtype if not isinstance(other, float) else 'float'
        return Arr(self.shape, [_coerce(v, d) for v in vals], list(range(self.size)), d)

    def __add__(self, o):
        return self._zip(o, lambda a, b: a + b)

    __radd__ = __add__

    def __sub__(self, o):
        return self._zip(o, lambda a, b: a - b)

    def __rsub__(self, o):
        return self._zip(o, lambda a, b: b - a)

    def __mul__(self, o):
        return self._zip(o, lambda a, b: a * b)

    __rmul__ = __mul__

    def __truediv__(self, o):
        r = self._zip(o, lambda a, b: a / b)
        return r

    def __neg__(self):
        return self._zip(-1, lambda a, b: a * b)

    def same(self, o):
        """structural equality (for the checker's own use)"""
        return isinstance(o, Arr) and o.shape == self.shape and o.tolist_flat() == self.tolist_flat()

    def _cmp(self, o, op):
        if isinstance(o, Arr):
            if o.shape != self.shape:
                raise ValueError('operands could not be broadcast together with shapes %r %r' % (self.shape, o.shape))
            vals = [bool(op(a, b)) for a, b in zip(self.tolist_flat(), o.tolist_flat())]
        elif isinstance(o, (int, float, complex, NpF32, NpBool)):
            vals = [bool(op(a, o)) for a in self.tolist_flat()]
        else:
            return NotImplemented
        return Arr(self.shape, vals, list(range(self.size)), 'bool')

    # comparisons are element-wise, as in numpy (a mask usable as an index)
    def __eq__(self, o):
        r = self._cmp(o, lambda a, b: a == b)
        return False if r is NotImplemented else r

    def __ne__(self, o):
        r = self._cmp(o, lambda a, b: a != b)
        return True if r is NotImplemented else r

    def __lt__(self, o): return self._cmp(o, lambda a, b: a < b)
    def __le__(self, o): return self._cmp(o, lambda a, b: a <= b)
    def __gt__(self, o): return self._cmp(o, lambda a, b: a > b)
    def __ge__(self, o): return self._cmp(o, lambda a, b: a >= b)

    def __bool__(self):
        if self.size != 1:
            raise ValueError('The truth value of an array with more than one element is ambiguous. Use a.any() or a.all()')
        return bool(self.tolist_flat()[0])

    def any(self, *a, **k):
        return NpBool(any(self.tolist_flat()))

    def all(self, *a, **k):
        return NpBool(all(self.tolist_flat()))

    def __hash__(self):
        return id(self)

    def __repr__(self):
        return 'array(%r, dtype=%s)' % (self.tolist(), self.dtype)


def _flatten(v):
    out = []
    for x in v:
        if isinstance(x, (list, tuple)):
            out.extend(_flatten(x))
        elif isinstance(x, Arr):
            out.extend(x.tolist_flat())
        else:
            out.append(x)
    return out


def _shape_of(v):
    if isinstance(v, Arr):
        return v.shape
    if isinstance(v, (list, tuple)):
        if v and isinstance(v[0], (list, tuple, Arr)):
            return (len(v), len(v[0]))
        return (len(v),)
    raise orders.Unsupported('array from %r' % (v,))


def _shape_arg(s):
    if isinstance(s, int):
        return (s,)
    if isinstance(s, (list, tuple)) and all(isinstance(k, int) and not isinstance(k, bool) for k in s):
        return tuple(s)
    raise TypeError('shape %r' % (s,))


def make(values, dtype='float'):
    """array from nested lists"""
    shape = _shape_of(values)
    d = _norm_dtype(dtype)
    return Arr(shape, [_coerce(v, d) for v in _flatten(values)], None if False else list(range(len(_flatten(values)))), d)


class DType(str):
    """np.float32, np.uint8 ...: a dtype name that can also be called to make a scalar of that type"""

    def __call__(self, v=0):
        d = _norm_dtype(str(self))
        if d == 'float32':
            return NpF32(v)
        if d == 'float':
            return NpF64(float(v))
        if d == 'bool':
            return NpBool(v)
        return NpInt(_coerce(v, d), d)


def _flat_values(a):
    if isinstance(a, Arr):
        if len(a.shape) != 1:
            raise orders.Unsupported('cumulative operation on a %d-D array' % len(a.shape))
        return a.tolist_flat()
    if isinstance(a, (list, tuple)):
        return list(a)
    raise orders.Unsupported('cumulative operation on %r' % type(a).__name__)


def cumsum(a, op=None, **kw):
    vals = _flat_values(a)
    out, acc = [], None
    for v in vals:
        acc = v if acc is None else (acc + v if op is None else op(acc, v))
        out.append(acc)
    d = 'float' if any(isinstance(v, float) for v in out) or not out else 'int64'
    return Arr((len(out),), [_coerce(v, d) for v in out], list(range(len(out))), d)


def diff(a, **kw):
    vals = _flat_values(a)
    out = [b - a_ for a_, b in zip(vals, vals[1:])]
    d = 'float' if any(isinstance(v, float) for v in out) or not out else 'int64'
    return Arr((len(out),), [_coerce(v, d) for v in out], list(range(len(out))), d)


def isclose(a, b, rtol=1e-05, atol=1e-08, **kw):
    def one(x, y):
        x, y = float(x), float(y)
        if x != x or y != y:
            return False
        if x in (float('inf'), float('-inf')) or y in (float('inf'), float('-inf')):
            return x == y
        return abs(x - y) <= atol + rtol * abs(y)
    if isinstance(a, Arr) or isinstance(b, Arr):
        A = a if isinstance(a, Arr) else None
        B = b if isinstance(b, Arr) else None
        ref = A if A is not None else B
        xs = A.tolist_flat() if A is not None else [a] * ref.size
        ys = B.tolist_flat() if B is not None else [b] * ref.size
        return Arr(ref.shape, [one(x, y) for x, y in zip(xs, ys)], list(range(ref.size)), 'bool')
    return NpBool(one(a, b))


def stubs():
    """functions of the numpy namespace, keyed by bare name for tlint.orders (np.zeros(...) is looked up as 'zeros')"""
    def alloc(fill):
        def f(shape, dtype=None, **kw):
            return Arr(_shape_arg(shape), dtype=_norm_dtype(dtype) or 'float', fill=fill)
        return f

    def full(shape, fill_value, dtype=None, **kw):
        d = _norm_dtype(dtype) or ('complex' if isinstance(fill_value, complex) else 'float' if isinstance(fill_value, float) else 'int64')
        return Arr(_shape_arg(shape), dtype=d, fill=fill_value)

    def like(fill):
        def f(a, dtype=None, **kw):
            return Arr(a.shape, dtype=_norm_dtype(dtype) or a.dtype, fill=fill)
        return f

    def array(v, dtype=None, copy=True, **kw):
        if isinstance(v, (list, tuple)) and any(not isinstance(x, (int, float, bool, list, tuple, Arr)) for x in v):
            return list(v)          # an object array: a sequence of the same objects
        if isinstance(v, Arr):
            d = _norm_dtype(dtype)
            if d is None or d == v.dtype:
                return v.copy() if copy else v
            return v.astype(d)
        return make(v, dtype or ('float' if any(isinstance(x, float) for x in _flatten(v)) else 'int64'))

    def asarray(v, dtype=None, **kw):
        if isinstance(v, Arr):
            d = _norm_dtype(dtype)
            return v if d is None or d == v.dtype else v.astype(d)
        return array(v, dtype)

    def triu(a, k=0):
        out = a.copy()
        r, c = out.shape
        for i in range(r):
            for j in range(c):
                if j - i < k:
                    out[i, j] = 0
        return out

    def tril(a, k=0):
        out = a.copy()
        r, c = out.shape
        for i in range(r):
            for j in range(c):
                if j - i > k:
                    out[i, j] = 0
        return out

    def elementwise(op):
        def f(a, b):
            if isinstance(a, Arr):
                return a._zip(b, op)
            if isinstance(b, Arr):
                return b._zip(a, lambda x, y: op(y, x))
            return op(a, b)
        return f

    def arg(best):
        def f(a, **kw):
            vals = a.tolist_flat() if isinstance(a, Arr) else list(a)
            if not vals:
                raise ValueError('attempt to get arg%s of an empty sequence' % best.__name__)
            return vals.index(best(vals))
        return f

    def unary(op):
        def f(a):
            if isinstance(a, Arr):
                return Arr(a.shape, [op(v) for v in a.tolist_flat()], list(range(a.size)), 'float' if op is not abs else a.dtype)
            return op(a)
        return f
    def argsort(a, **kw):
        import functools
        vals = a.tolist_flat() if isinstance(a, Arr) else list(a)

        def cmp(i, j):
            x, y = vals[i], vals[j]
            if isinstance(x, orders.Obj):
                if x.call('__lt__', y):
                    return -1
                if y.call('__lt__', x):
                    return 1
                return 0
            return -1 if x < y else (1 if y < x else 0)
        return sorted(range(len(vals)), key=functools.cmp_to_key(cmp))      # stable, as numpy's default is on short inputs

    class FInfo(orders.PyStub):
        eps = 2.220446049250313e-16
        tiny = 2.2250738585072014e-308
        smallest_normal = 2.2250738585072014e-308
        max = 1.7976931348623157e308
        min = -1.7976931348623157e308

    class Scalar0(orders.PyStub):
        """a 0-d array (what np.vectorize returns for a scalar argument)"""
        shape = ()

        def __init__(self, v):
            self.v = v

        def __float__(self):
            return float(self.v)

        def item(self):
            return self.v

    def vectorize(fun, **kw):
        def run(x):
            if isinstance(x, Arr):
                return Arr(x.shape, [fun(v) for v in x.tolist_flat()], list(range(x.size)), 'float')
            if isinstance(x, (list, tuple)):
                return make([fun(v) for v in x], 'float')
            return Scalar0(fun(x))
        return run

    def total(a, **kw):
        vals = a.tolist_flat() if isinstance(a, Arr) else list(a)
        t_ = 0
        for v in vals:
            t_ = t_ + v
        return t_

    def arange(*a, **kw):
        start, stop, step = (0, a[0], 1) if len(a) == 1 else ((a[0], a[1], 1) if len(a) == 2 else a[:3])
        n_ = max(0, int(-(-(stop - start) // step))) if step else 0
        import math as _m
        n_ = max(0, int(_m.ceil((stop - start) / step))) if step else 0
        isf = any(isinstance(x, float) for x in (start, stop, step))
        return make([start + k * step for k in range(n_)], 'float' if isf else 'int64') if n_ else Arr((0,), dtype='float' if isf else 'int64')

    def linspace(start, stop, num=50, endpoint=True, **kw):
        if num <= 0:
            return Arr((0,))
        if num == 1:
            return make([float(start)])
        d_ = (stop - start) / float(num - 1 if endpoint else num)
        return make([start + k * d_ for k in range(num)], 'float')

    table = {
        'arange': arange, 'linspace': linspace,
        'vectorize': vectorize, 'sum': total, 'nansum': lambda a, **k: total([v for v in (a.tolist_flat() if isinstance(a, Arr) else a) if v == v]),
        'finfo': lambda *a, **k: FInfo(),
        'argsort': argsort,
        'zeros': alloc(0.0), 'ones': alloc(1.0), 'empty': alloc(0.0), 'full': full,
        'zeros_like': like(0.0), 'ones_like': like(1.0), 'empty_like': like(0.0),
        'array': array, 'asarray': asarray, 'asanyarray': asarray, 'ascontiguousarray': asarray,
        'copy': lambda a, **kw: a.copy() if isinstance(a, Arr) else orders_deepcopy(a),
        'transpose': lambda a: a.transpose(), 'triu': triu, 'tril': tril,
        'maximum': elementwise(max), 'minimum': elementwise(min), 'fmax': elementwise(max), 'fmin': elementwise(min),
        'add': elementwise(lambda x, y: x + y), 'subtract': elementwise(lambda x, y: x - y),
        'argmin': arg(min), 'argmax': arg(max), 'absolute': unary(abs),
        'shape': lambda a: a.shape,
        'cumsum': cumsum, 'cumprod': lambda a, **k: cumsum(a, op=lambda x, y: x * y), 'diff': diff,
        'isclose': isclose, 'allclose': lambda a, b, **k: NpBool(all(isclose(a, b, **k).tolist_flat()) if isinstance(isclose(a, b, **k), Arr) else isclose(a, b, **k)),
        'isnan': unary(lambda v: v != v), 'isinf': unary(lambda v: v in (float('inf'), float('-inf'))), 'isfinite': unary(lambda v: v == v and v not in (float('inf'), float('-inf'))),
        'nan': float('nan'), 'NaN': float('nan'), 'inf': float('inf'), 'pi': 3.141592653589793, 'e': 2.718281828459045,
        'float64': DType('float64'), 'float32': DType('float32'), 'float16': DType('float16'), 'double': DType('float64'), 'single': DType('float32'),
        'int64': DType('int64'), 'int32': DType('int32'), 'int16': DType('int16'), 'int8': DType('int8'), 'uint8': DType('uint8'), 'uint16': DType('uint16'), 'bool_': DType('bool'),
    }
    # these are names of the numpy namespace (np.isnan ...): called by bare name, a repository function of the same name comes first
    table['__np_names__'] = frozenset(table)
    return table


def orders_deepcopy(v):
    from .absint import deep_copy
    return deep_copy(v)
