"""Harness for interpreting the repository's Network / Node / Edge / priority_dict classes (tlint.orders) on small multigraphs.

Nothing is imported from the repository or executed by Python: the class bodies are walked by the AST interpreter.  Edge geometries are
repository Track records whose observations carry tagged planar positions, so that the orientation of every polyline of a route can be read
off the result.  The reference distances are computed here by Floyd-Warshall on the permitted arcs.
"""
import itertools
import math

from . import absint, orders
from .loader import shape_error

NET = 'tracklib.core.network'
INF = float('inf')


class P(orders.PyStub):
    isa = ('ENUCoords',)

    def __init__(self, x, y, z=0.0):
        self.x, self.y, self.z = float(x), float(y), float(z)

    def getX(self):
        return self.x

    def getY(self):
        return self.y

    def getZ(self):
        return self.z

    def setX(self, v):
        self.x = v

    def setY(self, v):
        self.y = v

    def setZ(self, v):
        self.z = v

    E = property(lambda self: self.x, lambda self, v: setattr(self, 'x', v))
    N = property(lambda self: self.y, lambda self, v: setattr(self, 'y', v))
    U = property(lambda self: self.z, lambda self, v: setattr(self, 'z', v))

    def copy(self):
        return P(self.x, self.y, self.z)

    def distanceTo(self, o):
        return math.sqrt((self.x - o.x) ** 2 + (self.y - o.y) ** 2 + (self.z - o.z) ** 2)

    def distance2DTo(self, o):
        return math.hypot(self.x - o.x, self.y - o.y)

    def xyz(self):
        return (self.x, self.y, self.z)

    def __eq__(self, o):
        return isinstance(o, P) and o.xyz() == self.xyz()

    def __hash__(self):
        return hash(self.xyz())

    def __repr__(self):
        return '(%g, %g, %g)' % self.xyz()


class PG(P):
    """a geographic position: the repository's GeoCoords (and ECEFCoords) define no equality, two distinct objects are never equal"""
    isa = ('GeoCoords',)

    def copy(self):
        return PG(self.x, self.y, self.z)

    __eq__ = object.__eq__
    __hash__ = object.__hash__


class O(orders.PyStub):
    isa = ('Obs',)

    def __init__(self, position, timestamp=None):
        self.position = position
        self.timestamp = timestamp
        self.features = []

    def copy(self):
        o = O(self.position.copy(), self.timestamp)
        o.features = list(self.features)
        return o

    def distanceTo(self, o):
        return self.position.distanceTo(o.position)

    distance2DTo = distanceTo


def _lt(a, b):
    """a < b as heapq sees it: tuples lexicographically, records through the repository's __lt__"""
    if isinstance(a, tuple) and isinstance(b, tuple):
        for x, y in zip(a, b):
            if _lt(x, y):
                return True
            if _lt(y, x):
                return False
        return len(a) < len(b)
    if isinstance(a, orders.Obj):
        if '__lt__' not in a.methods:
            raise TypeError("'<' not supported between instances of %r" % (a.clsname,))
        return bool(a.call('__lt__', b))
    return a < b


def _siftdown(heap, start, pos):
    new = heap[pos]
    while pos > start:
        parent = (pos - 1) >> 1
        if _lt(new, heap[parent]):
            heap[pos] = heap[parent]
            pos = parent
            continue
        break
    heap[pos] = new


def _siftup(heap, pos):
    end = len(heap)
    start = pos
    new = heap[pos]
    child = 2 * pos + 1
    while child < end:
        right = child + 1
        if right < end and not _lt(heap[child], heap[right]):
            child = right
        heap[pos] = heap[child]
        pos = child
        child = 2 * pos + 1
    heap[pos] = new
    _siftdown(heap, start, pos)


def heappush(heap, item):
    heap.append(item)
    _siftdown(heap, 0, len(heap) - 1)


def heappop(heap):
    last = heap.pop()          # IndexError on an empty heap, as heapq
    if heap:
        ret = heap[0]
        heap[0] = last
        _siftup(heap, 0)
        return ret
    return last


def heapify(x):
    for i in reversed(range(len(x) // 2)):
        _siftup(x, i)


def install_queue(ctx, fn):
    """priority_dict of the repository (a dict subclass) as an abstract object whose methods are interpreted from the source"""
    pdq = 'tracklib.core.utils.priority_dict'
    rm = absint.methods_of(ctx, pdq)
    fn.update({'heappush': heappush, 'heappop': heappop, 'heapify': heapify})

    class PD(dict, orders.PyStub):
        isa = ('priority_dict', 'dict')
        repo_methods = rm
        repo_funcs = fn
        __hash__ = None

    def make_pd(*a, **k):
        o = PD()
        if '__init__' in rm:
            orders.Obj.call(orders._Bound(o, rm, fn), '__init__', *a, **k)
        else:
            dict.__init__(o, *a, **k)
        return o
    fn['priority_dict'] = make_pd
    fn['__globals__']['priority_dict'] = make_pd
    return PD


class Harness:
    def __init__(self, ctx):
        self.ctx = ctx
        fn = absint.funcs(ctx, NET, {'heappush': heappush, 'heappop': heappop, 'heapify': heapify, 'Obs': O, 'ENUCoords': P})
        fn['deepcopy'] = absint.deep_copy
        fn['progressbar'] = lambda x, **k: (v_ for v_ in x)
        self.fn = fn
        self.Track = absint.classref(ctx, 'tracklib.core.track.Track', fn)
        self.Node = absint.classref(ctx, NET + '.Node', fn)
        self.Edge = absint.classref(ctx, NET + '.Edge', fn)
        self.Network = absint.classref(ctx, NET + '.Network', fn)
        self.PD = install_queue(ctx, fn)

    # ---- graphs ---------------------------------------------------------------------------------------------------
    def build(self, nodes, edges, layout=None, geographic=False):
        """nodes: list of ids; edges: list of (id, stored source, stored target, orientation, weight).  Node k sits at (10k, k*k, 0)
        unless `layout` places it; the polyline of an edge runs from its stored source through one vertex of its own
        (100 + 7j, 50 + j, 0) to its stored target; with layout 'repeat' the first vertex of every polyline is doubled."""
        net = self.Network()
        place = layout if isinstance(layout, dict) else {}
        P = PG if geographic else globals()['P']
        pos = {nid: P(*place[nid]) if nid in place else P(10.0 * k, float(k * k)) for k, nid in enumerate(nodes)}
        nd = {nid: self.Node(nid, pos[nid]) for nid in nodes}
        for nid in nodes:
            net.call('addNode', nd[nid])
        geom = {}
        self.owned = []
        for j, (eid, u, v, orient, w) in enumerate(edges):
            mid = P(100.0 + 7 * j, 50.0 + j)
            pts = [pos[u].copy(), mid, pos[v].copy()]
            if layout == 'repeat':
                pts = [pos[u].copy(), pos[u].copy(), mid, pos[v].copy(), pos[v].copy()]
            obs = [O(p_) for p_ in pts]
            self.owned.extend(obs)
            self.owned.extend(pts)
            tr = self.Track(obs, 'u', 'e%s' % (eid,))
            e = self.Edge(eid, tr)
            e.fields['orientation'] = orient
            e.fields['weight'] = w
            net.call('addEdge', e, nd[u], nd[v])
            geom[eid] = [p_.xyz() for p_ in pts]
        self.owned.extend(pos.values())
        return net, pos, geom

    @staticmethod
    def arcs(edges):
        """permitted arcs (from, to, weight, edge id, polyline direction: +1 along the stored geometry)"""
        out = []
        for (eid, u, v, orient, w) in edges:
            if orient >= 0:
                out.append((u, v, w, eid, +1))
            if orient <= 0:
                out.append((v, u, w, eid, -1))
        return out

    @staticmethod
    def distances(nodes, edges):
        d = {(a, b): (0.0 if a == b else INF) for a in nodes for b in nodes}
        for (u, v, w, eid, sgn) in Harness.arcs(edges):
            if w < d[(u, v)]:
                d[(u, v)] = float(w)
        for k in nodes:
            for a in nodes:
                for b in nodes:
                    if d[(a, k)] + d[(k, b)] < d[(a, b)]:
                        d[(a, b)] = d[(a, k)] + d[(k, b)]
        return d

    @staticmethod
    def optimal_routes(nodes, edges, s, t, dist, limit=6):
        """all walks s -> t along permitted arcs whose weights sum to dist (node list, arc list); zero-weight cycles are not followed twice"""
        arcs = Harness.arcs(edges)
        out = []

        def go(node, acc, path, used):
            if acc > dist + 1e-12 or len(path) > limit:
                return
            if node == t and abs(acc - dist) <= 1e-12 and path:
                out.append(list(path))
            for a in arcs:
                if a[0] == node and a not in used:
                    go(a[1], acc + a[2], path + [a], used | {a})
        go(s, 0.0, [], frozenset())
        return out

    def guard(self, f, thunk):
        try:
            return True, thunk()
        except orders.Unsupported as ex:
            raise shape_error('%s not interpretable: %s' % (f.qual, ex), f.loc())
        except orders.PROGRAM_ERRORS as ex:
            return False, '%s: %s' % (type(ex).__name__, str(ex)[:200])


def families(tier='quick'):
    """(label, nodes, edges) of the case graphs.  Weights from {0, 1, 3}; orientations two-way / one-way along / one-way against the
    stored direction; parallel edges; a node nothing leads to; ids that are 0, other integers and strings."""
    fams = []
    A, B, C, D = 0, 1, 2, 3
    ORI = (0, 1, -1)
    W = (0, 1, 3)
    # one edge between two of three nodes (the third is isolated)
    for o in ORI:
        for w in W:
            fams.append(('one edge A-B (orientation %+d, weight %d), C isolated' % (o, w), [A, B, C], [(0, A, B, o, w)]))
    # a chain A-B, B-C with every pair of orientations and weights, each edge stored along or against the chain
    for (o1, o2) in itertools.product(ORI, repeat=2):
        for (w1, w2) in ((0, 1), (1, 0), (1, 3), (0, 0), (3, 1)):
            for flip in ((False, False), (True, False), (False, True)):
                e1 = (0, B, A, -o1, w1) if flip[0] else (0, A, B, o1, w1)
                e2 = (1, C, B, -o2, w2) if flip[1] else (1, B, C, o2, w2)
                fams.append(('chain A-B-C orientations (%+d, %+d) weights (%d, %d) stored %s' % (o1, o2, w1, w2, flip), [A, B, C], [e1, e2]))
    # parallel edges, heavier first / lighter first, mixed orientations
    for (w1, w2) in ((3, 1), (1, 3), (1, 0), (0, 1), (1, 1)):
        for (o1, o2) in ((0, 0), (1, 1), (1, -1), (0, 1), (-1, 0)):
            fams.append(('parallel edges A-B weights (%d, %d) orientations (%+d, %+d), then B-C' % (w1, w2, o1, o2), [A, B, C],
                         [(0, A, B, o1, w1), (1, A, B, o2, w2), (2, B, C, 0, 1)]))
    # triangle: direct edge against a detour, added in both orders
    for (wd, w1, w2) in ((3, 1, 1), (2, 1, 1), (1, 1, 1), (5, 0, 0), (1, 3, 3), (3, 0, 1)):
        fams.append(('triangle: direct A-C weight %d added first, detour A-B-C weights (%d, %d)' % (wd, w1, w2), [A, B, C],
                     [(0, A, C, 0, wd), (1, A, B, 0, w1), (2, B, C, 0, w2)]))
        fams.append(('triangle: detour A-B-C weights (%d, %d) added first, direct A-C weight %d' % (w1, w2, wd), [A, B, C],
                     [(1, A, B, 0, w1), (2, B, C, 0, w2), (0, A, C, 0, wd)]))
    # four nodes: a diamond with one-way arcs and a sink, string identifiers
    fams.append(('diamond with string ids', ['a', 'b', 'c', 'd'], [('e0', 'a', 'b', 1, 1), ('e1', 'a', 'c', 1, 3), ('e2', 'b', 'd', 1, 3), ('e3', 'c', 'd', 1, 0), ('e4', 'd', 'a', -1, 1)]))
    fams.append(('diamond, all two-way, zero-weight spur', [A, B, C, D], [(0, A, B, 0, 1), (1, B, C, 0, 1), (2, A, D, 0, 0), (3, D, C, 0, 3), (4, B, D, 0, 0)]))
    fams.append(('one-way ring', [A, B, C, D], [(0, A, B, 1, 1), (1, B, C, 1, 1), (2, C, D, 1, 1), (3, D, A, 1, 1)]))
    fams.append(('two nodes above each other (same E, N; heights 0 and 30), then B-C', [A, B, C], [(0, A, B, 0, 1), (1, C, B, 0, 1)], {A: (5.0, 5.0, 0.0), B: (5.0, 5.0, 30.0)}))
    fams.append(('two nodes above each other, edge stored downwards', [A, B, C], [(0, B, A, 0, 1), (1, B, C, 0, 1)], {A: (5.0, 5.0, 0.0), B: (5.0, 5.0, 30.0)}))
    fams.append(('chain whose polylines start and end with a doubled vertex', [A, B, C], [(0, A, B, 0, 1), (1, C, B, 0, 1)], 'repeat'))
    fams.append(('one-way ring stored backwards', [A, B, C, D], [(0, B, A, -1, 1), (1, C, B, -1, 1), (2, D, C, -1, 1), (3, A, D, -1, 1)]))
    # identifiers that are falsy or look like the code's own sentinels: the empty string, 0 and -1 in the middle of a route
    fams.append(('chain s - (empty-string id) - t', ['s', '', 't'], [('e0', 's', '', 0, 1), ('e1', '', 't', 0, 3)]))
    fams.append(('chain 1 - 0 - 2 (id 0 in the middle), second edge stored backwards', [1, 0, 2], [(0, 1, 0, 0, 1), (1, 2, 0, 0, 1)]))
    fams.append(('chain 5 - (-1) - 7 (id -1 in the middle)', [5, -1, 7], [(0, 5, -1, 1, 1), (1, -1, 7, 1, 0)]))
    # identifiers whose hashes collide although they differ (hash(-1) == hash(-2) in CPython; 2**61 - 1 and 0)
    fams.append(('chain (-1) - (-2) - 3: identifiers with equal hashes', [-1, -2, 3], [(0, -1, -2, 0, 1), (1, -2, 3, 0, 3)]))
    # identifiers of mixed types whose texts collide (1 from a program, '1' from a file)
    fams.append(("chain 1 - '1' - 2: an integer and a string identifier with the same text", [1, '1', 2], [(0, 1, '1', 0, 1), (1, '1', 2, 0, 3)]))
    # an edge from a node to itself (a cul-de-sac loop digitised as one edge), added BEFORE the other edges of that node
    fams.append(('two-way self-loop on A, then A-B and A-C', [A, B, C], [(0, A, A, 0, 1), (1, A, B, 0, 1), (2, A, C, 0, 3)]))
    fams.append(('one-way self-loop on B, then A-B and B-C', [A, B, C], [(0, B, B, 1, 3), (1, A, B, 0, 1), (2, B, C, 1, 1)]))
    fams.append(('two-way self-loop on B between A-B and B-C, C-A', [A, B, C], [(0, A, B, 0, 3), (1, B, B, 0, 1), (2, B, C, 0, 1), (3, C, A, 0, 1)]))
    # identifiers that are pairs of numbers (row, column of a grid)
    fams.append(('chain (0, 0) - (0, 1) - (1, 1): identifiers that are pairs of numbers', [(0, 0), (0, 1), (1, 1)], [(0, (0, 0), (0, 1), 0, 1), (1, (0, 1), (1, 1), 1, 3)]))
    fams.append(('triangle 0, 2**61 - 1, 7: identifiers with equal hashes', [0, 2 ** 61 - 1, 7], [(0, 0, 2 ** 61 - 1, 1, 1), (1, 2 ** 61 - 1, 7, 1, 1), (2, 0, 7, 0, 3)]))
    # a dense one-way multigraph with parallel edges of decreasing weight: many decrease-key updates of the same node between two pops
    # of the frontier (the priority queue must keep its heap order through them)
    fams.append(('six nodes, ten edges: parallel one-way edges of decreasing weight, zero-weight links', [1, 2, 3, 4, 5, 6],
                 [(0, 3, 5, 1, 1), (1, 3, 2, 1, 15), (2, 3, 5, 1, 0), (3, 1, 6, 1, 16), (4, 1, 3, 0, 9), (5, 3, 4, 1, 2), (6, 1, 4, 1, 13), (7, 4, 6, 1, 0), (8, 3, 2, 1, 10), (9, 5, 2, 1, 8)]))
    if tier == 'thorough':
        for (o1, o2, o3) in itertools.product(ORI, repeat=3):
            for (w1, w2, w3) in itertools.product(W, repeat=3):
                fams.append(('triangle orientations %r weights %r' % ((o1, o2, o3), (w1, w2, w3)), [A, B, C], [(0, A, B, o1, w1), (1, B, C, o2, w2), (2, C, A, o3, w3)]))
    return [fm if len(fm) == 4 else fm + (None,) for fm in fams]
