"""Parse the repository under analysis (never import it) and index it.

Everything a rule looks at comes from here: module ASTs, functions and classes
by qualified name, class-level and module-level constants, imports.
"""
import ast
import os
import warnings


class AnalysisError(Exception):
    """The checker cannot do its job (anchor vanished, shape not understood,
    file does not parse).  Exit 2, never a VIOLATION."""

    def __init__(self, kind, msg, where=None):
        super().__init__(msg)
        self.kind = kind          # 'anchor' | 'shape' | 'parse' | 'census' | 'internal'
        self.msg = msg
        self.where = where


def anchor_error(msg, where=None):
    return AnalysisError('anchor', msg, where)


def shape_error(msg, where=None):
    return AnalysisError('shape', msg, where)


class FuncInfo:
    __slots__ = ('qual', 'name', 'node', 'module', 'cls', 'parent')

    def __init__(self, qual, node, module, cls, parent=None):
        self.qual = qual
        self.name = node.name
        self.node = node
        self.module = module
        self.cls = cls            # ClassInfo or None
        self.parent = parent      # enclosing FuncInfo for nested defs

    @property
    def params(self):
        a = self.node.args
        return [x.arg for x in a.posonlyargs + a.args]

    @property
    def path(self):
        return self.module.relpath

    def loc(self, node=None):
        n = node if node is not None else self.node
        return '%s:%d' % (self.module.relpath, getattr(n, 'lineno', self.node.lineno))

    def __repr__(self):
        return '<func %s>' % self.qual


class ClassInfo:
    __slots__ = ('qual', 'name', 'node', 'module', 'methods', 'consts', 'bases')

    def __init__(self, qual, node, module):
        self.qual = qual
        self.name = node.name
        self.node = node
        self.module = module
        self.methods = {}
        self.consts = {}          # name -> ast expr (class-level simple assignments)
        self.bases = [ast.unparse(b) for b in node.bases]


class ModuleInfo:
    __slots__ = ('name', 'relpath', 'path', 'tree', 'source', 'functions', 'classes',
                 'consts', 'imports')

    def __init__(self, name, relpath, path, tree, source):
        self.name = name
        self.relpath = relpath
        self.path = path
        self.tree = tree
        self.source = source
        self.functions = {}
        self.classes = {}
        self.consts = {}
        self.imports = []


def _mangle(clsname, attr):
    """Python private-name mangling as applied inside class `clsname`."""
    if attr.startswith('__') and not attr.endswith('__'):
        return '_' + clsname.lstrip('_') + attr
    return attr


class Program:
    def __init__(self, root):
        self.root = os.path.abspath(root)
        self.pkg = os.path.join(self.root, 'tracklib')
        self.modules = {}
        self.functions = {}       # qualified name -> FuncInfo
        self.classes = {}         # qualified name -> ClassInfo
        self.by_name = {}         # bare function/method name -> [FuncInfo]
        self._load()

    # ------------------------------------------------------------------
    def _load(self):
        if not os.path.isdir(self.pkg):
            raise AnalysisError('parse', 'no package directory %s' % self.pkg)
        files = []
        for d, dirs, fs in os.walk(self.pkg):
            dirs[:] = sorted(x for x in dirs if x != '__pycache__')
            for f in sorted(fs):
                if f.endswith('.py'):
                    files.append(os.path.join(d, f))
        for path in files:
            rel = os.path.relpath(path, self.root)
            with open(path, 'rb') as fh:
                raw = fh.read()
            try:
                src = raw.decode('utf-8')
                with warnings.catch_warnings():
                    warnings.simplefilter('ignore')
                    tree = ast.parse(src, filename=rel)
            except (SyntaxError, UnicodeDecodeError, ValueError) as e:
                raise AnalysisError('parse', '%s does not parse: %s' % (rel, e), rel)
            name = rel[:-3].replace(os.sep, '.')
            if name.endswith('.__init__'):
                name = name[:-9]
            mod = ModuleInfo(name, rel, path, tree, src)
            self.modules[name] = mod
            self._index(mod)

    def _index(self, mod):
        def add_func(node, qual, cls, parent):
            fi = FuncInfo(qual, node, mod, cls, parent)
            self.functions[qual] = fi
            self.by_name.setdefault(node.name, []).append(fi)
            for sub in ast.iter_child_nodes(node):
                walk(sub, qual + '.<locals>', None, fi)
            return fi

        def walk(node, prefix, cls, parent):
            if isinstance(node, (ast.FunctionDef, ast.AsyncFunctionDef)):
                add_func(node, prefix + '.' + node.name, cls, parent)
            elif isinstance(node, ast.ClassDef):
                qual = prefix + '.' + node.name
                ci = ClassInfo(qual, node, mod)
                self.classes[qual] = ci
                if prefix == mod.name:
                    mod.classes[node.name] = ci
                for st in node.body:
                    if isinstance(st, (ast.FunctionDef, ast.AsyncFunctionDef)):
                        role = [d.attr for d in st.decorator_list if isinstance(d, ast.Attribute) and d.attr in ('setter', 'deleter')]
                        if role:
                            # @name.setter / @name.deleter: the same name defined again; kept beside the getter
                            fi = add_func(st, qual + '.' + st.name + '.' + role[0], ci, parent)
                            ci.methods[st.name + '.' + role[0]] = fi
                            continue
                        fi = add_func(st, qual + '.' + st.name, ci, parent)
                        ci.methods[st.name] = fi
                    elif isinstance(st, ast.Assign) and len(st.targets) == 1 and \
                            isinstance(st.targets[0], ast.Name):
                        ci.consts[st.targets[0].id] = st.value
                    elif isinstance(st, ast.AnnAssign) and st.value is not None and isinstance(st.target, ast.Name):
                        ci.consts[st.target.id] = st.value
                    elif isinstance(st, ast.ClassDef):
                        walk(st, qual, None, parent)
            elif isinstance(node, (ast.If, ast.Try, ast.With, ast.For, ast.While)):
                for sub in ast.iter_child_nodes(node):
                    walk(sub, prefix, cls, parent)

        for st in mod.tree.body:
            if isinstance(st, (ast.FunctionDef, ast.AsyncFunctionDef)):
                fi = add_func(st, mod.name + '.' + st.name, None, None)
                mod.functions[st.name] = fi
            elif isinstance(st, ast.ClassDef):
                walk(st, mod.name, None, None)
            elif isinstance(st, ast.Assign) and len(st.targets) == 1 and \
                    isinstance(st.targets[0], ast.Name):
                mod.consts[st.targets[0].id] = st.value
            elif isinstance(st, ast.AnnAssign) and st.value is not None and isinstance(st.target, ast.Name):
                mod.consts[st.target.id] = st.value
            elif isinstance(st, ast.Assign) and len(st.targets) == 1 and isinstance(st.targets[0], (ast.Tuple, ast.List)) and \
                    isinstance(st.value, (ast.Tuple, ast.List)) and len(st.value.elts) == len(st.targets[0].elts) and \
                    all(isinstance(t_, ast.Name) for t_ in st.targets[0].elts) and not any(isinstance(v_, ast.Starred) for v_ in st.value.elts):
                for t_, v_ in zip(st.targets[0].elts, st.value.elts):      # A, B = 1, 2 at module level
                    mod.consts[t_.id] = v_
            elif isinstance(st, ast.Assign) and len(st.targets) == 1 and isinstance(st.targets[0], (ast.Tuple, ast.List)) and \
                    all(isinstance(t_, ast.Name) or (isinstance(t_, ast.Starred) and isinstance(t_.value, ast.Name)) for t_ in st.targets[0].elts) and \
                    sum(isinstance(t_, ast.Starred) for t_ in st.targets[0].elts) <= 1:
                # first, *rest = VALUE / a, b = VALUE at module level: each name is the corresponding item (slice) of list(VALUE)
                elts = st.targets[0].elts
                n = len(elts)
                star = [k for k, t_ in enumerate(elts) if isinstance(t_, ast.Starred)]
                src = 'list(%s)' % ast.unparse(st.value)
                for k, t_ in enumerate(elts):
                    if isinstance(t_, ast.Starred):
                        after = n - k - 1
                        expr = '%s[%d:%s]' % (src, k, ('-%d' % after) if after else '')
                        name = t_.value.id
                    elif star and k > star[0]:
                        expr, name = '%s[%d]' % (src, k - n), t_.id
                    else:
                        expr, name = '%s[%d]' % (src, k), t_.id
                    node_ = ast.parse(expr, mode='eval').body
                    for sub in ast.walk(node_):
                        ast.copy_location(sub, st)
                    mod.consts[name] = node_
            elif isinstance(st, ast.Assign) and len(st.targets) > 1 and all(isinstance(t_, ast.Name) for t_ in st.targets):
                for t_ in st.targets:                                       # A = B = value
                    mod.consts[t_.id] = st.value
            elif isinstance(st, (ast.Import, ast.ImportFrom)):
                mod.imports.append(st)
            elif isinstance(st, (ast.If, ast.Try)):
                for sub in ast.iter_child_nodes(st):
                    walk(sub, mod.name, None, None)
        # attribute assignments at module level: Operator.X = Cls()
        # (kept in tree; rules that need them scan mod.tree.body)

    # ------------------------------------------------------------------
    def module(self, name):
        m = self.modules.get(name)
        if m is None:
            raise anchor_error('module %s not found' % name)
        return m

    def func(self, qual):
        f = self.functions.get(qual)
        if f is None:
            raise anchor_error('function %s not found' % qual, qual)
        return f

    def maybe_func(self, qual):
        return self.functions.get(qual)

    def cls(self, qual):
        c = self.classes.get(qual)
        if c is None:
            raise anchor_error('class %s not found' % qual, qual)
        return c

    def method(self, clsqual, name):
        """method lookup through repo base classes"""
        seen = set()
        todo = [clsqual]
        while todo:
            q = todo.pop(0)
            if q in seen:
                continue
            seen.add(q)
            c = self.classes.get(q)
            if c is None:
                continue
            if name in c.methods:
                return c.methods[name]
            for b in c.bases:
                bn = b.split('.')[-1]
                for cq in self.classes:
                    if cq.split('.')[-1] == bn:
                        todo.append(cq)
        return None

    def subclasses_of(self, basename):
        """all classes deriving (transitively, by simple name) from `basename`"""
        out = []
        names = {basename}
        changed = True
        while changed:
            changed = False
            for q, c in self.classes.items():
                if c.name in names:
                    continue
                if any(b.split('.')[-1] in names for b in c.bases):
                    names.add(c.name)
                    out.append(c)
                    changed = True
        return out

    def census(self):
        return {
            'files': len(self.modules),
            'classes': len(self.classes),
            'functions': len(self.functions),
        }


mangle = _mangle
