import argparse
import importlib
import json
import os
import sys
import time
import traceback

from .loader import Program, AnalysisError
from .report import Ctx, VERIF

FLOORS = {'files': 40, 'classes': 140, 'functions': 950}


def main(argv=None):
    ap = argparse.ArgumentParser(prog='check')
    ap.add_argument('pid')
    ap.add_argument('--tier', default=os.environ.get('VERIF_TIER', 'quick'), choices=['quick', 'thorough'])
    ap.add_argument('--repo', default=os.environ.get('TLINT_REPO', '/repo'))
    ap.add_argument('--replay', default=None)
    ap.add_argument('--rule', default=None, help='run only rules whose id starts with this')
    ap.add_argument('--no-evidence', action='store_true')
    a = ap.parse_args(argv)
    pid = a.pid.upper()
    seed = int(os.environ.get('VERIF_SEED', '0') or 0)
    try:
        mod = importlib.import_module('tlint.rules.%s' % pid.lower())
    except ImportError as e:
        print('ANALYSIS-ERROR property=%s kind=internal no rule module: %s' % (pid, e))
        return 2
    try:
        prog = Program(a.repo)
        cen = prog.census()
        for k, v in FLOORS.items():
            if cen[k] < v:
                raise AnalysisError('census', 'census %s=%d below the floor %d: the tree was not fully read'
                                    % (k, cen[k], v))
    except AnalysisError as e:
        print('ANALYSIS-ERROR property=%s kind=%s %s' % (pid, e.kind, e.msg))
        return 2
    # helpers that do not exist on the reference tree are walked in place of their call (extract-method refactorings)
    from . import sx
    try:
        with open(os.path.join(os.path.dirname(os.path.abspath(__file__)), 'known_functions.txt')) as fh:
            known = set(fh.read().split())
    except OSError:
        known = None
    sx.NEW_HELPERS.clear()
    if known is not None:
        for q, fi in prog.functions.items():
            if q not in known and fi.parent is None:
                sx.NEW_HELPERS[(fi.cls.qual if fi.cls is not None else fi.module.name, fi.name)] = fi
    ctx = Ctx(prog, pid, a.tier, seed)
    if sx.NEW_HELPERS:
        ctx.note('*', 'functions unknown on the reference tree, walked in place of their calls: ' + ', '.join(sorted(fi.qual for fi in sx.NEW_HELPERS.values())))
    only = None
    if a.replay:
        try:
            with open(a.replay) as fh:
                only = json.load(fh).get('rule')
        except Exception as e:
            print('ANALYSIS-ERROR property=%s kind=internal cannot read replay file: %s' % (pid, e))
            return 2
    for entry in mod.RULES:
        rid, fn, tier = entry[:3]
        advisory = len(entry) > 3 and entry[3] == 'advisory'
        if tier == 'thorough' and a.tier != 'thorough':
            continue
        if only and rid != only:
            continue
        if a.rule and not rid.startswith(a.rule):
            continue
        ctx.run_rule(rid, fn, advisory=advisory)
    floors = getattr(mod, 'MIN_OBLIGATIONS', 1)
    if not only and not a.rule and len(ctx.obligations) < floors and not ctx.errors:
        e = AnalysisError('census', 'only %d obligations, floor is %d' % (len(ctx.obligations), floors))
        e.rule = '*'
        ctx.errors.append(e)
    if a.tier == 'thorough' and not only and not a.rule and os.path.realpath(a.repo) == '/repo':
        ctx.extra['sensitivity'] = sensitivity(pid)
    return ctx.finish(mod.EXPLANATION, mod.ASSUMPTIONS, mod.TECHNIQUE)


def sensitivity(pid):
    """thorough tier: run the self-test edits of this property (each on its own scratch copy of the source) and the
    seeded changes kept under /verif/seeded; recorded in the evidence, never changes the exit code"""
    import re
    import shutil
    import subprocess
    import tempfile
    from concurrent.futures import ThreadPoolExecutor
    sys.path.insert(0, os.path.join(VERIF, 'selftest'))
    try:
        from mutants import EDITS
        import run as selfrun
    except Exception as e:       # the self-test material is optional for the verdict
        return {'error': 'self-test material not loadable: %s' % e}
    edits = [e for e in EDITS if e['property'] == pid]
    with ThreadPoolExecutor(min(16, max(1, len(edits)))) as ex:
        res = list(ex.map(selfrun.run_one, edits))
    out = {'mutants_killed': sum(1 for r in res if r['status'] == 'KILLED'),
           'mutants_total': sum(1 for r in res if r['kind'] == 'mutant'),
           'twins_silent': sum(1 for r in res if r['status'] == 'SILENT'),
           'twins_total': sum(1 for r in res if r['kind'] == 'twin'),
           'not_as_expected': [{'id': r['id'], 'status': r['status'], 'rules': r.get('rules', [])} for r in res
                               if r['status'] not in ('KILLED', 'SILENT')],
           'edits': [{'id': r['id'], 'kind': r['kind'], 'status': r['status'], 'rules': r.get('rules', [])} for r in res]}
    seeded = sorted(d for d in os.listdir(os.path.join(VERIF, 'seeded')) if d.startswith(pid + '-'))

    def one(sid):
        t = tempfile.mkdtemp(prefix='tlint-thorough.')
        try:
            shutil.copytree('/repo/tracklib', t + '/tracklib')
            shutil.copytree('/repo/resources', t + '/resources')
            p = subprocess.run(['patch', '-s', '-p1', '-i', os.path.join(VERIF, 'seeded', sid, 'patch.diff')], cwd=t,
                               capture_output=True, text=True)
            if p.returncode != 0:
                return {'id': sid, 'status': 'patch does not apply'}
            env = dict(os.environ, TLINT_EVIDENCE_DIR=t + '/ev')
            r = subprocess.run([os.path.join(VERIF, 'check'), pid, '--repo', t], capture_output=True, text=True, env=env)
            rules = sorted(set(re.findall(r'^\S+: (C\d\d\.\w+):', r.stdout, re.M)))
            return {'id': sid, 'exit': r.returncode, 'rules': rules}
        finally:
            shutil.rmtree(t, ignore_errors=True)
    if seeded:
        with ThreadPoolExecutor(min(16, len(seeded))) as ex:
            out['seeded'] = list(ex.map(one, seeded))
    print('  thorough: self-test %d/%d mutants reported, %d/%d twins silent; %d seeded changes re-run'
          % (out['mutants_killed'], out['mutants_total'], out['twins_silent'], out['twins_total'], len(seeded)))
    return out


if __name__ == '__main__':
    try:
        rc = main()
    except SystemExit:
        raise
    except BaseException as e:      # a traceback must never look like a violation (exit 1)
        print('ANALYSIS-ERROR kind=internal %s: %s' % (type(e).__name__, e))
        traceback.print_exc(limit=8, file=sys.stdout)
        rc = 2
    sys.exit(rc)
