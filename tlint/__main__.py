import argparse
import importlib
import json
import os
import sys
import time
import traceback

from .loader import Program, AnalysisError
from .report import Ctx, VERIF

FLOORS = {'files': 40, 'classes': 140, 'functions': 950}


def main(argv=None):
    ap = argparse.ArgumentParser(prog='check')
    ap.add_argument('pid')
    ap.add_argument('--tier', default=os.environ.get('VERIF_TIER', 'quick'), choices=['quick', 'thorough'])
    ap.add_argument('--repo', default=os.environ.get('TLINT_REPO', '/repo'))
    ap.add_argument('--replay', default=None)
    ap.add_argument('--rule', default=None, help='run only rules whose id starts with this')
    ap.add_argument('--no-evidence', action='store_true')
    a = ap.parse_args(argv)
    pid = a.pid.upper()
    seed = int(os.environ.get('VERIF_SEED', '0') or 0)
    try:
        mod = importlib.import_module('tlint.rules.%s' % pid.lower())
    except ImportError as e:
        print('ANALYSIS-ERROR property=%s kind=internal no rule module: %s' % (pid, e))
        return 2
    try:
        prog = Program(a.repo)
        cen = prog.census()
        for k, v in FLOORS.items():
            if cen[k] < v:
                raise AnalysisError('census', 'census %s=%d below the floor %d: the tree was not fully read'
                                    % (k, cen[k], v))
    except AnalysisError as e:
        print('ANALYSIS-ERROR property=%s kind=%s %s' % (pid, e.kind, e.msg))
        return 2
    ctx = Ctx(prog, pid, a.tier, seed)
    only = None
    if a.replay:
        try:
            with open(a.replay) as fh:
                only = json.load(fh).get('rule')
        except Exception as e:
            print('ANALYSIS-ERROR property=%s kind=internal cannot read replay file: %s' % (pid, e))
            return 2
    for rid, fn, tier in mod.RULES:
        if tier == 'thorough' and a.tier != 'thorough':
            continue
        if only and rid != only:
            continue
        if a.rule and not rid.startswith(a.rule):
            continue
        ctx.run_rule(rid, fn)
    floors = getattr(mod, 'MIN_OBLIGATIONS', 1)
    if not only and not a.rule and len(ctx.obligations) < floors and not ctx.errors:
        e = AnalysisError('census', 'only %d obligations, floor is %d' % (len(ctx.obligations), floors))
        e.rule = '*'
        ctx.errors.append(e)
    return ctx.finish(mod.EXPLANATION, mod.ASSUMPTIONS, mod.TECHNIQUE)


if __name__ == '__main__':
    try:
        rc = main()
    except SystemExit:
        raise
    except BaseException as e:      # a traceback must never look like a violation (exit 1)
        print('ANALYSIS-ERROR kind=internal %s: %s' % (type(e).__name__, e))
        traceback.print_exc(limit=8, file=sys.stdout)
        rc = 2
    sys.exit(rc)
