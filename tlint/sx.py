"""Structured path enumeration with a symbolic store (the F2/F3/F6 workhorse).

A function body (or any statement list) is walked path by path.  Locals are
bound to exact normal forms (`alg.Rat`); anything the engine does not model is
an *atom* named by its canonical text, so two syntactically different spellings
of the same read (`S[r-1]` / `S[-1+r]`) get the same name.  Along each path the
walker records branch conditions and *events* (calls, stores, assignments,
returns) together with the conditions that guard them.  Nothing is executed.
"""
import ast
import re
from fractions import Fraction

from .alg import Poly, Rat, Relations, ONE
from .loader import shape_error

MAX_PATHS = 20000


# --------------------------------------------------------------------------
# conditions
# --------------------------------------------------------------------------
class Cond:
    __slots__ = ('kind', 'op', 'a', 'b', 'items', 'text')

    def __init__(self, kind, op=None, a=None, b=None, items=None, text=None):
        self.kind = kind      # 'cmp' 'and' 'or' 'not' 'opaque' 'const' 'truth' 'in'
        self.op = op
        self.a = a
        self.b = b
        self.items = items
        self.text = text

    # constructors
    @staticmethod
    def const(v):
        return Cond('const', op=bool(v))

    def is_const(self):
        return self.kind == 'const'

    def negate(self):
        if self.kind == 'const':
            return Cond.const(not self.op)
        if self.kind == 'not':
            return self.items[0]
        if self.kind == 'cmp':
            flip = {'<': ('<=', True), '<=': ('<', True), '==': ('!=', False), '!=': ('==', False)}
            op, swap = flip[self.op]
            return Cond('cmp', op, self.b if swap else self.a, self.a if swap else self.b)
        if self.kind == 'and':
            return Cond('or', items=[c.negate() for c in self.items])
        if self.kind == 'or':
            return Cond('and', items=[c.negate() for c in self.items])
        return Cond('not', items=[self])

    def key(self):
        if self.kind == 'const':
            return ('const', self.op)
        if self.kind == 'cmp':
            a, b = self.a, self.b
            if isinstance(a, Rat) and isinstance(b, Rat):
                d = a - b
                if self.op in ('==', '!='):
                    r1, r2 = repr(d), repr(-d)
                    return (self.op, min(r1, r2))
                return (self.op, repr(d))
            ka, kb = vkey(a), vkey(b)
            if self.op in ('==', '!='):
                ka, kb = sorted([ka, kb])
            return (self.op, ka, kb)
        if self.kind in ('and', 'or'):
            return (self.kind, tuple(sorted(c.key() for c in self.items)))
        if self.kind == 'not':
            return ('not', self.items[0].key())
        if self.kind == 'in':
            return ('in', vkey(self.a), tuple(vkey(x) for x in self.items))
        if self.kind == 'truth':
            return ('truth', vkey(self.a))
        return ('opaque', self.text)

    def conjuncts(self):
        if self.kind == 'and':
            out = []
            for c in self.items:
                out += c.conjuncts()
            return out
        return [self]

    def __repr__(self):
        if self.kind == 'const':
            return str(self.op)
        if self.kind == 'cmp':
            return '%s %s %s' % (vrepr(self.a), self.op, vrepr(self.b))
        if self.kind in ('and', 'or'):
            return '(' + (' %s ' % self.kind).join(repr(c) for c in self.items) + ')'
        if self.kind == 'not':
            return 'not ' + repr(self.items[0])
        if self.kind == 'in':
            return '%s in [%s]' % (vrepr(self.a), ', '.join(vrepr(x) for x in self.items))
        if self.kind == 'truth':
            return 'bool(%s)' % vrepr(self.a)
        return self.text


def vrepr(v):
    if isinstance(v, Rat):
        return repr(v)
    if isinstance(v, (tuple, list)):
        return ('(%s)' if isinstance(v, tuple) else '[%s]') % ', '.join(vrepr(x) for x in v)
    if isinstance(v, LambdaV):
        return '<lambda>'
    return repr(v)


def vkey(v):
    return vrepr(v)


class LambdaV:
    __slots__ = ('node', 'env')

    def __init__(self, node, env):
        self.node = node
        self.env = env


class Event:
    __slots__ = ('kind', 'name', 'recv', 'args', 'kwargs', 'value', 'index', 'node',
                 'conds', 'loops', 'aug', 'seq')

    def __init__(self, kind, **kw):
        self.kind = kind
        for k in self.__slots__[1:]:
            setattr(self, k, kw.get(k))

    def __repr__(self):
        if self.kind == 'call':
            return 'call %s(%s)' % (self.name, ', '.join(vrepr(a) for a in self.args))
        if self.kind == 'store':
            return 'store %s[%s] %s= %s' % (self.name, vrepr(self.index), self.aug or '', vrepr(self.value))
        if self.kind == 'assign':
            return 'assign %s = %s' % (self.name, vrepr(self.value))
        return '%s %s' % (self.kind, self.name)


class State:
    __slots__ = ('env', 'conds', 'events', 'loops')

    def __init__(self, env=None, conds=None, events=None, loops=None):
        self.env = env if env is not None else {}
        self.conds = conds if conds is not None else []
        self.events = events if events is not None else []
        self.loops = loops if loops is not None else []

    def fork(self):
        return State(dict(self.env), list(self.conds), list(self.events), list(self.loops))


class Outcome:
    __slots__ = ('kind', 'state', 'value', 'node')

    def __init__(self, kind, state, value=None, node=None):
        self.kind = kind        # 'fall' 'return' 'raise' 'break' 'continue'
        self.state = state
        self.value = value
        self.node = node

    @property
    def conds(self):
        return self.state.conds

    @property
    def events(self):
        return self.state.events

    @property
    def env(self):
        return self.state.env


_BIN = {ast.Add: lambda a, b: a + b, ast.Sub: lambda a, b: a - b,
        ast.Mult: lambda a, b: a * b, ast.Div: lambda a, b: a / b}

MATH_FUNCS = {'sin', 'cos', 'tan', 'atan', 'atan2', 'asin', 'acos', 'exp', 'log', 'sqrt',
              'fabs', 'floor', 'ceil', 'pow', 'hypot', 'isnan', 'radians', 'degrees',
              'log10', 'log2', 'sinh', 'cosh', 'tanh'}


# functions that do not exist on the reference tree (tlint/known_functions.txt): a call to one of them from an analysed
# function is an extracted helper and is walked in place, so that an extract-method refactoring leaves every rule's view
# of the caller unchanged.  {(class qual | module name, function name): FuncInfo}; filled by tlint.__main__.
NEW_HELPERS = {}


class Walker:
    """Symbolic walker over one function."""

    def __init__(self, func=None, loop_mode='once', inline=None, global_lookup=None,
                 rel=None, assign_events=True, attr_as_atom=True, solve_eq=True):
        self.solve_eq = solve_eq
        self.func = func
        self.loop_mode = loop_mode        # 'skip' | 'once'
        self.inline = inline or {}        # callee text -> FuncInfo
        self.global_lookup = global_lookup
        self.rel = rel if rel is not None else Relations()
        self.fresh = 0
        self.npaths = 0
        self.assign_events = assign_events
        self.seq = 0

    # ---- values ----------------------------------------------------------
    def new_atom(self, base):
        self.fresh += 1
        return Rat.atom("%s'%d" % (base, self.fresh))

    def canon(self, v):
        if isinstance(v, Rat):
            return repr(v)
        return vrepr(v)

    def atom_of(self, text):
        return Rat.atom(text)

    def ex(self, n, st):
        """evaluate expression node to a value"""
        if isinstance(n, ast.Constant):
            v = n.value
            if isinstance(v, bool):
                return Rat.const(1 if v else 0)
            if isinstance(v, (int, float)):
                try:
                    return Rat.const(v)
                except ValueError:
                    return Rat.atom(repr(v))
            if isinstance(v, complex):
                return Rat.const(Fraction(repr(v.imag))) * Rat.atom('1j')
            return v                                  # str, None, bytes
        if isinstance(n, ast.Name):
            if n.id in st.env:
                return st.env[n.id]
            if self.global_lookup is not None:
                g = self.global_lookup(n.id)
                if g is not None:
                    return g
            return Rat.atom(n.id)
        if isinstance(n, ast.UnaryOp):
            if isinstance(n.op, ast.Not):
                return self.cond(n, st)
            v = self.ex(n.operand, st)
            if isinstance(v, Cond):
                v = self.cond_as_num(v)
            if not isinstance(v, Rat):
                return Rat.atom(self.text(n, st))
            if isinstance(n.op, ast.USub):
                return -v
            if isinstance(n.op, ast.UAdd):
                return v
            return Rat.atom('~' + self.canon(v))
        if isinstance(n, ast.BinOp):
            a = self.ex(n.left, st)
            b = self.ex(n.right, st)
            if isinstance(a, Cond) and isinstance(b, Cond) and isinstance(n.op, (ast.BitAnd, ast.BitOr)):
                isand = isinstance(n.op, ast.BitAnd)
                items = []
                for c in (a, b):
                    if c.is_const():
                        if c.op != isand:
                            return Cond.const(c.op)
                        continue
                    items.append(c)
                if not items:
                    return Cond.const(isand)
                return items[0] if len(items) == 1 else Cond('and' if isand else 'or', items=items)
            if isinstance(a, Cond):
                a = self.cond_as_num(a)
            if isinstance(b, Cond):
                b = self.cond_as_num(b)
            if isinstance(a, (list, tuple)) and isinstance(b, (list, tuple)) and isinstance(n.op, ast.Add):
                return type(a)(list(a) + list(b))
            if isinstance(a, str) and isinstance(b, str) and isinstance(n.op, ast.Add):
                return a + b
            if not isinstance(a, Rat) or not isinstance(b, Rat):
                return Rat.atom('(%s %s %s)' % (self.canon(a), type(n.op).__name__, self.canon(b)))
            f = _BIN.get(type(n.op))
            if f is not None:
                if isinstance(n.op, ast.Div) and self.rel.is_zero(b):
                    self.seq += 1
                    st.events.append(Event('divzero', name=self.canon(a), node=n, conds=tuple(st.conds),
                                           loops=tuple(st.loops), seq=self.seq))
                    return Rat.atom('(%s / 0)' % self.canon(a))
                if isinstance(n.op, ast.Div) and not b.isconst():
                    self.seq += 1
                    st.events.append(Event('div', name=self.canon(b), value=b, node=n, conds=tuple(st.conds),
                                           loops=tuple(st.loops), seq=self.seq))
                return f(a, b)
            if isinstance(n.op, ast.Pow):
                if b.isconst():
                    c = b.constval()
                    if c.denominator == 1 and abs(c) <= 12:
                        if c < 0 and a.n.iszero():
                            return Rat.atom('(0 ** %s)' % c)
                        return a ** int(c)
                    if c == Fraction(1, 2):
                        return self.sqrt(a)
                return Rat.atom('(%s ** %s)' % (self.canon(a), self.canon(b)))
            if isinstance(n.op, (ast.Mod, ast.FloorDiv)) and a.isconst() and b.isconst() and b.constval() != 0:
                import math
                q = math.floor(a.constval() / b.constval())
                return Rat.const(q) if isinstance(n.op, ast.FloorDiv) else Rat.const(a.constval() - q * b.constval())
            if isinstance(n.op, ast.FloorDiv):
                return Rat.atom('floor(%s)' % self.canon(a / b)) if not b.n.iszero() else Rat.atom('(%s // 0)' % self.canon(a))
            if isinstance(n.op, ast.Mod):
                return Rat.atom('(%s %% %s)' % (self.canon(a), self.canon(b)))
            return Rat.atom('(%s %s %s)' % (self.canon(a), type(n.op).__name__, self.canon(b)))
        if isinstance(n, ast.Tuple):
            return tuple(self.ex(e, st) for e in n.elts)
        if isinstance(n, ast.List):
            return [self.ex(e, st) for e in n.elts]
        if isinstance(n, (ast.Compare, ast.BoolOp)):
            return self.cond(n, st)
        if isinstance(n, ast.IfExp):
            c = self.cond(n.test, st)
            if c.is_const():
                return self.ex(n.body if c.op else n.orelse, st)
            return Rat.atom('ite(%r, %s, %s)' % (c, self.canon(self.ex(n.body, st)), self.canon(self.ex(n.orelse, st))))
        if isinstance(n, ast.Lambda):
            return LambdaV(n, dict(st.env))
        if isinstance(n, ast.Attribute):
            base = self.ex(n.value, st)
            if isinstance(n.value, ast.Name) and n.value.id in ('math', 'np', 'numpy') and n.attr == 'pi':
                return Rat.atom('pi')
            aname = '%s.%s' % (self.base_text(base), n.attr)
            if aname in st.env:
                return st.env[aname]
            return Rat.atom(aname)
        if isinstance(n, ast.Subscript):
            base = self.ex(n.value, st)
            idx = self.index(n.slice, st)
            if isinstance(base, (tuple, list)) and isinstance(idx, Rat) and idx.isconst():
                c = idx.constval()
                if c.denominator == 1 and -len(base) <= c < len(base):
                    return base[int(c)]
            sname = '%s[%s]' % (self.base_text(base), self.idx_text(idx))
            if sname in st.env:
                return st.env[sname]
            return Rat.atom(sname)
        if isinstance(n, ast.Call):
            return self.call(n, st)
        if isinstance(n, ast.JoinedStr):
            return Rat.atom('fstr<%s>' % ast.unparse(n))
        if isinstance(n, (ast.ListComp, ast.GeneratorExp, ast.SetComp, ast.DictComp)):
            return Rat.atom('comp<%s>' % self.text(n, st))
        if isinstance(n, ast.Dict):
            return Rat.atom('dict<%s>' % ast.unparse(n))
        if isinstance(n, ast.Set):
            return [self.ex(e, st) for e in n.elts]
        if isinstance(n, ast.Starred):
            return self.ex(n.value, st)
        if isinstance(n, ast.Slice):
            return self.index(n, st)
        raise shape_error('expression kind %s not modelled' % type(n).__name__, self._where(n))

    def text(self, n, st):
        """canonical text of a node the engine does not model, with locals substituted"""
        class Sub(ast.NodeTransformer):
            def visit_Name(s, node):
                v = st.env.get(node.id)
                if v is not None and isinstance(node.ctx, ast.Load):
                    return ast.Name(id='{%s}' % vrepr(v), ctx=ast.Load())
                return node
        import copy
        try:
            return ast.unparse(Sub().visit(copy.deepcopy(n)))
        except Exception:
            return ast.dump(n)

    def base_text(self, v):
        if isinstance(v, Rat):
            a = v.single_atom()
            return a if a is not None else '(%r)' % v
        return vrepr(v)

    def index(self, s, st):
        if isinstance(s, ast.Slice):
            lo = self.canon(self.ex(s.lower, st)) if s.lower is not None else ''
            hi = self.canon(self.ex(s.upper, st)) if s.upper is not None else ''
            stp = (':' + self.canon(self.ex(s.step, st))) if s.step is not None else ''
            return '%s:%s%s' % (lo, hi, stp)
        if isinstance(s, ast.Tuple):
            if any(isinstance(e, ast.Slice) for e in s.elts):
                return ', '.join(self.canon(self.index(e, st)) if not isinstance(e, ast.Slice) else self.index(e, st)
                                 for e in s.elts)
            return tuple(self.ex(e, st) for e in s.elts)
        return self.ex(s, st)

    def idx_text(self, idx):
        if isinstance(idx, str):
            return idx
        if isinstance(idx, tuple):
            return ', '.join(self.canon(x) for x in idx)
        return self.canon(idx)

    def sqrt(self, a):
        if isinstance(a, Rat):
            red = self.rel.reduce_poly(a.n)
            a2 = Rat(red.n, red.d * a.d)
            if a2.isconst():
                c = a2.constval()
                if c >= 0:
                    import math
                    rn, rd = math.isqrt(c.numerator), math.isqrt(c.denominator)
                    if rn * rn == c.numerator and rd * rd == c.denominator:
                        return Rat.const(Fraction(rn, rd))
            name = 'sqrt(%r)' % a2
            self.rel.square[name] = a2
            return Rat.atom(name)
        return Rat.atom('sqrt(%s)' % vrepr(a))

    def call(self, n, st):
        fn = n.func
        args = [self.ex(a, st) for a in n.args]
        kwargs = {k.arg: self.ex(k.value, st) for k in n.keywords if k.arg}
        # plain name calls
        fname = None
        recv = None
        if isinstance(fn, ast.Name):
            fname = fn.id
            if fname in st.env and isinstance(st.env[fname], LambdaV):
                return self.apply_lambda(st.env[fname], args, st)
            if fname in st.env and isinstance(st.env[fname], Rat) and st.env[fname].single_atom():
                alias = st.env[fname].single_atom()       # a callable passed as data, e.g. math.sqrt
                if alias.startswith('math.') and alias[5:] in MATH_FUNCS:
                    fname = alias[5:]
                elif re.match(r'^[\w.]+$', alias):
                    fname = alias
        elif isinstance(fn, ast.Attribute):
            if isinstance(fn.value, ast.Name) and fn.value.id in ('math', 'np', 'numpy') and \
                    fn.value.id not in st.env:
                fname = fn.attr if fn.attr in MATH_FUNCS or fn.value.id == 'math' else None
                if fname is None:
                    fname = 'np.' + fn.attr
            else:
                recv = self.ex(fn.value, st)
        a0 = args[0] if args else None
        if fname is not None and recv is None:
            if fname == 'sqrt' and len(args) == 1:
                return self.sqrt(a0)
            if fname in ('fabs', 'abs') and len(args) == 1 and isinstance(a0, Rat):
                if a0.isconst():
                    return Rat.const(abs(a0.constval()))
                name = 'abs(%r)' % a0
                alt = 'abs(%r)' % (-a0)
                if alt in self.rel.square:
                    name = alt
                self.rel.square[name] = a0 * a0
                return Rat.atom(name)
            if fname == 'float' and len(args) == 1:
                return a0 if isinstance(a0, Rat) else Rat.atom('float(%s)' % vrepr(a0))
            if fname == 'pow' and len(args) == 2 and isinstance(args[1], Rat) and args[1].isconst() \
                    and args[1].constval().denominator == 1 and isinstance(a0, Rat):
                return a0 ** int(args[1].constval())
            if fname in ('sin', 'cos') and len(args) == 1:
                t = self.canon(a0)
                name = '%s(%s)' % (fname, t)
                if fname == 'cos':
                    self.rel.cos2[name] = 'sin(%s)' % t
                return Rat.atom(name)
            if fname in ('min', 'max') and len(args) >= 2:
                if all(isinstance(a, Rat) and a.isconst() for a in args):
                    f = min if fname == 'min' else max
                    return Rat.const(f(a.constval() for a in args))
                return Rat.atom('%s(%s)' % (fname, ', '.join(sorted(self.canon(a) for a in args))))
            if fname == 'len' and len(args) == 1 and isinstance(a0, (list, tuple)):
                return Rat.const(len(a0))
            if fname in ('int', 'floor') and len(args) == 1:
                if isinstance(a0, Rat) and a0.isconst():
                    import math
                    c = a0.constval()
                    return Rat.const(math.floor(c) if fname == 'floor' or c >= 0 else -math.floor(-c))
                return Rat.atom('%s(%s)' % (fname, self.canon(a0)))
            if fname == 'list' and not args:
                return []
            if fname in ('list', 'tuple') and len(args) == 1 and isinstance(a0, (list, tuple)):
                return list(a0) if fname == 'list' else tuple(a0)
            if fname in self.inline:
                v = self.inline_call(self.inline[fname], args, kwargs, st)
                if v is not None:
                    return v
            text = '%s(%s)' % (fname, self.argtext(args, kwargs))
        else:
            if recv is None:
                recv = self.ex(fn.value, st) if isinstance(fn, ast.Attribute) else self.ex(fn, st)
            if isinstance(fn, ast.Attribute):
                if isinstance(recv, list) and fn.attr == 'append' and len(args) == 1:
                    new = list(recv) + [args[0]]
                    for k, v in list(st.env.items()):
                        if v is recv:
                            st.env[k] = new
                    self.seq += 1
                    st.events.append(Event('call', name='append', recv=recv, args=args, kwargs={}, node=n,
                                           conds=tuple(st.conds), loops=tuple(st.loops), seq=self.seq, value='<list>.append'))
                    return None
                text = '%s.%s(%s)' % (self.base_text(recv), fn.attr, self.argtext(args, kwargs))
                if fn.attr == 'pop' and not args and not kwargs:
                    # successive pops of one stack are different values
                    k = sum(1 for e in st.events if e.kind == 'call' and e.name == 'pop' and isinstance(e.value, str) and
                            (e.value == text or e.value.startswith(text + '#')))
                    if k:
                        text = '%s#%d' % (text, k)
            else:
                text = '%s(%s)' % (self.base_text(recv), self.argtext(args, kwargs))
        self.seq += 1
        st.events.append(Event('call', name=(fname if recv is None else
                                             (fn.attr if isinstance(fn, ast.Attribute) else '?')),
                               recv=recv, args=args, kwargs=kwargs, node=n,
                               conds=tuple(st.conds), loops=tuple(st.loops), seq=self.seq,
                               value=text))
        return Rat.atom(text)

    def argtext(self, args, kwargs):
        parts = [self.canon(a) for a in args]
        parts += ['%s=%s' % (k, self.canon(v)) for k, v in sorted(kwargs.items())]
        return ', '.join(parts)

    def apply_lambda(self, lam, args, st):
        env = dict(lam.env)
        params = [a.arg for a in lam.node.args.args]
        if len(params) != len(args):
            return Rat.atom('<lambda>(%s)' % self.argtext(args, {}))
        for p, a in zip(params, args):
            env[p] = a
        sub = State(env, st.conds, st.events, st.loops)
        return self.ex(lam.node.body, sub)

    def inline_call(self, finfo, args, kwargs, st):
        """single-return-path callee -> its value; otherwise None (opaque)"""
        outs = self.callee_paths(finfo, args, kwargs)
        rets = [o for o in outs if o.kind == 'return']
        if len(rets) == 1 and all(o.kind in ('return', 'raise') for o in outs):
            return rets[0].value
        return None

    def callee_paths(self, finfo, args, kwargs, base_conds=None):
        params = finfo.params
        if finfo.cls is not None and params and params[0] == 'self':
            params = params[1:]
        env = {}
        defaults = finfo.node.args.defaults
        allp = [a.arg for a in finfo.node.args.args]
        for i, d in enumerate(defaults):
            pname = allp[len(allp) - len(defaults) + i]
            try:
                env[pname] = self.ex(d, State())
            except Exception:
                pass
        for p, a in zip(params, args):
            env[p] = a
        for k, v in kwargs.items():
            env[k] = v
        sub = Walker(finfo, self.loop_mode, self.inline, self.global_lookup, self.rel,
                     self.assign_events)
        sub.fresh = self.fresh + 1000
        st0 = State(env, list(base_conds or []))
        return list(sub.run(finfo.node.body, st0))

    # ---- conditions ------------------------------------------------------
    def cond_as_num(self, c):
        if c.is_const():
            return Rat.const(1 if c.op else 0)
        return Rat.atom('ind(%r)' % (c,))

    def cond(self, n, st):
        if isinstance(n, ast.BoolOp):
            items = [self.cond(v, st) for v in n.values]
            isand = isinstance(n.op, ast.And)
            flat = []
            for c in items:
                if c.is_const():
                    if c.op != isand:
                        return Cond.const(c.op)
                    continue
                flat.append(c)
            if not flat:
                return Cond.const(isand)
            if len(flat) == 1:
                return flat[0]
            return Cond('and' if isand else 'or', items=flat)
        if isinstance(n, ast.UnaryOp) and isinstance(n.op, ast.Not):
            return self.cond(n.operand, st).negate()
        if isinstance(n, ast.Compare):
            left = self.ex(n.left, st)
            out = []
            for op, cmpn in zip(n.ops, n.comparators):
                right = self.ex(cmpn, st)
                out.append(self.compare(left, op, right))
                left = right
            if len(out) == 1:
                return out[0]
            return self.cond_and(out)
        v = self.ex(n, st)
        if isinstance(v, Cond):
            return v
        if isinstance(v, Rat):
            if v.isconst():
                return Cond.const(v.constval() != 0)
            a = v.single_atom()
            if a is not None and (a.startswith('isnan(') or '.isnan(' in a or a.startswith('np.isnan(')):
                return Cond('opaque', text=a)
            return Cond('truth', a=v)
        if v is None:
            return Cond.const(False)
        if isinstance(v, (str, list, tuple)):
            return Cond.const(len(v) > 0)
        return Cond('opaque', text=vrepr(v))

    def cond_and(self, items):
        flat = []
        for c in items:
            if c.is_const():
                if not c.op:
                    return Cond.const(False)
                continue
            flat.append(c)
        if not flat:
            return Cond.const(True)
        if len(flat) == 1:
            return flat[0]
        return Cond('and', items=flat)

    def compare(self, a, op, b):
        if isinstance(a, Cond):
            a = self.cond_as_num(a)
        if isinstance(b, Cond):
            b = self.cond_as_num(b)
        t = type(op)
        if t in (ast.In, ast.NotIn):
            items = b if isinstance(b, (list, tuple)) else None
            if items is None:
                c = Cond('opaque', text='%s in %s' % (vrepr(a), vrepr(b)))
            else:
                consts = all(self._isconstv(x) for x in items) and self._isconstv(a)
                if consts:
                    c = Cond.const(any(self._eqconst(a, x) for x in items))
                else:
                    c = Cond('in', a=a, items=list(items))
            return c.negate() if t is ast.NotIn else c
        if t in (ast.Is, ast.Eq):
            opn = '=='
        elif t in (ast.IsNot, ast.NotEq):
            opn = '!='
        elif t is ast.Lt:
            opn = '<'
        elif t is ast.LtE:
            opn = '<='
        elif t is ast.Gt:
            opn, a, b = '<', b, a
        elif t is ast.GtE:
            opn, a, b = '<=', b, a
        else:
            return Cond('opaque', text='%s %s %s' % (vrepr(a), t.__name__, vrepr(b)))
        # constant folding
        if isinstance(a, Rat) and isinstance(b, Rat):
            d = a - b
            red = self.rel.reduce_poly(d.n)
            if red.n.iszero():
                return Cond.const(opn in ('==', '<='))
            if d.isconst():
                c = d.constval()
                return Cond.const({'==': c == 0, '!=': c != 0, '<': c < 0, '<=': c <= 0}[opn])
        elif self._isconstv(a) and self._isconstv(b) and opn in ('==', '!='):
            eq = self._eqconst(a, b)
            return Cond.const(eq if opn == '==' else not eq)
        return Cond('cmp', opn, a, b)

    @staticmethod
    def _isconstv(v):
        if isinstance(v, Rat):
            return v.isconst()
        return v is None or isinstance(v, str)

    @staticmethod
    def _eqconst(a, b):
        if isinstance(a, Rat) and isinstance(b, Rat):
            return a.constval() == b.constval()
        if isinstance(a, Rat) or isinstance(b, Rat):
            return False
        return a == b

    # ---- statements ------------------------------------------------------
    def _where(self, n):
        if self.func is not None:
            return self.func.loc(n)
        return 'line %s' % getattr(n, 'lineno', '?')

    def run(self, stmts, st=None):
        """generate Outcome objects for every structured path through stmts"""
        if st is None:
            st = State()
        yield from self._block(list(stmts), st)

    def _count(self):
        self.npaths += 1
        if self.npaths > MAX_PATHS:
            raise shape_error('more than %d paths in %s' % (MAX_PATHS, self.func.qual if self.func else '?'))

    def _block(self, stmts, st):
        if not stmts:
            self._count()
            yield Outcome('fall', st)
            return
        first, rest = stmts[0], stmts[1:]
        for o in self._stmt(first, st):
            if o.kind == 'fall':
                yield from self._block(rest, o.state)
            else:
                yield o

    def assigned_names(self, nodes):
        names = set()
        for node in nodes:
            for n in ast.walk(node):
                if isinstance(n, ast.Name) and isinstance(n.ctx, (ast.Store, ast.Del)):
                    names.add(n.id)
                if isinstance(n, ast.Call) and isinstance(n.func, ast.Attribute) and isinstance(n.func.value, ast.Name) \
                        and n.func.attr in ('append', 'extend', 'insert', 'remove', 'pop', 'sort', 'reverse', 'clear', 'add', 'update'):
                    names.add(n.func.value.id)
        return names

    def bind(self, target, value, st, node, aug=None):
        if isinstance(target, ast.Name):
            if isinstance(value, Rat) and (value.single_atom() or '').startswith(('np.zeros(', 'np.ones(', 'np.full(',
                                                                                  'np.empty(')) and aug is None:
                # freshly allocated arrays stand for themselves (reads are spelled NAME[...])
                defs = dict(st.env.get('__defs__', {}))
                defs[target.id] = value.single_atom()
                st.env['__defs__'] = defs
                value = Rat.atom(target.id)
            st.env[target.id] = value
            if self.assign_events:
                self.seq += 1
                st.events.append(Event('assign', name=target.id, value=value, node=node,
                                       conds=tuple(st.conds), loops=tuple(st.loops), aug=aug,
                                       seq=self.seq))
        elif isinstance(target, (ast.Tuple, ast.List)):
            if isinstance(value, (tuple, list)) and len(value) == len(target.elts):
                for t, v in zip(target.elts, value):
                    self.bind(t, v, st, node)
            else:
                base = self.base_text(value) if isinstance(value, Rat) else vrepr(value)
                for i, t in enumerate(target.elts):
                    self.bind(t, Rat.atom('%s[%d]' % (base, i)), st, node)
        elif isinstance(target, ast.Subscript):
            base = self.ex(target.value, st)
            idx = self.index(target.slice, st)
            self.seq += 1
            if isinstance(base, Rat):
                bt = self.base_text(base)
                for k in [k for k in st.env if isinstance(k, str) and k.startswith(bt + '[')]:
                    del st.env[k]
                if aug is None:
                    st.env['%s[%s]' % (bt, self.idx_text(idx))] = value
            st.events.append(Event('store', name=self.base_text(base), index=idx, value=value,
                                   node=node, conds=tuple(st.conds), loops=tuple(st.loops), aug=aug,
                                   recv=base, seq=self.seq))
        elif isinstance(target, ast.Attribute):
            base = self.ex(target.value, st)
            self.seq += 1
            if isinstance(base, Rat) and base.single_atom() is not None and aug is None:
                st.env[self.base_text(base) + '.' + target.attr] = value
            else:
                st.env.pop(self.base_text(base) + '.' + target.attr, None)
            st.events.append(Event('store', name=self.base_text(base) + '.' + target.attr,
                                   index=target.attr, value=value, node=node,
                                   conds=tuple(st.conds), loops=tuple(st.loops), aug=aug, recv=base,
                                   seq=self.seq))
        elif isinstance(target, ast.Starred):
            self.bind(target.value, Rat.atom('star<%s>' % vrepr(value)), st, node)
        else:
            raise shape_error('assignment target %s not modelled' % type(target).__name__, self._where(node))

    def _stmt(self, s, st):
        if isinstance(s, (ast.Assign, ast.Expr, ast.Return)) and isinstance(s.value, ast.Call):
            fi = self._helper_for(s.value, st)
            if fi is not None:
                for kind, st2, v in self._inline_helper(fi, s.value, st):
                    if kind == 'raise':
                        yield Outcome('raise', st2, None, v)
                    elif isinstance(s, ast.Assign):
                        for t in s.targets:
                            self.bind(t, v if v is not None else Rat.atom('None'), st2, s)
                        yield Outcome('fall', st2)
                    elif isinstance(s, ast.Return):
                        self._count()
                        yield Outcome('return', st2, v, s)
                    else:
                        yield Outcome('fall', st2)
                return
        if isinstance(s, ast.Assign):
            # top-level inlinable call / ternary: fork
            forks = self._fork_value(s.value, st)
            if forks is not None:
                for st2, v in forks:
                    for t in s.targets:
                        self.bind(t, v, st2, s)
                    yield Outcome('fall', st2)
                return
            v = self.ex(s.value, st)
            for t in s.targets:
                self.bind(t, v, st, s)
            yield Outcome('fall', st)
        elif isinstance(s, ast.AnnAssign):
            if s.value is not None:
                self.bind(s.target, self.ex(s.value, st), st, s)
            yield Outcome('fall', st)
        elif isinstance(s, ast.AugAssign):
            cur = self.ex(self._as_load(s.target), st)
            v = self.ex(s.value, st)
            opname = type(s.op).__name__
            if isinstance(cur, Rat) and isinstance(v, Rat) and type(s.op) in _BIN and \
                    not (isinstance(s.op, ast.Div) and v.n.iszero()):
                if isinstance(s.op, ast.Div) and not v.isconst():
                    self.seq += 1
                    st.events.append(Event('div', name=self.canon(v), value=v, node=s, conds=tuple(st.conds),
                                           loops=tuple(st.loops), seq=self.seq))
                new = _BIN[type(s.op)](cur, v)
            elif isinstance(cur, Rat) and isinstance(v, Rat) and isinstance(s.op, ast.Pow) and \
                    v.isconst() and v.constval().denominator == 1 and 0 <= v.constval() <= 12:
                new = cur ** int(v.constval())
            elif isinstance(cur, (list, tuple)) and isinstance(v, (list, tuple)) and isinstance(s.op, ast.Add):
                new = type(cur)(list(cur) + list(v))
            else:
                new = Rat.atom('(%s %s %s)' % (vrepr(cur), opname, vrepr(v)))
            if isinstance(s.target, ast.Name):
                self.bind(s.target, new, st, s, aug=opname)
            else:
                # store events carry the increment, not the new value; the forwarded content is the new value
                self.bind(s.target, v, st, s, aug=opname)
                if isinstance(s.target, ast.Subscript) and isinstance(new, Rat) and not (new.single_atom() or '').startswith('('):
                    base = self.ex(s.target.value, st)
                    if isinstance(base, Rat):
                        st.env['%s[%s]' % (self.base_text(base), self.idx_text(self.index(s.target.slice, st)))] = new
            yield Outcome('fall', st)
        elif isinstance(s, ast.Expr):
            if isinstance(s.value, ast.Constant):
                yield Outcome('fall', st)
                return
            self.ex(s.value, st)
            yield Outcome('fall', st)
        elif isinstance(s, ast.Return):
            if s.value is not None:
                forks = self._fork_value(s.value, st)
                if forks is not None:
                    for st2, v in forks:
                        self._count()
                        yield Outcome('return', st2, v, s)
                    return
            v = self.ex(s.value, st) if s.value is not None else None
            self._count()
            yield Outcome('return', st, v, s)
        elif isinstance(s, ast.Raise):
            self._count()
            yield Outcome('raise', st, None, s)
        elif isinstance(s, ast.Break):
            self._count()
            yield Outcome('break', st, None, s)
        elif isinstance(s, ast.Continue):
            self._count()
            yield Outcome('continue', st, None, s)
        elif isinstance(s, (ast.Pass, ast.Global, ast.Nonlocal, ast.Import, ast.ImportFrom)):
            yield Outcome('fall', st)
        elif isinstance(s, ast.Assert):
            c = self.cond(s.test, st)
            if not c.is_const():
                st.conds.append((c, s.test))
            yield Outcome('fall', st)
        elif isinstance(s, ast.Delete):
            for t in s.targets:
                if isinstance(t, ast.Subscript):
                    base = self.ex(t.value, st)
                    idx = self.index(t.slice, st)
                    self.seq += 1
                    st.events.append(Event('del', name=self.base_text(base), index=idx, node=s,
                                           conds=tuple(st.conds), loops=tuple(st.loops), recv=base,
                                           seq=self.seq))
                elif isinstance(t, ast.Name):
                    st.env.pop(t.id, None)
            yield Outcome('fall', st)
        elif isinstance(s, ast.If):
            c = self.cond(s.test, st)
            if c.is_const():
                yield from self._block(s.body if c.op else s.orelse, st)
                return
            st_t = st.fork()
            st_t.conds.append((c, s.test))
            self._apply_equalities(c, st_t)
            yield from self._block(s.body, st_t)
            st_f = st
            nc = c.negate()
            st_f.conds.append((nc, s.test))
            self._apply_equalities(nc, st_f)
            yield from self._block(s.orelse, st_f)
        elif isinstance(s, (ast.For, ast.While)):
            yield from self._loop(s, st)
        elif isinstance(s, ast.With):
            for item in s.items:
                v = self.ex(item.context_expr, st)
                if item.optional_vars is not None:
                    self.bind(item.optional_vars, v, st, s)
            yield from self._block(s.body, st)
        elif isinstance(s, ast.Try):
            # normal path: body, else, finally ; exceptional paths: each handler from the entry state
            st_exc = [st.fork() for _ in s.handlers]
            for o in self._block(s.body + s.orelse, st):
                if o.kind == 'fall' and s.finalbody:
                    yield from self._block(s.finalbody, o.state)
                else:
                    yield o
            for h, sth in zip(s.handlers, st_exc):
                for name in self.assigned_names(s.body):
                    sth.env[name] = self.new_atom(name)
                sth.conds.append((Cond('opaque', text='except %s' % (ast.unparse(h.type) if h.type else '')), h))
                for o in self._block(h.body, sth):
                    if o.kind == 'fall' and s.finalbody:
                        yield from self._block(s.finalbody, o.state)
                    else:
                        yield o
        elif isinstance(s, (ast.FunctionDef, ast.ClassDef, ast.AsyncFunctionDef)):
            yield Outcome('fall', st)
        else:
            raise shape_error('statement kind %s not modelled' % type(s).__name__, self._where(s))

    def _as_load(self, t):
        import copy
        t2 = copy.deepcopy(t)
        for n in ast.walk(t2):
            if hasattr(n, 'ctx'):
                n.ctx = ast.Load()
        return t2

    def _apply_equalities(self, c, st):
        """branch condition `name == const` -> substitute on that branch;
        `linear expression == 0` -> solve for one atom and substitute"""
        for cj in c.conjuncts():
            if cj.kind == 'cmp' and cj.op == '==' and isinstance(cj.a, Rat) and isinstance(cj.b, Rat) \
                    and not (cj.a.single_atom() and cj.b.isconst()) and not (cj.b.single_atom() and cj.a.isconst()):
                d = cj.a - cj.b
                if d.ispoly() and self.solve_eq:
                    for t in sorted(d.n.atoms()):
                        if d.n.degree_in(t) == 1:
                            co = d.n.coeff(t, 1)
                            if co.isconst():
                                restp = d.n.coeff(t, 0)
                                sol = Rat(-restp) / Rat(co)
                                for k, v in list(st.env.items()):
                                    if isinstance(v, Rat) and t in v.atoms():
                                        st.env[k] = v.subst(t, sol)
                                    elif isinstance(v, (list, tuple)):
                                        st.env[k] = type(v)(x.subst(t, sol) if isinstance(x, Rat) and t in x.atoms() else x for x in v)
                                st.env.setdefault('__eqs__', [])
                                st.env['__eqs__'] = st.env['__eqs__'] + [(t, sol)]
                                break
                continue
            if cj.kind == 'cmp' and cj.op == '==':
                for x, y in ((cj.a, cj.b), (cj.b, cj.a)):
                    if isinstance(x, Rat) and isinstance(y, Rat) and y.isconst():
                        a = x.single_atom()
                        if a is not None:
                            for k, v in list(st.env.items()):
                                if isinstance(v, Rat) and a in v.atoms():
                                    try:
                                        st.env[k] = v.subst(a, y)
                                    except ZeroDivisionError:
                                        pass
                            if a.isidentifier() and a not in st.env:
                                st.env[a] = y
                            break

    def _fork_value(self, vnode, st):
        """Assign/Return whose value is a ternary or an inlinable multi-path call: fork paths"""
        if isinstance(vnode, ast.IfExp):
            c = self.cond(vnode.test, st)
            if c.is_const():
                return None
            st_t = st.fork()
            st_t.conds.append((c, vnode.test))
            st_f = st
            st_f.conds.append((c.negate(), vnode.test))
            return [(st_t, self.ex(vnode.body, st_t)), (st_f, self.ex(vnode.orelse, st_f))]
        if isinstance(vnode, ast.Call) and isinstance(vnode.func, ast.Name) and vnode.func.id in self.inline \
                and vnode.func.id not in st.env:
            finfo = self.inline[vnode.func.id]
            args = [self.ex(a, st) for a in vnode.args]
            kwargs = {k.arg: self.ex(k.value, st) for k in vnode.keywords if k.arg}
            outs = self.callee_paths(finfo, args, kwargs)
            rets = [o for o in outs if o.kind == 'return']
            if not rets:
                return None
            res = []
            for o in rets:
                st2 = st.fork()
                st2.conds.extend(o.state.conds)
                st2.events.extend(o.state.events)
                for c_, _n in o.state.conds:
                    self._apply_equalities(c_, st2)
                res.append((st2, o.value))
            return res
        return None

    def state_before(self, stmts, target, st=None):
        """state reached just before statement `target` (searched through the compound statements of `stmts`), on the
        first normal path; loop bodies are entered with their assigned names unknown.  Aliases and temporaries defined
        before `target` are thus known when a rule walks `target` on its own.  None if `target` is not found."""
        if st is None:
            st = State()
        for i, s in enumerate(stmts):
            if s is target:
                return st
            if any(n is target for n in ast.walk(s)):
                if isinstance(s, (ast.For, ast.While)):
                    for name in sorted(self.assigned_names(s.body)):
                        st.env[name] = self.new_atom(name)
                    if isinstance(s, ast.For):
                        for n in ast.walk(s.target):
                            if isinstance(n, ast.Name):
                                st.env[n.id] = Rat.atom(n.id)
                    r = self.state_before(s.body, target, st)
                    return r if r is not None else self.state_before(s.orelse, target, st)
                if isinstance(s, ast.If):
                    r = self.state_before(s.body, target, st.fork())
                    return r if r is not None else self.state_before(s.orelse, target, st)
                if isinstance(s, ast.With):
                    return self.state_before(s.body, target, st)
                if isinstance(s, ast.Try):
                    return self.state_before(s.body + s.orelse + s.finalbody, target, st)
                return None
            saved = self.loop_mode
            self.loop_mode = 'skip'
            try:
                nxt = [o for o in self._stmt(s, st) if o.kind == 'fall']
            finally:
                self.loop_mode = saved
            if not nxt:
                return None
            st = nxt[0].state
            if len(nxt) > 1:
                # join of the normal paths: a name keeps its value only where all paths agree
                for k in list(st.env):
                    vals = [o.state.env.get(k, None) for o in nxt]
                    if any(vkey(v) != vkey(vals[0]) for v in vals[1:]):
                        if isinstance(k, str) and k.isidentifier():
                            st.env[k] = self.new_atom(k)
                        else:
                            del st.env[k]
                for o in nxt[1:]:
                    for k in o.state.env:
                        if k not in st.env and isinstance(k, str) and k.isidentifier():
                            st.env[k] = self.new_atom(k)
                st.conds = [c for c in st.conds if all(any(c[0].key() == c2[0].key() for c2 in o.state.conds) for o in nxt[1:])]
        return None

    @staticmethod
    def carried(outs, names, mark='@'):
        """names (given the pre-iteration atoms NAME+mark) whose pre-iteration value is read by the walked loop body"""
        def atoms_of(v):
            if isinstance(v, Rat):
                return set(v.atoms())
            if isinstance(v, (list, tuple)):
                out = set()
                for x in v:
                    out |= atoms_of(x)
                return out
            if isinstance(v, Cond):
                out = atoms_of(v.a) | atoms_of(v.b)
                for c in (v.items or []):
                    out |= atoms_of(c)
                return out
            return set()
        seen = set()
        for o in outs:
            for e in o.state.events:
                for v in (e.value, e.index, e.recv, e.args, list((e.kwargs or {}).values())):
                    seen |= atoms_of(v)
            for c, _ in o.state.conds:
                seen |= atoms_of(c)
            for k, v in o.state.env.items():
                if k not in names or not (isinstance(v, Rat) and v.single_atom() == k + mark):
                    seen |= atoms_of(v)
        text = ' '.join(seen)
        return [n for n in names if (n + mark) in seen or (n + mark) in text]

    def comp_info(self, n, st):
        """a one-generator comprehension as the loop it abbreviates: {'var', 'range', 'iter', 'elt', 'ifs'} or None"""
        if not isinstance(n, (ast.ListComp, ast.GeneratorExp)) or len(n.generators) != 1 or not isinstance(n.generators[0].target, ast.Name):
            return None
        g = n.generators[0]
        sub = st.fork()
        info = {'var': g.target.id, 'range': self.range_info(g.iter, sub), 'node': n}
        info['iter'] = self.ex(g.iter, sub) if info['range'] is None else None
        sub.env[g.target.id] = Rat.atom(g.target.id)
        info['ifs'] = [self.cond(c, sub) for c in g.ifs]
        info['elt'] = self.ex(n.elt, sub)
        return info

    # ---- extracted helpers ---------------------------------------------------
    def _helper_for(self, n, st):
        """FuncInfo of a helper unknown on the reference tree that the call `n` resolves to (self.m(...) / m(...)), or None"""
        if not NEW_HELPERS or not isinstance(n, ast.Call) or self.func is None or getattr(self, '_depth', 0) > 3:
            return None
        fn = n.func
        if isinstance(fn, ast.Attribute) and isinstance(fn.value, ast.Name) and fn.value.id == 'self' and self.func.cls is not None:
            v = st.env.get('self')
            if v is not None and not (isinstance(v, Rat) and v.single_atom() == 'self'):
                return None
            return NEW_HELPERS.get((self.func.cls.qual, fn.attr))
        if isinstance(fn, ast.Name) and fn.id not in st.env:
            return NEW_HELPERS.get((self.func.module.name, fn.id))
        return None

    def _inline_helper(self, fi, n, st):
        """walk the body of helper `fi` in place of the call `n`: yields ('fall', state, value) / ('raise', state, node)"""
        args = [self.ex(a, st) for a in n.args]
        kwargs = {k.arg: self.ex(k.value, st) for k in n.keywords if k.arg}
        params = fi.params
        env = {k: v for k, v in st.env.items() if isinstance(k, str) and ('.' in k or '[' in k or k.startswith('__'))}
        if fi.cls is not None and params and params[0] == 'self':
            params = params[1:]
            env['self'] = st.env.get('self', Rat.atom('self'))
        defaults = fi.node.args.defaults
        allp = [a.arg for a in fi.node.args.args]
        for i, d in enumerate(defaults):
            env[allp[len(allp) - len(defaults) + i]] = self.ex(d, State())
        for p_, a in zip(params, args):
            env[p_] = a
        for k, v in kwargs.items():
            env[k] = v
        sub = Walker(fi, self.loop_mode, self.inline, self.global_lookup, self.rel, self.assign_events, solve_eq=self.solve_eq)
        sub._depth = getattr(self, '_depth', 0) + 1
        sub.fresh = self.fresh
        sub.seq = self.seq
        sub.npaths = self.npaths
        st0 = State(env, list(st.conds), list(st.events), list(st.loops))
        body = fi.node.body
        if body and isinstance(body[0], ast.Expr) and isinstance(body[0].value, ast.Constant) and isinstance(body[0].value.value, str):
            body = body[1:]
        outs = list(sub.run(body, st0))
        self.fresh = sub.fresh
        self.seq = sub.seq
        self.npaths = sub.npaths
        for o in outs:
            if o.kind == 'raise':
                yield ('raise', o.state, o.node)
                continue
            st2 = State(dict(st.env), o.state.conds, o.state.events, list(st.loops))
            for k in [k for k in st2.env if isinstance(k, str) and ('.' in k or '[' in k)]:
                del st2.env[k]
            for k, v in o.state.env.items():
                if isinstance(k, str) and ('.' in k or '[' in k or k.startswith('__')):
                    st2.env[k] = v
            # a list argument mutated in place by the helper (append) is seen by the caller
            for p_, a in zip(params, args):
                new = o.state.env.get(p_)
                if isinstance(a, list) and isinstance(new, list) and new is not a:
                    for k, v in list(st2.env.items()):
                        if v is a:
                            st2.env[k] = new
            yield ('fall', st2, o.value if o.kind == 'return' else None)

    # ---- loops ------------------------------------------------------------
    def range_info(self, it, st):
        """for `range(...)`/`enumerate`: (lo, hi, step) values or None"""
        if isinstance(it, ast.Call) and isinstance(it.func, ast.Name) and it.func.id == 'range':
            a = [self.ex(x, st) for x in it.args]
            if len(a) == 1:
                return (Rat.const(0), a[0], Rat.const(1))
            if len(a) == 2:
                return (a[0], a[1], Rat.const(1))
            if len(a) == 3:
                return (a[0], a[1], a[2])
        # reversed(range(lo, hi)) = range(hi - 1, lo - 1, -1) ; range(...)[::-1] likewise (unit step only)
        inner = None
        if isinstance(it, ast.Call) and isinstance(it.func, ast.Name) and it.func.id == 'reversed' and len(it.args) == 1:
            inner = it.args[0]
        elif isinstance(it, ast.Subscript) and isinstance(it.slice, ast.Slice) and it.slice.lower is None and it.slice.upper is None \
                and isinstance(it.slice.step, ast.UnaryOp) and ast.unparse(it.slice.step) == '-1':
            inner = it.value
        if inner is not None:
            r = self.range_info(inner, st)
            if r is not None and isinstance(r[2], Rat) and r[2].isconst() and r[2].constval() == 1:
                return (r[1] - Rat.const(1), r[0] - Rat.const(1), Rat.const(-1))
        return None

    def _loop(self, s, st):
        assigned = self.assigned_names(s.body + s.orelse)
        info = {'node': s, 'kind': 'for' if isinstance(s, ast.For) else 'while'}
        if isinstance(s, ast.For):
            info['range'] = self.range_info(s.iter, st)
            info['iter'] = self.ex(s.iter, st) if info['range'] is None else None
            for n in ast.walk(s.target):
                if isinstance(n, ast.Name):
                    assigned.add(n.id)
        pre_env = dict(st.env)
        info['pre_env'] = pre_env
        if any(isinstance(n, (ast.Attribute, ast.Subscript)) and isinstance(n.ctx, ast.Store) for b in s.body for n in ast.walk(b)):
            for k in [k for k in st.env if isinstance(k, str) and ('.' in k or '[' in k) and not k.startswith('__')]:
                del st.env[k]
        # havoc everything the loop may assign
        for name in sorted(assigned):
            st.env[name] = self.new_atom(name)
        if isinstance(s, ast.For):
            for n in ast.walk(s.target):
                if isinstance(n, ast.Name):
                    st.env[n.id] = Rat.atom(n.id) if n.id not in pre_env or True else st.env[n.id]
        self.seq += 1
        st.events.append(Event('loop', name=info['kind'], node=s, value=info, conds=tuple(st.conds),
                               loops=tuple(st.loops), seq=self.seq))
        if self.loop_mode == 'once':
            inner = st.fork()
            inner.loops.append(info)
            if isinstance(s, ast.While):
                c = self.cond(s.test, inner)
                info['test'] = c
                if not c.is_const():
                    inner.conds.append((c, s.test))
                elif not c.op:
                    inner = None
            if inner is not None:
                nconds = len(inner.conds)
                merged_events = None
                for o in self._block(s.body, inner):
                    if o.kind in ('return', 'raise'):
                        yield o
                    else:
                        # events of body paths are accumulated (union) for the continuation
                        if merged_events is None:
                            merged_events = list(o.state.events)
                        else:
                            seen = {id(e) for e in merged_events}
                            merged_events += [e for e in o.state.events if id(e) not in seen]
                if merged_events is not None:
                    merged_events.sort(key=lambda e: e.seq)
                    st.events[:] = merged_events
        # continuation after the loop: assigned names are unknown again
        for name in sorted(assigned):
            st.env[name] = self.new_atom(name)
        if isinstance(s, ast.While) and not any(isinstance(n, ast.Break) for n in ast.walk(s)):
            c = self.cond(s.test, st)
            if not c.is_const():
                st.conds.append((c.negate(), s.test))
        yield from self._block(s.orelse, st) if s.orelse else iter([Outcome('fall', st)])


def has_cond(conds, pred):
    """does any recorded path condition (or conjunct of one) satisfy pred(Cond)?"""
    for c, _ in conds:
        for cj in c.conjuncts():
            if pred(cj):
                return True
    return False
