"""tlint: repository-specific static analysis for umrlastig/tracklib (see /verif/DESIGN.md)."""
