"""Write-effect summaries (F1).

Abstract locations:
  POS      coordinates of an observation (fields of the *Coords classes, Obs.position)
  TIME     Obs.timestamp (and fields of an ObsTime)
  OBSLIST  identity / membership / order of Track.__POINTS
  AFCOL    values stored in Obs.features
  AFTABLE  the name -> column map of a track / length of Obs.features

A function's summary is the set of locations it may write on objects it did not
create itself, computed bottom-up over the call graph with callees resolved by
method name (class-hierarchy style, all repository methods of that name) to a
fix-point.  Calls on receivers proven *fresh* in the function (results of
`.copy()`, `copy.deepcopy`, constructor calls of repository classes) do not
count.  The analysis is conservative: anything it cannot resolve to a
repository function is assumed effect-free only if it is a builtin / numpy /
math call; unresolved repository-looking calls are reported through
`unresolved`.
"""
import ast

from .loader import mangle

COORD_CLASSES = ('GeoCoords', 'ENUCoords', 'ECEFCoords')
LIST_MUTATORS = {'append', 'insert', 'pop', 'remove', 'sort', 'reverse', 'extend', 'clear', '__setitem__', '__delitem__'}
POINTS = '_Track__POINTS'
AFDICO = '_Track__analyticalFeaturesDico'

# method names too generic to resolve by name: handled by the receiver-text rules below
GENERIC = {'copy', 'append', 'insert', 'pop', 'remove', 'sort', 'reverse', 'extend', 'clear', 'keys', 'values', 'items',
           'get', 'format', 'split', 'strip', 'join', 'replace', 'find', 'index', 'count', 'close', 'write', 'read',
           'plot', 'show', 'size', 'update', 'add', 'setdefault'}


class Effects:
    def __init__(self, prog):
        self.prog = prog
        self.direct = {}          # qual -> set of (loc, node)
        self.calls = {}           # qual -> list of (callee name, node, receiver text, fresh?)
        self.summary = {}
        self._cache = {}
        self.via = {}
        self.fresh = {}
        self.split = {}
        self._scan()
        self._fix()

    # ------------------------------------------------------------------
    def _attr_chain(self, n):
        """[root name, ...attrs]; the root is the variable the access path starts from"""
        m = n
        while True:
            if isinstance(m, ast.Attribute):
                m = m.value
            elif isinstance(m, ast.Subscript):
                m = m.value
            elif isinstance(m, ast.Call) and isinstance(m.func, ast.Attribute):
                m = m.func.value
            else:
                break
        if isinstance(m, ast.Name):
            return [m.id]
        return ['?']

    def _attr_chain_old(self, n):
        parts = []
        while isinstance(n, ast.Attribute):
            parts.append(n.attr)
            n = n.value
        if isinstance(n, ast.Name):
            parts.append(n.id)
        elif isinstance(n, ast.Call):
            parts.append(ast.unparse(n))
        elif isinstance(n, ast.Subscript):
            parts.append(ast.unparse(n))
        else:
            parts.append('?')
        return list(reversed(parts))

    def _loc_of_store(self, fi, tgt):
        """abstract location written by a store to `tgt` (Attribute/Subscript target)"""
        clsname = fi.cls.name if fi.cls is not None else None
        # subscript: look at the base
        if isinstance(tgt, ast.Subscript):
            base = tgt.value
            if isinstance(base, ast.Attribute):
                a = mangle(clsname, base.attr) if clsname else base.attr
                if a == POINTS or base.attr == '_Track__POINTS':
                    return 'OBSLIST'
                if base.attr == 'features':
                    return 'AFCOL'
                if a == AFDICO:
                    return 'AFTABLE'
            return None
        if isinstance(tgt, ast.Attribute):
            a = mangle(clsname, tgt.attr) if clsname else tgt.attr
            if tgt.attr == 'position':
                return 'POS'
            if tgt.attr == 'timestamp':
                return 'TIME'
            if a == POINTS:
                return 'OBSLIST'
            if a == AFDICO:
                return 'AFTABLE'
            if tgt.attr == 'features':
                return 'AFTABLE'
            if clsname in COORD_CLASSES and isinstance(tgt.value, ast.Name) and tgt.value.id == 'self' \
                    and fi.name != '__init__':
                return 'POS'
            if clsname == 'ObsTime' and isinstance(tgt.value, ast.Name) and tgt.value.id == 'self' and \
                    tgt.attr in ('year', 'month', 'day', 'hour', 'min', 'sec', 'ms') and fi.name != '__init__':
                return 'TIME'
        return None

    def _fresh_names(self, fi):
        """locals bound (only) to freshly created objects"""
        fresh = set()
        bound = {}
        classes = {c.name for c in self.prog.classes.values()}
        for n in ast.walk(fi.node):
            if isinstance(n, ast.Assign) and len(n.targets) == 1 and isinstance(n.targets[0], ast.Name):
                bound.setdefault(n.targets[0].id, []).append(n.value)
            elif isinstance(n, (ast.AugAssign, ast.For)) :
                t = n.target
                for m in ast.walk(t):
                    if isinstance(m, ast.Name):
                        bound.setdefault(m.id, []).append(None)
        params = set(fi.params)
        for name, vals in bound.items():
            if name in params:
                continue
            ok = True
            for v in vals:
                if v is None:
                    ok = False
                    break
                if isinstance(v, ast.Call):
                    f = v.func
                    fname = f.id if isinstance(f, ast.Name) else (f.attr if isinstance(f, ast.Attribute) else None)
                    if fname in ('copy', 'deepcopy') or fname in classes:
                        continue
                    if isinstance(f, ast.Attribute) and fname in classes:
                        continue
                ok = False
                break
            if ok:
                fresh.add(name)
        return fresh

    def _virtual_guarded(self, fi):
        """nodes lying under `if <param> == "x"|"y"|"z"|"t"` (or `in [..]`): writes to a *named virtual column*"""
        params = set(fi.params)
        out = set()

        def is_vguard(test):
            for c in ast.walk(test):
                if isinstance(c, ast.Compare) and isinstance(c.left, ast.Name) and c.left.id in params and len(c.ops) == 1:
                    r = c.comparators[0]
                    if isinstance(c.ops[0], ast.Eq) and isinstance(r, ast.Constant) and r.value in ('x', 'y', 'z', 't'):
                        return True
                    if isinstance(c.ops[0], ast.In) and isinstance(r, (ast.List, ast.Tuple)) and r.elts and \
                            all(isinstance(e, ast.Constant) and e.value in ('x', 'y', 'z', 't') for e in r.elts):
                        return True
            return False

        def is_not_vguard(test):
            """`<param> not in [virtual names]` / `not (<param> in [...])`: the complement of a virtual-name guard"""
            if isinstance(test, ast.UnaryOp) and isinstance(test.op, ast.Not):
                return is_vguard(test.operand) and not any(isinstance(c, ast.BoolOp) for c in ast.walk(test.operand))
            if isinstance(test, ast.Compare) and isinstance(test.left, ast.Name) and test.left.id in params and len(test.ops) == 1 \
                    and isinstance(test.ops[0], ast.NotIn):
                r = test.comparators[0]
                return isinstance(r, (ast.List, ast.Tuple)) and bool(r.elts) and all(isinstance(e, ast.Constant) and e.value in ('x', 'y', 'z', 't') for e in r.elts)
            return False

        def leaves(body):
            return bool(body) and isinstance(body[-1], (ast.Return, ast.Raise, ast.Continue, ast.Break))

        def block(stmts, guarded):
            g = guarded
            for st in stmts:
                visit(st, g)
                # after `if name not in [x, y, z, t]: ...; return` the rest of the block runs under a virtual name only
                if isinstance(st, ast.If) and is_not_vguard(st.test) and leaves(st.body) and not st.orelse:
                    g = True

        def visit(node, guarded):
            if guarded:
                out.add(id(node))
            if isinstance(node, ast.If):
                g = guarded or is_vguard(node.test)
                block(node.body, g)
                block(node.orelse, guarded or is_not_vguard(node.test))
                visit(node.test, guarded)
                return
            for fld in ('body', 'orelse', 'finalbody'):
                seq = getattr(node, fld, None)
                if isinstance(seq, list) and seq and isinstance(seq[0], ast.stmt):
                    block(seq, guarded)
            for c in ast.iter_child_nodes(node):
                if not (isinstance(c, ast.stmt) and any(c in (getattr(node, fld, None) or []) for fld in ('body', 'orelse', 'finalbody') if isinstance(getattr(node, fld, None), list))):
                    visit(c, guarded)
        visit(fi.node, False)
        return out

    def _via(self, fi, root):
        """through which object of the function a write goes: its receiver ('self') or another object ('arg')"""
        if fi.cls is not None and root == 'self':
            return 'self'
        if root in fi.params:
            return 'arg'
        return 'self' if (fi.cls is not None and fi.params and fi.params[0] == 'self') else 'arg'

    def _scan(self):
        for q, fi in self.prog.functions.items():
            d = set()
            calls = []
            via = {}
            fresh = self._fresh_names(fi)
            vg = self._virtual_guarded(fi)
            for n in ast.walk(fi.node):
                tgts = []
                if isinstance(n, ast.Assign):
                    tgts = n.targets
                elif isinstance(n, ast.AugAssign):
                    tgts = [n.target]
                elif isinstance(n, ast.Delete):
                    tgts = n.targets
                for t in tgts:
                    for tt in (t.elts if isinstance(t, (ast.Tuple, ast.List)) else [t]):
                        if isinstance(tt, (ast.Attribute, ast.Subscript)):
                            chain = self._attr_chain(tt.value if isinstance(tt, ast.Subscript) else tt)
                            root = chain[0]
                            loc = self._loc_of_store(fi, tt)
                            if loc and root not in fresh:
                                if isinstance(n, ast.Delete) and loc == 'AFCOL':
                                    loc = 'AFTABLE'
                                if id(n) in vg and loc in ('POS', 'TIME'):
                                    loc = 'AFCOL'
                                d.add((loc, n))
                                via[(loc, id(n))] = self._via(fi, root)
                if isinstance(n, ast.Call):
                    f = n.func
                    if isinstance(f, ast.Attribute):
                        recv = ast.unparse(f.value)
                        chain = self._attr_chain(f.value)
                        root = chain[0]
                        isfresh = root in fresh
                        argnames = {m.id for a in list(n.args) + [k.value for k in n.keywords] for m in ast.walk(a)
                                    if isinstance(m, ast.Name)}
                        passes_param = bool(argnames & set(fi.params))
                        # list mutators on known state
                        if f.attr in LIST_MUTATORS and isinstance(f.value, ast.Attribute):
                            a = mangle(fi.cls.name, f.value.attr) if fi.cls else f.value.attr
                            if a == POINTS and not isfresh:
                                d.add(('OBSLIST', n))
                                via[('OBSLIST', id(n))] = self._via(fi, root)
                            if f.value.attr == 'features' and not isfresh:
                                d.add(('AFTABLE', n))
                                via[('AFTABLE', id(n))] = self._via(fi, root)
                        if f.attr in LIST_MUTATORS and isinstance(f.value, ast.Subscript) and \
                                isinstance(f.value.value, ast.Attribute) and f.value.value.attr == 'features' and not isfresh:
                            d.add(('AFCOL', n))
                            via[('AFCOL', id(n))] = self._via(fi, root)
                        argfresh = all((m_.id in fresh) for a in list(n.args) + [k.value for k in n.keywords] for m_ in ast.walk(a)
                                       if isinstance(m_, ast.Name) and m_.id not in ('True', 'False', 'None') and
                                       not (m_.id[:1].isupper()))
                        calls.append((f.attr, n, recv, (isfresh, argfresh, root, sorted(argnames)), id(n) in vg))
                    elif isinstance(f, ast.Name):
                        argnames = {m.id for a in list(n.args) + [k.value for k in n.keywords] for m in ast.walk(a)
                                    if isinstance(m, ast.Name)}
                        argfresh = all((x in fresh) or x[:1].isupper() for x in argnames)
                        calls.append((f.id, n, None, (False, argfresh, None, sorted(argnames)), id(n) in vg))
            self.direct[q] = d
            self.calls[q] = calls
            self.via[q] = via
            self.fresh[q] = fresh

    def _callees(self, name, recv, caller=None):
        key = (name, recv, caller.qual if caller is not None else None)
        c = self._cache.get(key)
        if c is None:
            c = self._callees_uncached(name, recv, caller)
            self._cache[key] = c
        return c

    def _callees_uncached(self, name, recv, caller=None):
        """repository functions a call may reach: by name, narrowed by what the receiver text tells"""
        import re
        if name in GENERIC:
            return []
        out = list(self.prog.by_name.get(name, []))
        if not out:
            return []
        if recv is None:
            # bare call: module-level functions of that name (also `__private` module functions)
            return [fi for fi in out if fi.cls is None]
        guess = None
        if recv == 'self' and caller is not None and caller.cls is not None:
            m = self.prog.method(caller.cls.qual, name)
            subs = [c.methods[name] for c in self.prog.subclasses_of(caller.cls.name) if name in c.methods]
            if m is not None or subs:
                return ([m] if m is not None else []) + subs
            return out
        if recv.endswith('.position') or recv.endswith('.coord') or recv.endswith('.position.copy()'):
            guess = set(COORD_CLASSES)
        elif recv.endswith('.timestamp') or recv.endswith('.timestamp.copy()'):
            guess = {'ObsTime'}
        elif re.search(r'\.getObs\([^()]*\)$', recv) or re.match(r'^(self|track|trace|trk)\[[^\[\],:]+\]$', recv):
            guess = {'Obs'}
        elif re.match(r'^\w+$', recv) and caller is not None:
            # local bound to a constructor call
            classes = {c.name for c in self.prog.classes.values()}
            ctors = set()
            other = False
            for n_ in ast.walk(caller.node):
                if isinstance(n_, ast.Assign) and len(n_.targets) == 1 and isinstance(n_.targets[0], ast.Name) \
                        and n_.targets[0].id == recv:
                    v = n_.value
                    fn = v.func if isinstance(v, ast.Call) else None
                    cn = fn.id if isinstance(fn, ast.Name) else (fn.attr if isinstance(fn, ast.Attribute) else None)
                    if cn in classes:
                        ctors.add(cn)
                    else:
                        other = True
            if ctors and not other:
                guess = ctors
            # annotated parameter
            for a in caller.node.args.args:
                if a.arg == recv and a.annotation is not None:
                    names = {n.id for n in ast.walk(a.annotation) if isinstance(n, ast.Name)} | \
                            {n.value for n in ast.walk(a.annotation) if isinstance(n, ast.Constant) and isinstance(n.value, str)}
                    known = {c.name for c in self.prog.classes.values()} & names
                    if known:
                        guess = known
            if guess is None and caller.cls is not None and caller.cls.name in COORD_CLASSES + ('ObsTime',):
                # inside the value classes, helper objects are values of the same family
                fam = set(COORD_CLASSES) if caller.cls.name in COORD_CLASSES else {'ObsTime'}
                if any(fi.cls is not None and fi.cls.name in fam for fi in out):
                    guess = fam
        if guess is not None:
            return [fi for fi in out if fi.cls is not None and fi.cls.name in guess]
        return out

    def _contrib(self, q, call, summ):
        """effects a call contributes to its caller, as {(loc, via)}"""
        name, node, recv, (recvfresh, argfresh, root, argnames), vguard = call
        caller = self.prog.functions[q]
        out = set()
        for fi in self._callees(name, recv, caller):
            for (loc, v) in summ.get(fi.qual, ()):
                if vguard and loc in ('POS', 'TIME'):
                    loc = 'AFCOL'
                if v == 'self' and recv is not None:
                    if recvfresh:
                        continue
                    out.add((loc, self._via(caller, root)))
                elif v == 'self' and recv is None:
                    # constructor-like / unbound call: receiver effects stay with the callee's own object
                    out.add((loc, 'arg')) if not argfresh else None
                else:
                    if argfresh:
                        continue
                    if 'self' in argnames and caller.cls is not None:
                        out.add((loc, 'self'))
                    elif set(argnames) & set(caller.params):
                        out.add((loc, 'arg'))
                    else:
                        out.add((loc, self._via(caller, '?')))
        return out

    def _fix(self):
        summ = {}
        for q, d in self.direct.items():
            summ[q] = {(loc, self.via[q].get((loc, id(n)), 'self')) for loc, n in d}
        changed = True
        it = 0
        while changed and it < 60:
            changed = False
            it += 1
            for q, calls in self.calls.items():
                cur = summ[q]
                for call in calls:
                    add = self._contrib(q, call, summ) - cur
                    if add:
                        cur |= add
                        changed = True
        self.split = summ
        self.summary = {q: {loc for loc, _ in v} for q, v in summ.items()}

    # ------------------------------------------------------------------
    def effects_of(self, qual):
        return set(self.summary.get(qual, set()))

    def why(self, qual, loc, depth=0, seen=None):
        """a call chain from `qual` to a direct write of `loc` (for the witness)"""
        seen = seen or set()
        if qual in seen or depth > 12:
            return None
        seen.add(qual)
        fi = self.prog.functions.get(qual)
        for l, node in self.direct.get(qual, ()):
            if l == loc:
                return ['%s @%s: %s' % (qual, fi.loc(node) if fi else '?', ast.unparse(node)[:80])]
        for call in self.calls.get(qual, ()):
            name, node, recv, meta, vguard = call
            if not any(l == loc for l, _ in self._contrib(qual, call, self.split)):
                continue
            for cf in self._callees(name, recv, fi):
                if loc in self.summary.get(cf.qual, ()):
                    sub = self.why(cf.qual, loc, depth + 1, seen)
                    if sub:
                        return ['%s @%s: calls %s' % (qual, fi.loc(node) if fi else '?', ast.unparse(node)[:60])] + sub
        return None

    def sites(self, qual, loc):
        """all direct write sites of `loc` reachable from `qual`: list of (site function, node, call chain)"""
        out = []
        seen = set()
        stack = [(qual, [])]
        while stack:
            q, chain = stack.pop()
            if q in seen:
                continue
            seen.add(q)
            fi = self.prog.functions.get(q)
            for l, node in self.direct.get(q, ()):
                if l == loc:
                    out.append((fi, node, chain + ['%s @%s' % (q, fi.loc(node))]))
            for call in self.calls.get(q, ()):
                name, node, recv, meta, vguard = call
                if not any(l == loc for l, _ in self._contrib(q, call, self.split)):
                    continue
                for cf in self._callees(name, recv, fi):
                    if loc in self.summary.get(cf.qual, ()) and cf.qual not in seen:
                        stack.append((cf.qual, chain + ['%s @%s: %s' % (q, fi.loc(node), ast.unparse(node)[:70])]))
        return out
