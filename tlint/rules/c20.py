"""C20 - projecting a point on a polyline (tracklib/util/geometry.py, tracklib/algo/mapping.py)."""
import ast
import itertools

from ..alg import Rat
from ..loader import shape_error, anchor_error
from ..report import weighed
from ..sx import Walker, State, Cond
from .. import orders
from ..util import body_nodocstring, names_stored, unparse

GEO = 'tracklib.util.geometry'
MAP = 'tracklib.algo.mapping'

EXPLANATION = (
    "Static analysis of cartesienne / projection_droite / proj_segment / proj_polyligne and the mapping wrappers: "
    "line coefficients, foot-of-perpendicular identities on every return (with branch equalities substituted), "
    "distance == |query - returned point|, nearest-end-point selection on all orderings, closed inclusion test on "
    "all orderings, co-updated minimum over all segments, degenerate-segment guard on a sign/magnitude lattice, "
    "argument/tuple positions of the wrappers.  Exact polynomial identities, not float behaviour.")
ASSUMPTIONS = [
    "denominators not proven zero on a path are non-zero; floats behave as reals in the identities",
]
TECHNIQUE = "abstract interpretation of the line helpers (cartesienne, dist_point_droite, projection_droite) on 30 segments x 5 points, of proj_segment on 1300 segment / query cases (projected-coordinate magnitudes, centimetre segments, steep and vertical-beyond-end segments) and of the mapOnTrack chain on 62 polyline / query configurations incl. a reference track moved in place (bounded case domains), which decide the clauses; polynomial identity checking on every return path (F2), finite ordering domains (F4), co-update path rule (F6) where the code is in the shape the symbolic reader follows"


def _seg_state():
    seg = [Rat.atom('x1'), Rat.atom('y1'), Rat.atom('x2'), Rat.atom('y2')]
    return seg


def _inline(ctx):
    """helpers walked in place of their calls: the two named ones, and every other loop-free module-level function of the geometry
    module (a refactoring may route the distance through dist_point_droite, or through a helper of its own)"""
    out = {}
    for q, fi in ctx.prog.functions.items():
        if q.startswith(GEO + '.') and fi.cls is None and fi.parent is None and fi.name not in ('proj_segment', 'proj_polyligne') \
                and not any(isinstance(n_, (ast.For, ast.While, ast.Try, ast.With)) for n_ in ast.walk(fi.node)):
            out[fi.name] = fi
    out['cartesienne'] = ctx.prog.func(GEO + '.cartesienne')
    out['projection_droite'] = ctx.prog.func(GEO + '.projection_droite')
    return out


def rule_L(ctx):
    """C20.L line coefficients vanish at both end points"""
    f = ctx.prog.func(GEO + '.cartesienne')
    w = Walker(f, loop_mode='skip')
    outs = [o for o in w.run(body_nodocstring(f), State({f.params[0]: _seg_state()}))]
    rets = [o for o in outs if o.kind == 'return']
    if len(rets) != 1 or not isinstance(rets[0].value, (list, tuple)) or len(rets[0].value) < 3:
        raise shape_error('cartesienne does not return three coefficients on a single path', f.loc())
    a, b, c = rets[0].value[:3]
    x1, y1, x2, y2 = _seg_state()
    for (px, py, nm) in ((x1, y1, 'first'), (x2, y2, 'second')):
        r = a * px + b * py + c
        ctx.check(w.rel.is_zero(r), 'C20.L', f, 'a*x + b*y + c == 0 at the %s end point of the segment' % nm,
                  witness={'residual': repr(r), 'a': repr(a), 'b': repr(b), 'c': repr(c)}, node=rets[0].node,
                  key='line:' + nm)
    # (a, b) is not the null vector for a non-degenerate segment: a^2+b^2 == |segment|^2 up to a constant factor
    n2 = a * a + b * b
    l2 = (x2 - x1) * (x2 - x1) + (y2 - y1) * (y2 - y1)
    ok = False
    if isinstance(n2, Rat) and n2.ispoly() and l2.ispoly() and not n2.n.iszero():
        # proportional with a positive constant
        k1 = next(iter(sorted(n2.n.t.items())))
        k2 = l2.n.t.get(k1[0])
        if k2:
            ratio = k1[1] / k2
            ok = ratio > 0 and w.rel.is_zero(n2 - l2 * Rat.const(ratio))
    ctx.check(ok, 'C20.L', f, '(a,b) is a normal vector of the segment: a^2+b^2 proportional to its squared length',
              witness={'a^2+b^2': repr(n2)}, node=rets[0].node, key='normal')


def _foot_checks(ctx, rule, f, w, a, b, c, x, y, xp, yp, st, node, tag):
    """the two foot-of-perpendicular identities for one return"""
    pathtxt = [repr(cn) for cn, _ in st.conds]
    zdiv = [e for e in st.events if e.kind == 'divzero']
    if zdiv:
        ctx.violation(rule, f, 'no division by a quantity that is zero on this path',
                      {'division': unparse(zdiv[0].node), 'path conditions': pathtxt,
                       'why': 'the branch condition makes the divisor identically zero (vertical segment)'},
                      node=zdiv[0].node, key='divzero:' + tag)
        return
    if not isinstance(xp, Rat) or not isinstance(yp, Rat):
        raise shape_error('projected point is not numeric', f.loc(node))
    r1 = a * xp + b * yp + c
    r2 = (x - xp) * b - (y - yp) * a
    ctx.check(w.rel.is_zero(r1), rule, f, 'returned point lies on the line: a*xp + b*yp + c == 0 [%s]' % tag,
              witness={'residual': repr(w.rel.reduce_poly(r1.n).n)[:300], 'returned point': [repr(xp)[:120], repr(yp)[:120]],
                       'path conditions': pathtxt}, node=node, key='online:' + tag)
    ctx.check(w.rel.is_zero(r2), rule, f,
              'offset query->returned point is normal to the line: (x-xp)*b - (y-yp)*a == 0 [%s]' % tag,
              witness={'residual': repr(w.rel.reduce_poly(r2.n).n)[:300], 'path conditions': pathtxt}, node=node,
              key='normal:' + tag)


def _branch_tag(st):
    eqs = [repr(c) for c, _ in st.conds if c.kind == 'cmp' and c.op == '==']
    return 'branch ' + ' and '.join(eqs) if eqs else 'general branch'


def rule_F(ctx):
    """C20.F foot of the perpendicular on every branch of projection_droite"""
    f = ctx.prog.func(GEO + '.projection_droite')
    w = Walker(f, loop_mode='skip')
    p, xn, yn = f.params[:3]
    a, b, c = Rat.atom('a'), Rat.atom('b'), Rat.atom('c')
    st0 = State({p: [a, b, c], xn: Rat.atom('x'), yn: Rat.atom('y')})
    outs = list(w.run(body_nodocstring(f), st0))
    rets = [o for o in outs if o.kind == 'return']
    if not rets:
        raise shape_error('projection_droite has no return', f.loc())
    for o in rets:
        v = o.value
        if not isinstance(v, (tuple, list)) or len(v) != 2:
            raise shape_error('projection_droite returns something that is not a pair', f.loc(o.node))
        # branch equalities (b == 0) are already substituted in the environment; express a,b,c on this path
        eqs = dict(o.state.env.get('__eqs__', []))
        pa = o.state.env.get('a', a) if False else a
        subs = {}
        for cn, _ in o.state.conds:
            for cj in cn.conjuncts():
                if cj.kind == 'cmp' and cj.op == '==':
                    for u, t in ((cj.a, cj.b), (cj.b, cj.a)):
                        if isinstance(u, Rat) and isinstance(t, Rat) and t.isconst() and u.single_atom() in ('a', 'b', 'c'):
                            subs[u.single_atom()] = t
        A, B, C = (subs.get('a', a), subs.get('b', b), subs.get('c', c))
        _foot_checks(ctx, 'C20.F', f, w, A, B, C, Rat.atom('x'), Rat.atom('y'), v[0], v[1], o.state, o.node,
                     _branch_tag(o.state))


def _proj_segment_paths(ctx):
    f = ctx.prog.func(GEO + '.proj_segment')
    w = Walker(f, loop_mode='skip', inline=_inline(ctx))
    s, xn, yn = f.params[:3]
    st0 = State({s: _seg_state(), xn: Rat.atom('x'), yn: Rat.atom('y')})
    outs = list(w.run(body_nodocstring(f), st0))
    rets = [o for o in outs if o.kind == 'return']
    if not rets:
        raise shape_error('proj_segment has no return', f.loc())
    for o in rets:
        if not isinstance(o.value, (tuple, list)) or len(o.value) != 3:
            raise shape_error('proj_segment must return (distance, x, y)', f.loc(o.node))
    return f, w, rets


def _line_abc(ctx):
    fc = ctx.prog.func(GEO + '.cartesienne')
    w = Walker(fc, loop_mode='skip')
    outs = [o for o in w.run(body_nodocstring(fc), State({fc.params[0]: _seg_state()})) if o.kind == 'return']
    return outs[0].value[:3]


def _is_endpoint(w, px, py, st=None):
    x1, y1, x2, y2 = _seg_state()
    if st is not None:
        x1, y1, x2, y2 = [_apply_path_eqs(v, st) for v in (x1, y1, x2, y2)]
    if isinstance(px, Rat) and isinstance(py, Rat):
        if w.rel.is_zero(px - x1) and w.rel.is_zero(py - y1):
            return 1
        if w.rel.is_zero(px - x2) and w.rel.is_zero(py - y2):
            return 2
    return 0


def _apply_path_eqs(v, st):
    for t, sol in st.env.get('__eqs__', []):
        if isinstance(v, Rat) and t in v.atoms():
            v = v.subst(t, sol)
    return v


def rule_D(ctx):
    """C20.D / C20.F(proj_segment) / C20.E: every return of proj_segment"""
    f, w, rets = _proj_segment_paths(ctx)
    a, b, c = _line_abc(ctx)
    x, y = Rat.atom('x'), Rat.atom('y')
    x1, y1, x2, y2 = _seg_state()
    n_end = n_foot = 0
    for o in rets:
        d, px, py = o.value
        st = o.state
        tag = _branch_tag(st)
        k = _is_endpoint(w, px, py, st)
        pathtxt = [repr(cn) for cn, _ in st.conds]
        if k:
            n_end += 1
            ex, ey = (x1, y1) if k == 1 else (x2, y2)
            ox, oy = (x2, y2) if k == 1 else (x1, y1)
            ex, ey, ox, oy = [_apply_path_eqs(v, st) for v in (ex, ey, ox, oy)]
            if not isinstance(d, Rat):
                raise shape_error('distance not numeric', f.loc(o.node))
            r = d * d - ((x - ex) * (x - ex) + (y - ey) * (y - ey))
            ctx.check(w.rel.is_zero(r), 'C20.D', f,
                      'end-point return: distance^2 == (x-xk)^2 + (y-yk)^2 for the end point returned (k=%d)' % k,
                      witness={'distance^2 - |query - returned point|^2': repr(w.rel.reduce_poly(r.n).n)[:300]},
                      node=o.node, key='enddist:%d' % k)
            # nearest end point: some guard on the path says d_k <= d_other (or <)
            dk = w.sqrt((x - ex) * (x - ex) + (y - ey) * (y - ey))
            do = w.sqrt((x - ox) * (x - ox) + (y - oy) * (y - oy))
            found = False
            wrong = False
            for cn, _ in st.conds:
                for cj in cn.conjuncts():
                    if cj.kind == 'cmp' and cj.op in ('<', '<=') and isinstance(cj.a, Rat) and isinstance(cj.b, Rat):
                        if _same_dist(w, cj.a, dk) and _same_dist(w, cj.b, do):
                            found = True
                        if _same_dist(w, cj.a, do) and _same_dist(w, cj.b, dk) and cj.op == '<':
                            wrong = True
            ctx.check(found and not wrong, 'C20.E', f,
                      'the end point returned is the nearer one: a guard d_k <= d_other holds on this path (k=%d)' % k,
                      witness={'path conditions': pathtxt,
                               'ordering violating it': 'd_other < d_k is compatible with (or implied by) the guards'},
                      node=o.node, key='nearest:%d' % k)
        else:
            n_foot += 1
            _foot_checks(ctx, 'C20.F', f, w, _apply_path_eqs(a, st), _apply_path_eqs(b, st), _apply_path_eqs(c, st),
                         x, y, px, py, st, o.node, 'proj_segment ' + tag)
            if any(e.kind == 'divzero' for e in st.events):
                continue
            if not isinstance(d, Rat):
                raise shape_error('distance not numeric', f.loc(o.node))
            r = d * d - ((x - px) * (x - px) + (y - py) * (y - py))
            ctx.check(w.rel.is_zero(r), 'C20.D', f,
                      'foot return: distance^2 == (x-xp)^2 + (y-yp)^2 [%s]' % tag,
                      witness={'residual': repr(w.rel.reduce_poly(r.n).n)[:300], 'path conditions': pathtxt},
                      node=o.node, key='footdist:' + tag)
    if n_end < 2 or n_foot < 1:
        raise shape_error('proj_segment: expected a foot return and two end-point returns (found %d / %d)'
                          % (n_foot, n_end), f.loc())


def _same_dist(w, u, v):
    if w.rel.is_zero(u - v):
        return True
    # compare squares of non-negative quantities (sqrt atoms)
    return w.rel.is_zero(u * u - v * v) and _nonneg(u) and _nonneg(v)


def _nonneg(r):
    a = r.single_atom() if isinstance(r, Rat) else None
    return a is not None and (a.startswith('sqrt(') or a.startswith('abs('))


def _proj_segment_cases(ctx):
    """proj_segment interpreted on segments of every non-vertical direction (both orders of the end points, horizontal included) and
    queries projecting before the first end, exactly on it, inside, exactly on the second end and beyond it, on the carrier line and on
    both sides of it: the answer is the nearest point of the closed segment with its distance.  (Vertical segments: recorded finding C20.F.)"""
    import math
    from .. import absint
    f = ctx.prog.func(GEO + '.proj_segment')
    run = orders.make_func(f.node, absint.funcs(ctx, GEO, {}))
    bad = []
    n = 0
    # (bases include projected-coordinate magnitudes - Lambert-93 / UTM scale - where a tolerance tied to the coordinates is metres wide;
    #  feet a few centimetres beyond an end belong to the end point)
    DIRS = ((4, 0), (-4, 0), (4, 4), (-4, 4), (4, -4), (-4, -4), (3, 1), (-2, 5), (1, -6), (8, 0.5))
    # (at projected-coordinate magnitudes the segments are also metre-, decimetre- and centimetre-long: what a 1 Hz GPS track of a pedestrian holds)
    SEGS = [((ax, ay), d_) for (ax, ay) in ((1.0, 2.0), (-3.0, 0.5), (652000.0, 6861000.0)) for d_ in DIRS] + \
           [((900000.0, 6400000.0), (dx * sc, dy * sc)) for sc in (0.25, 0.025, 0.0025) for (dx, dy) in DIRS]
    # steep but not vertical segments (an x extent below a micrometre / a micro-degree: a north-bound leg in geographic coordinates), near the origin
    # where the line equation is well conditioned
    SEGS += [((ax, ay), d_) for (ax, ay) in ((1.0, 2.0), (-3.0, 0.5)) for d_ in ((1e-7, 5.0), (-3e-8, -2.0), (5e-7, 0.5), (-2e-9, 4.0))]
    # exactly vertical segments with the query beyond an end and off the carrier line: the nearer end point (queries beside a vertical
    # segment or on its carrier line are the recorded finding C20.F)
    VERT = [((ax, ay), (0.0, dy)) for (ax, ay) in ((10.0, 0.0), (-3.0, 0.5)) for dy in (5.0, -2.5)]
    for (ax, ay), (dx, dy) in SEGS + VERT:
        bx, by = ax + dx, ay + dy
        dx, dy = bx - ax, by - ay               # (the segment as stored: end points rounded to the grid of doubles at that magnitude)
        L = math.hypot(dx, dy)
        ux, uy = dx / L, dy / L
        vertical = dx == 0.0
        for t, off in itertools.product((-0.5, -0.03, 0.0, 0.25, 0.5, 1.0, 1.04, 1.5), (0.0, 1.5, -2.0)):
            if vertical and (0.0 <= t <= 1.0 or off == 0.0):
                continue
            qx, qy = ax + t * dx - off * uy, ay + t * dy + off * ux
            tc = max(0.0, min(1.0, t))
            wx, wy = ax + tc * dx, ay + tc * dy
            wd = math.hypot(qx - wx, qy - wy)
            n += 1
            try:
                got = run([ax, ay, bx, by], qx, qy)
            except orders.Unsupported as ex:
                raise shape_error('proj_segment not interpretable: %s' % ex, f.loc())
            except orders.PROGRAM_ERRORS as ex:
                got = '%s: %s' % (type(ex).__name__, ex)
            slack = 64 * math.ulp(max(1.0, abs(ax), abs(ay)))       # (coordinates of 7e6 carry 1e-9 of rounding each: 6e-8 of slack there, 1.4e-14 near the origin)
            if dx != 0.0 and abs(dy) > abs(dx):
                slack *= abs(dy / dx)                                # (a steep line: y is recovered from x through the slope, which multiplies the rounding)
            ok = isinstance(got, (tuple, list)) and len(got) == 3 and all(isinstance(v, (int, float)) for v in got) and \
                abs(got[0] - wd) <= 1e-9 * max(1.0, wd) + slack and math.hypot(got[1] - wx, got[2] - wy) <= 1e-9 * max(1.0, L) + slack
            if not ok and len(bad) < 3:
                bad.append({'segment': [ax, ay, bx, by], 'query': [qx, qy], 'position of the foot along the segment (0 = first end, 1 = second end)': t,
                            'returned (distance, x, y)': list(got) if isinstance(got, (tuple, list)) else got, 'nearest point of the closed segment': [wx, wy], 'its distance': wd})
    return f, bad, n


def rule_E(ctx):
    """C20.E inclusion test is a closed interval in both orders, for x and y: decided on the return paths of proj_segment when they
    have the shape the symbolic walk understands, and otherwise (helpers, other control flow) by interpreting proj_segment on segments
    of every direction with the foot before / on / between / on / beyond the end points"""
    from ..loader import AnalysisError
    why = None
    try:
        _rule_E_paths(ctx)
    except AnalysisError as e:
        if e.kind != 'shape':
            raise
        why = e.msg
    f, bad, n = _proj_segment_cases(ctx)
    if why is not None:
        ctx.note('C20.E', 'the return paths of proj_segment are not in the shape the symbolic walk reads (%s): decided by interpretation on %d cases' % (why, n))
    ctx.check(not bad, 'C20.E', f, 'proj_segment answers the nearest point of the closed segment (foot inside or on an end point: the foot; otherwise the nearer end), '
              'both orders of the end points, horizontal segments included, on %d interpreted cases' % n, witness={'counter-examples': bad}, node=f.node, key='inclusion-cases')


def _rule_E_paths(ctx):
    from .c03 import cond_eval
    f = ctx.prog.func(GEO + '.proj_segment')
    w = Walker(f, loop_mode='skip', inline={'cartesienne': ctx.prog.func(GEO + '.cartesienne')})
    s, xn, yn = f.params[:3]
    st0 = State({s: _seg_state(), xn: Rat.atom('x'), yn: Rat.atom('y')})
    rets = [o for o in w.run(body_nodocstring(f), st0) if o.kind == 'return']
    if not rets or any(not isinstance(o.value, (tuple, list)) or len(o.value) != 3 for o in rets):
        raise shape_error('proj_segment must return (distance, x, y)', f.loc())
    kinds = [('end' if _is_endpoint(w, o.value[1], o.value[2], o.state) else 'foot') for o in rets]
    if 'end' not in kinds or 'foot' not in kinds:
        raise shape_error('proj_segment: expected a foot return and end-point returns', f.loc())

    def role_of(v):
        a = v.single_atom() if isinstance(v, Rat) else None
        if a is None:
            return None
        if a in ('x1', 'x2', 'y1', 'y2'):
            return a
        if a.startswith('projection_droite(') and a.endswith('[0]'):
            return 'xp'
        if a.startswith('projection_droite(') and a.endswith('[1]'):
            return 'yp'
        return None
    n_incl = 0
    for o in rets:
        for c, _ in o.state.conds:
            n_incl += ('projection_droite(' in repr(c))
    if n_incl == 0:
        raise shape_error('proj_segment: no test on the projected point found', f.loc())
    bad = []
    total = 0
    for ox in orders.weak_orderings(['p', 'a', 'b']):
        for oy in orders.weak_orderings(['p', 'a', 'b']):
            val = {'xp': ox['p'], 'x1': ox['a'], 'x2': ox['b'], 'yp': oy['p'], 'y1': oy['a'], 'y2': oy['b']}

            def oracle(c):
                if c.kind != 'cmp':
                    return None
                ra, rb = role_of(c.a), role_of(c.b)
                if ra is None or rb is None:
                    if 'projection_droite(' in repr(c):
                        raise shape_error('inclusion test not understood: %r' % c, f.loc())
                    return None
                u, v = val[ra], val[rb]
                return {'<': u < v, '<=': u <= v, '==': u == v, '!=': u != v}[c.op]
            feas = set()
            for o, k in zip(rets, kinds):
                if all(cond_eval(c, oracle) is not False for c, _ in o.state.conds):
                    feas.add(k)
            want = (min(ox['a'], ox['b']) <= ox['p'] <= max(ox['a'], ox['b'])) and \
                   (min(oy['a'], oy['b']) <= oy['p'] <= max(oy['a'], oy['b']))
            total += 1
            if len(feas) != 1:
                raise shape_error('proj_segment: the returns are not selected by the inclusion test alone (ordering %s / %s -> %s)'
                                  % (orders.describe(ox), orders.describe(oy), sorted(feas)), f.loc())
            got = feas == {'foot'}
            if got != want and len(bad) < 4:
                bad.append({'x ordering (p=foot,a=x1,b=x2)': orders.describe(ox),
                            'y ordering (p=foot,a=y1,b=y2)': orders.describe(oy),
                            'test says inside': got, 'foot is inside the segment box': want})
    ctx.check(not bad, 'C20.E', f,
              'inclusion test == (min(x1,x2) <= xp <= max(x1,x2)) and (min(y1,y2) <= yp <= max(y1,y2)) on all %d '
              'orderings' % total, witness={'counter-examples': bad}, node=f.node, key='inclusion')


def _resolver(ctx, module, stubs):
    """orders resolver: calls to module-level repository functions of `module` are interpreted (helpers extracted by a refactoring),
    module-level constants are read from the module"""
    from .. import absint
    funcs = absint.funcs(ctx, module, dict(stubs))
    base_resolve = funcs['__resolve__']

    def resolve(call, fname):
        if fname in stubs:
            return stubs[fname]
        if isinstance(call.func, ast.Name):
            fi = ctx.prog.maybe_func(module + '.' + fname)
            if fi is not None and fi.cls is None:
                return orders.make_func(fi.node, funcs)
        return base_resolve(call, fname)
    funcs['__resolve__'] = resolve
    return funcs


class _Witness(Exception):
    def __init__(self, key, desc, wit):
        self.key, self.desc, self.wit = key, desc, wit


def rule_P(ctx):
    """C20.P proj_polyligne = minimum over all non-degenerate segments, with the point and the index of the segment attaining it.

    proj_polyligne depends on its input only through (a) which consecutive vertices coincide, (b) the order of the distances returned
    by proj_segment (an uninterpreted function here) and (c) the positions it reads.  The function body is interpreted (by
    tlint.orders, not executed) on the finite case domain: polylines of 2..5 vertices with at most one repeated vertex, every weak
    ordering of the distances of up to three proper segments, and single segments of every direction of a 6x6 lattice."""
    f = ctx.prog.func(GEO + '.proj_polyligne')
    Xp, Yp, xq, yq = f.params[:4]
    QX, QY = 0.5, 77.0
    cases = 0

    def run(X, Y, rank):
        segs = {(X[k], Y[k], X[k + 1], Y[k + 1]): k for k in range(len(X) - 1)}
        called = []

        def proj_segment(seg, x, y):
            key = tuple(seg) if isinstance(seg, (list, tuple)) else None
            if key not in segs:
                raise _Witness('segargs', 'every segment handed to proj_segment is a pair of consecutive vertices (X[i],Y[i])-(X[i+1],Y[i+1])',
                               {'polyline': list(zip(X, Y)), 'segment passed': list(seg) if key else repr(seg)})
            if (x, y) != (QX, QY):
                raise _Witness('segargs', 'the query point is handed to proj_segment as (x, y)', {'query': [QX, QY], 'passed': [x, y]})
            k = segs[key]
            if (X[k], Y[k]) == (X[k + 1], Y[k + 1]):
                raise _Witness('noskip', 'zero-length segments are skipped before proj_segment is called (it divides by the segment length)',
                               {'polyline': list(zip(X, Y)), 'degenerate segment passed': k})
            called.append(k)
            return (rank[k], 1000 + k, 2000 + k)
        funcs = _resolver(ctx, GEO, {'proj_segment': proj_segment})
        try:
            res = orders.make_func(f.node, funcs)(list(X), list(Y), QX, QY)
        except orders.Unsupported as ex:
            m_ = str(ex)
            if m_.startswith('free name ') and m_[10:] in names_stored(f.node.body):
                raise _Witness('fails', 'proj_polyligne does not fail on a polyline with a proper segment',
                               {'polyline': list(zip(X, Y)), 'exception': 'UnboundLocalError: %s is never assigned (no segment was projected)' % m_[10:]})
            raise shape_error('proj_polyligne not interpretable: %s' % ex, f.loc())
        except (IndexError, KeyError, NameError, TypeError, ZeroDivisionError) as ex:
            raise _Witness('fails', 'proj_polyligne does not fail on a polyline with a proper segment',
                           {'polyline': list(zip(X, Y)), 'exception': '%s: %s' % (type(ex).__name__, ex)})
        return res, called

    def expect(X, Y, rank, res):
        proper = [k for k in range(len(X) - 1) if (X[k], Y[k]) != (X[k + 1], Y[k + 1])]
        m = min(rank[k] for k in proper)
        arg = [k for k in proper if rank[k] == m]
        ok = isinstance(res, tuple) and len(res) == 4 and res[0] == m and any(res[1:] == (1000 + k, 2000 + k, k) for k in arg)
        if not ok:
            got = list(res) if isinstance(res, tuple) else repr(res)
            why = 'distance is not the minimum over the proper segments' if not (isinstance(res, tuple) and len(res) == 4 and res[0] == m) else \
                  'the point / index returned do not belong to the segment attaining the minimum (index must be the position of its first vertex in the polyline)'
            raise _Witness('minimum', 'the result is (min distance, its projected point, index of the segment that carries it)',
                           {'polyline': list(zip(X, Y)), 'distance rank per segment (proper ones)': {k: rank[k] for k in proper},
                            'returned (distance, x, y, index) with x=1000+k, y=2000+k for segment k': got, 'why': why})
    try:
        for n in (2, 3, 4, 5):
            base = [(float(3 * k), float(k * k + 1)) for k in range(n)]
            variants = [base] + [base[:r + 1] + [base[r]] + base[r + 1:n - 1] for r in range(n - 1)] if n >= 3 else [base]
            for pts in variants:
                X, Y = [p_[0] for p_ in pts], [p_[1] for p_ in pts]
                proper = [k for k in range(n - 1) if pts[k] != pts[k + 1]]
                if not proper or len(proper) > 3:
                    continue
                for od in orders.weak_orderings(['s%d' % k for k in proper]):
                    rank = {k: od['s%d' % k] for k in proper}
                    res, _ = run(X, Y, rank)
                    cases += 1
                    expect(X, Y, rank, res)
        L = [-2, -1, 0, 1, 2, 3]
        for dx, dy in itertools.product(L, L):
            if (dx, dy) == (0, 0):
                continue
            X, Y = [10.0, 10.0 + dx], [20.0, 20.0 + dy]
            res, called = run(X, Y, {0: 1})
            cases += 1
            if called != [0]:
                raise _Witness('degenerate', 'a segment is skipped only if it has zero length',
                               {'segment': '(10,20)-(%g,%g)' % (X[1], Y[1]), 'projected': False,
                                'why': 'a proper segment of this direction is treated as degenerate: the nearest point on it is never found'})
            expect(X, Y, {0: 1}, res)
    except _Witness as wt:
        ctx.violation('C20.P', f, wt.desc, wt.wit, node=f.node, key=wt.key)
        return
    ctx.ok('C20.P', f, 'proj_polyligne returns (minimum distance over the proper segments, the projected point and the index of a segment attaining it), '
                       'skips exactly the zero-length segments, passes consecutive vertex pairs and the query in order: %d cases of the finite case domain' % cases,
           node=f.node)
    ctx.extra['C20.P cases'] = cases


def proj_on_track_rule(ctx, rule='C20.W'):
    """the wrapper hands the CURRENT coordinates of the track and of the point to proj_polyligne and returns (point, distance, index)"""
    f = None
    for q, fi in ctx.prog.functions.items():
        if q.startswith(MAP + '.') and fi.name.endswith('projOnTrack'):
            f = fi
    if f is None:
        raise anchor_error('mapping.__projOnTrack not found', MAP)
    w = Walker(f, loop_mode='skip')
    pt, tr = f.params[:2]
    outs = [o for o in w.run(body_nodocstring(f), State()) if o.kind == 'return']
    if not outs:
        raise shape_error('__projOnTrack has no return', f.loc())
    want = ['%s.getX()' % tr, '%s.getY()' % tr, '%s.getX()' % pt, '%s.getY()' % pt]
    for o in outs:
        calls = [e for e in o.state.events if e.kind == 'call' and e.name == 'proj_polyligne']
        if len(calls) != 1:
            raise shape_error('__projOnTrack does not call proj_polyligne once on every path', f.loc())
        c = calls[0]
        got = [a.single_atom() if isinstance(a, Rat) else repr(a) for a in c.args]
        pathtxt = [repr(cn) for cn, _ in o.state.conds]
        if got != want:
            # which coordinates are not read from the arguments in this call?
            fresh = {e.value for e in o.state.events if e.kind == 'call' and e.name in ('getX', 'getY')}
            stale = [g_ for g_, w_ in zip(got, want) if g_ != w_ and (g_ is None or not any(g_ == w2 for w2 in want))]
            understood = all(g_ in want or (g_ or '').startswith(('getattr(', tr + '.', pt + '.')) for g_ in got)
            if not understood:
                raise shape_error('__projOnTrack: arguments of proj_polyligne not understood: %s' % got, f.loc(c.node))
            ctx.violation(rule, f, 'proj_polyligne receives the current vertex coordinates of the track (getX(), getY()) and the point (x, y), in this order',
                          {'arguments': got, 'expected': want, 'path': pathtxt,
                           'why': 'coordinates taken from somewhere else (a stored copy, swapped getters) are not the geometry the caller projects on: '
                                  'after an in-place edit of the geometry the projected point is off the edge'}, node=c.node, key='args')
        else:
            ctx.ok(rule, f, 'proj_polyligne(track X, track Y, point x, point y) in this order, read in this call', node=c.node)
        v = o.value
        res = c.value
        okv = isinstance(v, tuple) and len(v) == 3
        if okv:
            p0 = v[0].single_atom() if isinstance(v[0], Rat) else ''
            okv = p0 is not None and p0.startswith('ENUCoords(%s[1], %s[2]' % (res, res)) and \
                isinstance(v[1], Rat) and v[1].single_atom() == res + '[0]' and \
                isinstance(v[2], Rat) and v[2].single_atom() == res + '[3]'
        ctx.check(okv, rule, f,
                  'returns (ENUCoords(xproj, yproj, .), distance, segment index) = tuple positions (1,2), 0, 3',
                  witness={'returned': [repr(x)[:100] for x in v] if isinstance(v, tuple) else repr(v)}, node=o.node,
                  key='ret')
    return f


def rule_W(ctx):
    """C20.W wrappers pass (X, Y, qx, qy) and return (point, distance, index)"""
    f = proj_on_track_rule(ctx)
    # mapOnTrack: per-observation wiring.  The function only moves values around (no arithmetic on them): interpret it with abstract
    # objects - a track of three observations (two share their X, two share their Y, none coincide) and an uninterpreted projector
    g = ctx.prog.func(MAP + '.mapOnTrack')
    pj_name = f.name

    class Pos(orders.PyStub):
        def __init__(self, x, y):
            self.x, self.y = x, y

        def getX(self):
            return self.x

        def getY(self):
            return self.y

    class Pt(orders.PyStub):
        def __init__(self, tag):
            self.tag = tag

        def copy(self):
            return Pt(self.tag)

        def __eq__(self, o):
            return isinstance(o, Pt) and o.tag == self.tag

        def __repr__(self):
            return 'point%r' % (self.tag[1:],)

    class ObsS(orders.PyStub):
        def __init__(self, position):
            self.position = position

    class Track(orders.PyStub):
        __module__ = 'tracklib.core.track'

        def __init__(self, obs=None):
            self.obs = list(obs or [])
            self.af = {}

        def __len__(self):
            return len(self.obs)

        def size(self):
            return len(self.obs)

        def __getitem__(self, i):
            return self.obs[i]

        def getObs(self, i):
            return self.obs[i]

        def addObs(self, o):
            self.obs.append(o)

        def createAnalyticalFeature(self, name, val=0.0):
            self.af[name] = list(val) if isinstance(val, list) else [val] * len(self.obs)

        def setObsAnalyticalFeature(self, name, i, v):
            self.af[name][i] = v
    Track.__qualname__ = Track.__name__ = 'Track'
    pts = [(1.0, 1.0), (1.0, 2.0), (3.0, 2.0)]
    src = Track([ObsS(Pos(*p_)) for p_ in pts])
    ref = Track()

    def projector(pos, track):
        if not isinstance(pos, Pos) or track is not ref:
            raise _Witness('mapOnTrack', 'each observation position and the reference track are handed to the projector', {'passed': repr(pos)})
        return (Pt(('P', pos.x, pos.y)), ('D', pos.x, pos.y), ('E', pos.x, pos.y))
    funcs = {pj_name: projector, 'Track': lambda *a_: Track(*a_), 'Obs': lambda p_, *a_: ObsS(p_)}
    bad = None
    try:
        out = orders.make_func(g.node, funcs)(src, ref)
        if not isinstance(out, Track) or len(out.obs) != 3 or 'dist' not in out.af or 'edge' not in out.af:
            raise shape_error('mapOnTrack(track, track): result not understood', g.loc())
        for i, p_ in enumerate(pts):
            got = (out.obs[i].position, out.af['dist'][i], out.af['edge'][i])
            want = (Pt(('P',) + p_), ('D',) + p_, ('E',) + p_)
            if got != want and bad is None:
                bad = {'observation': i, 'position': list(p_), 'stored (point, distance, segment index)': repr(got), 'projection of that position': repr(want),
                       'positions of the track': [list(q_) for q_ in pts]}
        single = orders.make_func(g.node, funcs)(Pos(5.0, 6.0), ref)
        if single != (Pt(('P', 5.0, 6.0)), ('D', 5.0, 6.0), ('E', 5.0, 6.0)) and bad is None:
            bad = {'single coordinate': [5.0, 6.0], 'returned': repr(single)}
    except orders.Unsupported as ex:
        raise shape_error('mapOnTrack not interpretable: %s' % ex, g.loc())
    except _Witness as wt:
        bad = wt.wit
    except (IndexError, KeyError, TypeError, AttributeError) as ex:
        bad = {'exception': '%s: %s' % (type(ex).__name__, ex)}
    ctx.check(bad is None, 'C20.W', g, 'mapOnTrack stores, for observation i, the point, distance and segment index of the projection of position i (and returns the projection itself for a single coordinate)',
              witness=bad, node=g.node, key='mapOnTrack')


def rule_M(ctx, rid='C20.M'):
    """C20.M the whole chain mapOnTrack -> __projOnTrack -> proj_polyligne -> proj_segment interpreted on configuration classes of
    (reference polyline, query point): query nearest to the interior of a segment / to a vertex / exactly on a vertex / beyond the first
    or the last vertex / on the polyline; polylines with an acute turn, a repeated vertex, a long segment straddling the query after a
    nearer short one (no exactly vertical segment: that is the recorded finding C20.F)"""
    import math
    from .. import absint
    g = ctx.prog.func(MAP + '.mapOnTrack')

    # positions are the repository's own ENUCoords objects (whose equality has a tolerance)
    class _Lazy:
        cls = None

    def P(x, y, z=0.0):
        return _Lazy.cls(float(x), float(y), float(z))

    def px(p):
        return p.fields['E']

    def py(p):
        return p.fields['N']

    class _LazyO:
        make = None

    def O(position, timestamp=None):
        return _LazyO.make(position, timestamp)       # the repository's own Obs

    class Track(orders.PyStub):
        __module__ = 'tracklib.core.track'
        isa = ('Track',)

        def __init__(self, obs=None, *a, **k):
            self.obs = list(obs or [])
            self.af = {}

        def __len__(self):
            return len(self.obs)

        def size(self):
            return len(self.obs)

        def __getitem__(self, i):
            if isinstance(i, tuple):
                return self.af[i[0]][i[1]]
            if not isinstance(i, int) or not -len(self.obs) <= i < len(self.obs):
                raise IndexError('observation %r of a track of %d' % (i, len(self.obs)))
            return self.obs[i]

        def getObs(self, i):
            return self[i]

        def getX(self):
            return [px(o.fields['position']) for o in self.obs]

        def getY(self):
            return [py(o.fields['position']) for o in self.obs]

        def addObs(self, o):
            self.obs.append(o)

        def createAnalyticalFeature(self, name, val=0.0):
            if name not in self.af:
                self.af[name] = list(val) if isinstance(val, list) else [val] * len(self.obs)

        def setObsAnalyticalFeature(self, name, i, v):
            self.af[name][i] = v

        def getObsAnalyticalFeature(self, name, i):
            return self.af[name][i]
    Track.__qualname__ = Track.__name__ = 'Track'
    fn = absint.funcs(ctx, MAP, {'Track': Track})
    fn['__globals__'].update({'Track': Track})
    _LazyO.make = lambda position, timestamp=None: absint.real_obs(ctx, fn, position, timestamp)
    _Lazy.cls = absint.classref(ctx, 'tracklib.core.obs_coords.ENUCoords', fn)
    fn['sqrt'], fn['hypot'] = math.sqrt, math.hypot
    is_pos = lambda v: isinstance(v, orders.Obj) and 'E' in v.fields and 'N' in v.fields

    def seg_dist(q, a, b):
        dx, dy = b[0] - a[0], b[1] - a[1]
        l2 = dx * dx + dy * dy
        if l2 == 0:
            return math.hypot(q[0] - a[0], q[1] - a[1])
        t = max(0.0, min(1.0, ((q[0] - a[0]) * dx + (q[1] - a[1]) * dy) / l2))
        return math.hypot(q[0] - (a[0] + t * dx), q[1] - (a[1] + t * dy))
    lines = {
        'L-shaped line': [(0, 0), (10, 1), (12, 11)],
        'acute zig-zag': [(0, 0), (10, 2), (1, 4), (11, 6)],
        'line with a repeated vertex': [(0, 0), (6, 1), (6, 1), (12, 0)],
        'a short near segment followed by a long one straddling the query': [(0, 4), (1, 5), (-20, 9), (20, 1.5)],
        'single segment': [(2, 1), (9, 4)],
    }
    queries = {
        'L-shaped line': [(5, 3), (10, 1), (12, 11), (0, 0), (-4, -1), (13, 15), (11, 6), (10.5, 0), (4, -6)],
        'acute zig-zag': [(5, 1), (10, 2), (1, 4), (11, 6), (14, 7), (5.5, 3), (-3, -1), (12, 2.2)],
        'line with a repeated vertex': [(6, 1), (3, 4), (9, -3), (6, 5), (20, -1)],
        'a short near segment followed by a long one straddling the query': [(0.2, 5.3), (0, 5.2), (3, 4.9)],
        'single segment': [(2, 1), (9, 4), (0, 0), (12, 6), (5, 9), (5.5, 2.5)],
    }
    # consecutive fixes with the same easting and another northing (a receiver heading due north, gridded coordinates), and the reverse
    queries['L-shaped line'] += [(5, -2), (5, 6), (7, 6), (7, 6)]
    queries['single segment'] += [(5.5, 7), (3, 7)]
    # consecutive queries closer than the tolerance of the position equality, yet distinct (a receiver creeping along): each has its own projection
    lines['gentle slope (queries 0.05 mm apart)'] = [(0, 0), (10, 0.002), (20, 0.001)]
    queries['gentle slope (queries 0.05 mm apart)'] = [(5, 0.0005), (5.00004, 0.00053), (5.00008, 0.00056), (5.00008, 0.00056), (5.00012, 0.00052)]
    bad = None
    n_cases = 0
    run = orders.make_func(g.node, fn)
    # each polyline is used twice: as given, then moved in place (the same Track object, same number of vertices, other coordinates -
    # what translate / rotate / an edited vertex do): the projection is on the polyline as it is at the time of the call
    refs = {}
    for (lname, pts0), moved in itertools.product(lines.items(), (False, True)):
        if moved and lname not in refs:
            continue
        pts = [(7.0 - 0.6 * y_ + 0.8 * x_, -3.0 + 0.8 * y_ + 0.6 * x_) for x_, y_ in pts0] if moved else list(pts0)
        if moved:
            ref = refs[lname]
            for o_, p_ in zip(ref.obs, pts):
                o_.fields['position'].fields['E'], o_.fields['position'].fields['N'] = float(p_[0]), float(p_[1])
            lname = lname + ' (the same track object after being rotated and translated in place)'
            qs = [(7.0 - 0.6 * y_ + 0.8 * x_, -3.0 + 0.8 * y_ + 0.6 * x_) for x_, y_ in queries[lname.split(' (the same')[0]]]
        else:
            ref = refs[lname] = Track([O(P(p_[0], p_[1], 3.0 * k_)) for k_, p_ in enumerate(pts)])
            qs = queries[lname]
        # (queries and reference vertices carry altitudes - GPS fixes do: the projection, its distance and its segment are planimetric)
        dz = 1e-5 if 'gentle slope' in lname else 1.0          # (the creeping receiver creeps in altitude too)
        src = Track([O(P(q_[0], q_[1], 12.5 + dz * k_)) for k_, q_ in enumerate(qs)])
        try:
            out = run(src, ref)
            singles = [run(P(q_[0], q_[1], 12.5 + dz * k_), ref) for k_, q_ in enumerate(qs)]
        except orders.Unsupported as ex:
            raise shape_error('mapOnTrack not interpretable: %s' % ex, g.loc())
        except orders.PROGRAM_ERRORS as ex:
            bad = bad or {'reference polyline': lname, 'vertices': [list(p_) for p_ in pts], 'queries': [list(q_) for q_ in qs],
                          'exception': '%s: %s' % (type(ex).__name__, str(ex)[:200])}
            continue
        if not isinstance(out, Track) or len(out.obs) != len(qs) or 'dist' not in out.af or 'edge' not in out.af:
            raise shape_error('mapOnTrack(track, track): result not understood', g.loc())
        for k, q_ in enumerate(qs):
            n_cases += 1
            want = min(seg_dist(q_, pts[j], pts[j + 1]) for j in range(len(pts) - 1))
            for form, (pp, dd, ee) in (('track form', (out.obs[k].fields['position'] if isinstance(out.obs[k], orders.Obj) else None, out.af['dist'][k], out.af['edge'][k])), ('single-coordinate form', singles[k] if isinstance(singles[k], tuple) and len(singles[k]) == 3 else (None, None, None))):
                ok = is_pos(pp) and isinstance(dd, (int, float)) and isinstance(ee, int) and not isinstance(ee, bool) and 0 <= ee < len(pts) - 1
                why = 'the segment index designates a segment of the reference polyline (0 .. %d)' % (len(pts) - 2)
                if ok:
                    on = seg_dist((px(pp), py(pp)), pts[ee], pts[ee + 1])
                    dq = math.hypot(q_[0] - px(pp), q_[1] - py(pp))
                    tol = 1e-9 * max(1.0, want)
                    if on > 1e-9:
                        ok, why = False, 'the returned point lies on the segment whose index is returned'
                    elif abs(dd - dq) > tol:
                        ok, why = False, 'the returned distance is the distance from the query to the returned point'
                    elif abs(dd - want) > tol:
                        ok, why = False, 'no point of the polyline is closer to the query than the returned one'
                if not ok and bad is None:
                    bad = {'reference polyline': lname, 'vertices': [list(p_) for p_ in pts], 'query': list(q_), 'form': form,
                           'returned (point, distance, segment index)': [[px(pp), py(pp)] if is_pos(pp) else repr(pp), dd, ee],
                           'distance to the nearest point of the polyline': want, 'violated': why}
        # the returned points are the caller's: editing them in place (translate, setX) is not an edit of the reference polyline - the same
        # queries asked again get the same answers
        if bad is None:
            first = [(px(r_[0]), py(r_[0]), r_[1], r_[2]) if isinstance(r_, tuple) and len(r_) == 3 and is_pos(r_[0]) else None for r_ in singles]
            for r_ in singles:
                if isinstance(r_, tuple) and len(r_) == 3 and is_pos(r_[0]):
                    r_[0].fields['E'] += 5.0
                    r_[0].fields['N'] -= 7.0
            for o_ in out.obs:
                if isinstance(o_, orders.Obj) and is_pos(o_.fields.get('position')):
                    o_.fields['position'].fields['E'] += 5.0
                    o_.fields['position'].fields['N'] -= 7.0
            try:
                second = [run(P(*q_), ref) for q_ in qs]
            except orders.Unsupported as ex:
                raise shape_error('mapOnTrack not interpretable: %s' % ex, g.loc())
            except orders.PROGRAM_ERRORS as ex:
                second = [('%s: %s' % (type(ex).__name__, str(ex)[:120]), None, None)] * len(qs)
            for k, q_ in enumerate(qs):
                n_cases += 1
                r_ = second[k]
                now = (px(r_[0]), py(r_[0]), r_[1], r_[2]) if isinstance(r_, tuple) and len(r_) == 3 and is_pos(r_[0]) else None
                if first[k] is not None and now != first[k] and bad is None:
                    bad = {'reference polyline': lname, 'vertices': [list(p_) for p_ in pts], 'query': list(q_),
                           'history': 'every point returned by the first round of queries was moved by (+5, -7) in place by the caller; the query is asked again',
                           'first answer (x, y, distance, segment)': list(first[k]), 'second answer': list(now) if now else repr(r_[0]),
                           'violated': 'the returned point is the caller\'s own object: editing it does not edit the reference polyline'}
    ctx.check(bad is None, rid, g, 'mapOnTrack returns, for every query, the nearest point of the reference polyline, its distance and the index of a segment '
              'that carries it (%d query/polyline configurations, track and single-coordinate forms)' % n_cases,
              witness=bad, node=g.node, key='mapOnTrack-geometry')


def rule_G(ctx):
    """C20.G the line helpers by interpretation, whatever way they are written: cartesienne gives a line through both end points;
    dist_point_droite the distance to that line; projection_droite the foot of the perpendicular (non-vertical lines: the vertical
    branch is the recorded finding C20.F)"""
    import math
    from .. import absint
    fn = absint.funcs(ctx, GEO, {})
    fn['sqrt'], fn['hypot'], fn['fabs'] = math.sqrt, math.hypot, math.fabs
    fc = ctx.prog.func(GEO + '.cartesienne')
    fd = ctx.prog.func(GEO + '.dist_point_droite')
    fp = ctx.prog.func(GEO + '.projection_droite')
    car, dis, prj = (orders.make_func(f_.node, fn) for f_ in (fc, fd, fp))
    bad = {}
    n = 0
    segs = [(ax, ay, ax + dx, ay + dy) for (ax, ay) in ((1.0, 2.0), (-3.0, 0.5), (652000.0, 6861000.0))
            for (dx, dy) in ((4, 0), (-4, 0), (4, 4), (-4, 4), (3, 1), (-2, 5), (1, -6), (8, 0.5), (0, 3), (0, -2.5))]
    try:
        for (x1, y1, x2, y2) in segs:
            n += 1
            abc = car([x1, y1, x2, y2])
            L = math.hypot(x2 - x1, y2 - y1)
            scale = max(1.0, abs(x1), abs(y1))
            if not isinstance(abc, (list, tuple)) or len(abc) != 3 or not all(isinstance(v, (int, float)) for v in abc) or math.hypot(abc[0], abc[1]) == 0:
                bad.setdefault('line', (fc, 'cartesienne returns the coefficients (a, b, c) of a line', {'segment': [x1, y1, x2, y2], 'returned': repr(abc)}))
                continue
            a, b, c = abc
            nrm = math.hypot(a, b)
            r1, r2 = (a * x1 + b * y1 + c) / nrm, (a * x2 + b * y2 + c) / nrm
            if abs(r1) > 64 * math.ulp(scale) * 4 or abs(r2) > 64 * math.ulp(scale) * 4:
                bad.setdefault('line', (fc, 'a*x + b*y + c vanishes at both end points of the segment', {'segment': [x1, y1, x2, y2], 'coefficients': [a, b, c],
                                                                                                       'signed distance of the end points to the line': [r1, r2]}))
                continue
            ux, uy = (x2 - x1) / L, (y2 - y1) / L
            for t_, off in ((0.3, 2.0), (-0.5, -1.5), (1.7, 0.0), (0.5, 0.0), (0.0, 3.0)):
                qx, qy = x1 + t_ * (x2 - x1) - off * uy, y1 + t_ * (y2 - y1) + off * ux
                n += 1
                d = dis([a, b, c], qx, qy)
                if not isinstance(d, (int, float)) or abs(d - abs(off)) > 1e-9 * max(1.0, abs(off)) + 256 * math.ulp(scale):
                    bad.setdefault('distance', (fd, 'dist_point_droite is the distance from the point to the line', {'line through': [x1, y1, x2, y2], 'point': [qx, qy],
                                                                                                                   'returned': d if isinstance(d, (int, float)) else repr(d), 'distance': abs(off)}))
                if x1 == x2:
                    continue            # vertical line: recorded finding (C20.F), reported there
                n += 1
                p_ = prj([a, b, c], qx, qy)
                wx, wy = x1 + t_ * (x2 - x1), y1 + t_ * (y2 - y1)
                if not isinstance(p_, (list, tuple)) or len(p_) != 2 or not all(isinstance(v, (int, float)) for v in p_) or \
                        math.hypot(p_[0] - wx, p_[1] - wy) > 1e-9 * max(1.0, L) + 256 * math.ulp(scale):
                    bad.setdefault('foot', (fp, 'projection_droite is the foot of the perpendicular from the point to the line', {'line through': [x1, y1, x2, y2], 'point': [qx, qy],
                                                                                                                               'returned': list(p_) if isinstance(p_, (list, tuple)) else repr(p_), 'foot': [wx, wy]}))
    except orders.Unsupported as ex:
        raise shape_error('line helpers not interpretable: %s' % ex, fc.loc())
    except orders.PROGRAM_ERRORS as ex:
        bad.setdefault('fails', (fc, 'the line helpers do not fail on non-degenerate segments', {'exception': '%s: %s' % (type(ex).__name__, str(ex)[:200])}))
    for k, (f_, desc, wit) in sorted(bad.items()):
        ctx.violation('C20.G', f_, desc, wit, node=f_.node, key='helpers:' + k)
    for k, f_, desc in (('line', fc, 'cartesienne gives a line through both end points'), ('distance', fd, 'dist_point_droite is the distance to the line'),
                        ('foot', fp, 'projection_droite is the foot of the perpendicular (non-vertical lines)')):
        if k not in bad and 'fails' not in bad:
            ctx.ok('C20.G', f_, '%s (%d interpreted cases in all)' % (desc, n), node=f_.node)



RULES = [
    ('C20.G', rule_G, 'quick'),
    ('C20.E', rule_E, 'quick'),
    ('C20.M', rule_M, 'quick'),
    ('C20.L', weighed('C20.L', rule_L, ('C20.G', 'C20.E')), 'quick'),
    ('C20.F', weighed('C20.F', rule_F, ('C20.G', 'C20.E')), 'quick'),
    ('C20.D', weighed('C20.D', rule_D, ('C20.G', 'C20.E')), 'quick'),
    ('C20.P', rule_P, 'quick'),
    ('C20.W', weighed('C20.W', rule_W, ('C20.M',)), 'quick', 'advisory'),
]
MIN_OBLIGATIONS = 8
