"""C20 - projecting a point on a polyline (tracklib/util/geometry.py, tracklib/algo/mapping.py)."""
import ast
import itertools

from ..alg import Rat
from ..loader import shape_error, anchor_error
from ..sx import Walker, State, Cond
from .. import orders
from ..util import body_nodocstring, names_stored, unparse

GEO = 'tracklib.util.geometry'
MAP = 'tracklib.algo.mapping'

EXPLANATION = (
    "Static analysis of cartesienne / projection_droite / proj_segment / proj_polyligne and the mapping wrappers: "
    "line coefficients, foot-of-perpendicular identities on every return (with branch equalities substituted), "
    "distance == |query - returned point|, nearest-end-point selection on all orderings, closed inclusion test on "
    "all orderings, co-updated minimum over all segments, degenerate-segment guard on a sign/magnitude lattice, "
    "argument/tuple positions of the wrappers.  Exact polynomial identities, not float behaviour.")
ASSUMPTIONS = [
    "denominators not proven zero on a path are non-zero; floats behave as reals in the identities",
]
TECHNIQUE = "polynomial identity checking on every return path (F2), finite ordering domains (F4), co-update path rule (F6)"


def _seg_state():
    seg = [Rat.atom('x1'), Rat.atom('y1'), Rat.atom('x2'), Rat.atom('y2')]
    return seg


def _inline(ctx):
    return {'cartesienne': ctx.prog.func(GEO + '.cartesienne'),
            'projection_droite': ctx.prog.func(GEO + '.projection_droite')}


def rule_L(ctx):
    """C20.L line coefficients vanish at both end points"""
    f = ctx.prog.func(GEO + '.cartesienne')
    w = Walker(f, loop_mode='skip')
    outs = [o for o in w.run(body_nodocstring(f), State({f.params[0]: _seg_state()}))]
    rets = [o for o in outs if o.kind == 'return']
    if len(rets) != 1 or not isinstance(rets[0].value, (list, tuple)) or len(rets[0].value) < 3:
        raise shape_error('cartesienne does not return three coefficients on a single path', f.loc())
    a, b, c = rets[0].value[:3]
    x1, y1, x2, y2 = _seg_state()
    for (px, py, nm) in ((x1, y1, 'first'), (x2, y2, 'second')):
        r = a * px + b * py + c
        ctx.check(w.rel.is_zero(r), 'C20.L', f, 'a*x + b*y + c == 0 at the %s end point of the segment' % nm,
                  witness={'residual': repr(r), 'a': repr(a), 'b': repr(b), 'c': repr(c)}, node=rets[0].node,
                  key='line:' + nm)
    # (a, b) is not the null vector for a non-degenerate segment: a^2+b^2 == |segment|^2 up to a constant factor
    n2 = a * a + b * b
    l2 = (x2 - x1) * (x2 - x1) + (y2 - y1) * (y2 - y1)
    ok = False
    if isinstance(n2, Rat) and n2.ispoly() and l2.ispoly() and not n2.n.iszero():
        # proportional with a positive constant
        k1 = next(iter(sorted(n2.n.t.items())))
        k2 = l2.n.t.get(k1[0])
        if k2:
            ratio = k1[1] / k2
            ok = ratio > 0 and w.rel.is_zero(n2 - l2 * Rat.const(ratio))
    ctx.check(ok, 'C20.L', f, '(a,b) is a normal vector of the segment: a^2+b^2 proportional to its squared length',
              witness={'a^2+b^2': repr(n2)}, node=rets[0].node, key='normal')


def _foot_checks(ctx, rule, f, w, a, b, c, x, y, xp, yp, st, node, tag):
    """the two foot-of-perpendicular identities for one return"""
    pathtxt = [repr(cn) for cn, _ in st.conds]
    zdiv = [e for e in st.events if e.kind == 'divzero']
    if zdiv:
        ctx.violation(rule, f, 'no division by a quantity that is zero on this path',
                      {'division': unparse(zdiv[0].node), 'path conditions': pathtxt,
                       'why': 'the branch condition makes the divisor identically zero (vertical segment)'},
                      node=zdiv[0].node, key='divzero:' + tag)
        return
    if not isinstance(xp, Rat) or not isinstance(yp, Rat):
        raise shape_error('projected point is not numeric', f.loc(node))
    r1 = a * xp + b * yp + c
    r2 = (x - xp) * b - (y - yp) * a
    ctx.check(w.rel.is_zero(r1), rule, f, 'returned point lies on the line: a*xp + b*yp + c == 0 [%s]' % tag,
              witness={'residual': repr(w.rel.reduce_poly(r1.n).n)[:300], 'returned point': [repr(xp)[:120], repr(yp)[:120]],
                       'path conditions': pathtxt}, node=node, key='online:' + tag)
    ctx.check(w.rel.is_zero(r2), rule, f,
              'offset query->returned point is normal to the line: (x-xp)*b - (y-yp)*a == 0 [%s]' % tag,
              witness={'residual': repr(w.rel.reduce_poly(r2.n).n)[:300], 'path conditions': pathtxt}, node=node,
              key='normal:' + tag)


def _branch_tag(st):
    eqs = [repr(c) for c, _ in st.conds if c.kind == 'cmp' and c.op == '==']
    return 'branch ' + ' and '.join(eqs) if eqs else 'general branch'


def rule_F(ctx):
    """C20.F foot of the perpendicular on every branch of projection_droite"""
    f = ctx.prog.func(GEO + '.projection_droite')
    w = Walker(f, loop_mode='skip')
    p, xn, yn = f.params[:3]
    a, b, c = Rat.atom('a'), Rat.atom('b'), Rat.atom('c')
    st0 = State({p: [a, b, c], xn: Rat.atom('x'), yn: Rat.atom('y')})
    outs = list(w.run(body_nodocstring(f), st0))
    rets = [o for o in outs if o.kind == 'return']
    if not rets:
        raise shape_error('projection_droite has no return', f.loc())
    for o in rets:
        v = o.value
        if not isinstance(v, (tuple, list)) or len(v) != 2:
            raise shape_error('projection_droite returns something that is not a pair', f.loc(o.node))
        # branch equalities (b == 0) are already substituted in the environment; express a,b,c on this path
        eqs = dict(o.state.env.get('__eqs__', []))
        pa = o.state.env.get('a', a) if False else a
        subs = {}
        for cn, _ in o.state.conds:
            for cj in cn.conjuncts():
                if cj.kind == 'cmp' and cj.op == '==':
                    for u, t in ((cj.a, cj.b), (cj.b, cj.a)):
                        if isinstance(u, Rat) and isinstance(t, Rat) and t.isconst() and u.single_atom() in ('a', 'b', 'c'):
                            subs[u.single_atom()] = t
        A, B, C = (subs.get('a', a), subs.get('b', b), subs.get('c', c))
        _foot_checks(ctx, 'C20.F', f, w, A, B, C, Rat.atom('x'), Rat.atom('y'), v[0], v[1], o.state, o.node,
                     _branch_tag(o.state))


def _proj_segment_paths(ctx):
    f = ctx.prog.func(GEO + '.proj_segment')
    w = Walker(f, loop_mode='skip', inline=_inline(ctx))
    s, xn, yn = f.params[:3]
    st0 = State({s: _seg_state(), xn: Rat.atom('x'), yn: Rat.atom('y')})
    outs = list(w.run(body_nodocstring(f), st0))
    rets = [o for o in outs if o.kind == 'return']
    if not rets:
        raise shape_error('proj_segment has no return', f.loc())
    for o in rets:
        if not isinstance(o.value, (tuple, list)) or len(o.value) != 3:
            raise shape_error('proj_segment must return (distance, x, y)', f.loc(o.node))
    return f, w, rets


def _line_abc(ctx):
    fc = ctx.prog.func(GEO + '.cartesienne')
    w = Walker(fc, loop_mode='skip')
    outs = [o for o in w.run(body_nodocstring(fc), State({fc.params[0]: _seg_state()})) if o.kind == 'return']
    return outs[0].value[:3]


def _is_endpoint(w, px, py, st=None):
    x1, y1, x2, y2 = _seg_state()
    if st is not None:
        x1, y1, x2, y2 = [_apply_path_eqs(v, st) for v in (x1, y1, x2, y2)]
    if isinstance(px, Rat) and isinstance(py, Rat):
        if w.rel.is_zero(px - x1) and w.rel.is_zero(py - y1):
            return 1
        if w.rel.is_zero(px - x2) and w.rel.is_zero(py - y2):
            return 2
    return 0


def _apply_path_eqs(v, st):
    for t, sol in st.env.get('__eqs__', []):
        if isinstance(v, Rat) and t in v.atoms():
            v = v.subst(t, sol)
    return v


def rule_D(ctx):
    """C20.D / C20.F(proj_segment) / C20.E: every return of proj_segment"""
    f, w, rets = _proj_segment_paths(ctx)
    a, b, c = _line_abc(ctx)
    x, y = Rat.atom('x'), Rat.atom('y')
    x1, y1, x2, y2 = _seg_state()
    n_end = n_foot = 0
    for o in rets:
        d, px, py = o.value
        st = o.state
        tag = _branch_tag(st)
        k = _is_endpoint(w, px, py, st)
        pathtxt = [repr(cn) for cn, _ in st.conds]
        if k:
            n_end += 1
            ex, ey = (x1, y1) if k == 1 else (x2, y2)
            ox, oy = (x2, y2) if k == 1 else (x1, y1)
            ex, ey, ox, oy = [_apply_path_eqs(v, st) for v in (ex, ey, ox, oy)]
            if not isinstance(d, Rat):
                raise shape_error('distance not numeric', f.loc(o.node))
            r = d * d - ((x - ex) * (x - ex) + (y - ey) * (y - ey))
            ctx.check(w.rel.is_zero(r), 'C20.D', f,
                      'end-point return: distance^2 == (x-xk)^2 + (y-yk)^2 for the end point returned (k=%d)' % k,
                      witness={'distance^2 - |query - returned point|^2': repr(w.rel.reduce_poly(r.n).n)[:300]},
                      node=o.node, key='enddist:%d' % k)
            # nearest end point: some guard on the path says d_k <= d_other (or <)
            dk = w.sqrt((x - ex) * (x - ex) + (y - ey) * (y - ey))
            do = w.sqrt((x - ox) * (x - ox) + (y - oy) * (y - oy))
            found = False
            wrong = False
            for cn, _ in st.conds:
                for cj in cn.conjuncts():
                    if cj.kind == 'cmp' and cj.op in ('<', '<=') and isinstance(cj.a, Rat) and isinstance(cj.b, Rat):
                        if _same_dist(w, cj.a, dk) and _same_dist(w, cj.b, do):
                            found = True
                        if _same_dist(w, cj.a, do) and _same_dist(w, cj.b, dk) and cj.op == '<':
                            wrong = True
            ctx.check(found and not wrong, 'C20.E', f,
                      'the end point returned is the nearer one: a guard d_k <= d_other holds on this path (k=%d)' % k,
                      witness={'path conditions': pathtxt,
                               'ordering violating it': 'd_other < d_k is compatible with (or implied by) the guards'},
                      node=o.node, key='nearest:%d' % k)
        else:
            n_foot += 1
            _foot_checks(ctx, 'C20.F', f, w, _apply_path_eqs(a, st), _apply_path_eqs(b, st), _apply_path_eqs(c, st),
                         x, y, px, py, st, o.node, 'proj_segment ' + tag)
            if any(e.kind == 'divzero' for e in st.events):
                continue
            if not isinstance(d, Rat):
                raise shape_error('distance not numeric', f.loc(o.node))
            r = d * d - ((x - px) * (x - px) + (y - py) * (y - py))
            ctx.check(w.rel.is_zero(r), 'C20.D', f,
                      'foot return: distance^2 == (x-xp)^2 + (y-yp)^2 [%s]' % tag,
                      witness={'residual': repr(w.rel.reduce_poly(r.n).n)[:300], 'path conditions': pathtxt},
                      node=o.node, key='footdist:' + tag)
    if n_end < 2 or n_foot < 1:
        raise shape_error('proj_segment: expected a foot return and two end-point returns (found %d / %d)'
                          % (n_foot, n_end), f.loc())


def _same_dist(w, u, v):
    if w.rel.is_zero(u - v):
        return True
    # compare squares of non-negative quantities (sqrt atoms)
    return w.rel.is_zero(u * u - v * v) and _nonneg(u) and _nonneg(v)


def _nonneg(r):
    a = r.single_atom() if isinstance(r, Rat) else None
    return a is not None and (a.startswith('sqrt(') or a.startswith('abs('))


def rule_E(ctx):
    """C20.E inclusion test is a closed interval in both orders, for x and y"""
    f = ctx.prog.func(GEO + '.proj_segment')
    body = body_nodocstring(f)
    # the top-level if whose branches return
    tests = [s for s in body if isinstance(s, ast.If) and any(isinstance(n, ast.Return) for n in ast.walk(s))]
    if len(tests) != 1:
        raise shape_error('proj_segment: cannot identify the inclusion test', f.loc())
    iff = tests[0]
    idx = body.index(iff)
    # backward slice of plain-name assignments feeding the test
    need = {n.id for n in ast.walk(iff.test) if isinstance(n, ast.Name)}
    sl = []
    base = {'xproj', 'yproj'}
    for s in reversed(body[:idx]):
        if isinstance(s, ast.Assign) and len(s.targets) == 1 and isinstance(s.targets[0], ast.Name) \
                and s.targets[0].id in need:
            # stop at the definitions of the projected point and of the segment coordinates
            names = {n.id for n in ast.walk(s.value) if isinstance(n, ast.Name)}
            if isinstance(s.value, (ast.Compare, ast.BoolOp, ast.BinOp, ast.UnaryOp, ast.Name)) and \
                    not any(isinstance(n, (ast.Call, ast.Subscript)) for n in ast.walk(s.value)):
                sl.append(s)
                need |= names
    sl.reverse()
    # identify the six geometric inputs among the needed names: those not defined in the slice
    defined = {s.targets[0].id for s in sl}
    inputs = sorted(n for n in need if n not in defined)
    # roles from the walker: which inputs are the projected point / the segment coordinates
    w = Walker(f, loop_mode='skip', inline=_inline(ctx))
    st0 = State({f.params[0]: _seg_state(), f.params[1]: Rat.atom('x'), f.params[2]: Rat.atom('y')})
    pre = [o for o in w.run(body[:idx], st0) if o.kind == 'fall']
    if not pre:
        raise shape_error('proj_segment prologue has no fall-through path', f.loc())
    env = pre[-1].state.env          # general (non-vertical) path
    role = {}
    x1, y1, x2, y2 = _seg_state()
    for n in inputs:
        v = env.get(n)
        if isinstance(v, Rat):
            for nm, ref in (('x1', x1), ('y1', y1), ('x2', x2), ('y2', y2)):
                if w.rel.is_zero(v - ref):
                    role[n] = nm
    others = [n for n in inputs if n not in role]
    if len(others) != 2 or sorted(role.values()) != ['x1', 'x2', 'y1', 'y2']:
        raise shape_error('inclusion test inputs not understood: %s' % inputs, f.loc(iff))
    # which of the two others is the x of the foot: the one compared with x1/x2
    px = py = None
    for n in ast.walk(ast.Module(body=sl + [ast.Expr(value=iff.test)], type_ignores=[])):
        if isinstance(n, ast.Compare):
            names = [m.id for m in ast.walk(n) if isinstance(m, ast.Name)]
            rs = {role.get(m) for m in names}
            for o_ in others:
                if o_ in names:
                    if rs & {'x1', 'x2'}:
                        px = o_
                    if rs & {'y1', 'y2'}:
                        py = o_
    if px is None or py is None or px == py:
        raise shape_error('cannot tell the x and y of the projected point in the inclusion test', f.loc(iff))
    inv = {v: k for k, v in role.items()}
    bad = []
    total = 0
    for ox in orders.weak_orderings(['p', 'a', 'b']):
        for oy in orders.weak_orderings(['p', 'a', 'b']):
            e = {px: ox['p'], inv['x1']: ox['a'], inv['x2']: ox['b'],
                 py: oy['p'], inv['y1']: oy['a'], inv['y2']: oy['b']}
            try:
                orders.run_block(sl, e)
                got = bool(orders.ev(iff.test, e))
            except orders.Unsupported as ex:
                raise shape_error('inclusion test not interpretable: %s' % ex, f.loc(iff))
            want = (min(ox['a'], ox['b']) <= ox['p'] <= max(ox['a'], ox['b'])) and \
                   (min(oy['a'], oy['b']) <= oy['p'] <= max(oy['a'], oy['b']))
            total += 1
            if got != want and len(bad) < 4:
                bad.append({'x ordering (p=foot,a=x1,b=x2)': orders.describe(ox),
                            'y ordering (p=foot,a=y1,b=y2)': orders.describe(oy),
                            'test says inside': got, 'foot is inside the segment box': want})
    ctx.check(not bad, 'C20.E', f,
              'inclusion test == (min(x1,x2) <= xp <= max(x1,x2)) and (min(y1,y2) <= yp <= max(y1,y2)) on all %d '
              'orderings' % total, witness={'counter-examples': bad}, node=iff, key='inclusion')


def rule_P(ctx):
    """C20.P minimum over all segments with co-updated index; degenerate segments skipped before the call"""
    f = ctx.prog.func(GEO + '.proj_polyligne')
    body = body_nodocstring(f)
    loops = [s for s in body if isinstance(s, ast.For)]
    if len(loops) != 1:
        raise shape_error('proj_polyligne: expected one loop over the segments', f.loc())
    loop = loops[0]
    w = Walker(f, loop_mode='skip')
    Xp, Yp, xq, yq = f.params[:4]
    pre = [o for o in w.run(body[:body.index(loop)], State()) if o.kind == 'fall'][0].state
    rng = w.range_info(loop.iter, pre)
    if rng is None:
        raise shape_error('segment loop is not a range loop', f.loc(loop))
    lo, hi, step = rng
    ctx.check(w.rel.is_zero(lo) and w.rel.is_zero(hi - (Rat.atom('len(%s)' % Xp) - Rat.const(1))) and
              w.rel.is_zero(step - Rat.const(1)), 'C20.P', f,
              'the loop visits every segment: range(len(X) - 1)',
              witness={'range': [repr(lo), repr(hi), repr(step)]}, node=loop, key='range')
    iv = loop.target.id
    st = pre.fork()
    st.events = []
    assigned = sorted(names_stored(loop.body))
    for v in assigned:
        st.env[v] = Rat.atom(v + '@')
    st.env[iv] = Rat.atom(iv)
    outs = list(w.run(loop.body, st))
    # the minimum variable: returned first, and compared in the body
    rets = [s for s in body if isinstance(s, ast.Return)]
    if len(rets) != 1 or not isinstance(rets[0].value, ast.Tuple) or len(rets[0].value.elts) != 4 or \
            not all(isinstance(e, ast.Name) for e in rets[0].value.elts):
        raise shape_error('proj_polyligne must return (distmin, xproj, yproj, iproj) names', f.loc())
    vmin, vx, vy, vi = [e.id for e in rets[0].value.elts]
    n_upd = 0
    n_call = 0
    for o in outs:
        ev_assign = {e.name: e for e in o.state.events if e.kind == 'assign'}
        calls = [e for e in o.state.events if e.kind == 'call' and e.name == 'proj_segment']
        skipped = o.kind == 'continue' and not calls
        if calls:
            n_call += 1
            call = calls[0]
            seg = call.args[0]
            exp = [Rat.atom('%s[%s]' % (Xp, iv)), Rat.atom('%s[%s]' % (Yp, iv)),
                   Rat.atom('%s[%s]' % (Xp, repr(Rat.atom(iv) + Rat.const(1)))),
                   Rat.atom('%s[%s]' % (Yp, repr(Rat.atom(iv) + Rat.const(1))))]
            okseg = isinstance(seg, (list, tuple)) and len(seg) == 4 and \
                all(isinstance(s_, Rat) and w.rel.is_zero(s_ - e_) for s_, e_ in zip(seg, exp))
            okq = len(call.args) >= 3 and all(isinstance(q, Rat) for q in call.args[1:3]) and \
                w.rel.is_zero(call.args[1] - Rat.atom(xq)) and w.rel.is_zero(call.args[2] - Rat.atom(yq))
            ctx.check(okseg and okq, 'C20.P', f,
                      'segment i is (X[i],Y[i])-(X[i+1],Y[i+1]) and the query is (x,y), in this argument order',
                      witness={'segment passed': [repr(s_) for s_ in seg] if isinstance(seg, (list, tuple)) else repr(seg),
                               'query passed': [repr(q) for q in call.args[1:3]]}, node=call.node, key='segargs')
            res = call.value
        changed = [v for v in (vmin, vx, vy, vi) if v in ev_assign]
        if changed:
            n_upd += 1
            if not calls:
                ctx.violation('C20.P', f, 'the minimum is updated only from a projection result',
                              {'assigned': changed}, node=loop, key='upd-nocall')
                continue
            want = {vmin: Rat.atom(res + '[0]'), vx: Rat.atom(res + '[1]'), vy: Rat.atom(res + '[2]'),
                    vi: Rat.atom(iv)}
            missing = [v for v in want if v not in ev_assign]
            wrongv = [v for v in want if v in ev_assign and not (isinstance(ev_assign[v].value, Rat) and
                                                                  w.rel.is_zero(ev_assign[v].value - want[v]))]
            ctx.check(not missing and not wrongv, 'C20.P', f,
                      'distance, projected point and segment index are updated together from the same projection',
                      witness={'not updated on this path': missing, 'updated from something else': wrongv,
                               'path': [repr(c) for c, _ in o.state.conds]}, node=loop, key='coupdate')
            # guarded by dist < distmin
            g = False
            for cn, _ in o.state.conds:
                for cj in cn.conjuncts():
                    if cj.kind == 'cmp' and cj.op in ('<', '<=') and isinstance(cj.a, Rat) and isinstance(cj.b, Rat) \
                            and w.rel.is_zero(cj.a - want[vmin]) and w.rel.is_zero(cj.b - Rat.atom(vmin + '@')):
                        g = True
            ctx.check(g, 'C20.P', f, 'the update is guarded by new distance < current minimum',
                      witness={'path': [repr(c) for c, _ in o.state.conds]}, node=loop, key='guard')
    if n_upd == 0 or n_call == 0:
        raise shape_error('proj_polyligne loop: no update path found', f.loc(loop))
    # initial minimum is +infinity (larger than any distance)
    v0 = pre.env.get(vmin)
    big = isinstance(v0, Rat) and ((v0.isconst() and v0.constval() >= 10 ** 30) or (v0.single_atom() or '').startswith('inf'))
    ctx.check(big, 'C20.P', f, 'the running minimum starts above any possible distance',
              witness={'initial value': repr(v0)}, node=loop, key='init')
    # degenerate-segment guard, evaluated on a lattice of (dx, dy)
    guards = [s for s in loop.body if isinstance(s, ast.If) and any(isinstance(n, ast.Continue) for n in s.body)]
    callstmt_idx = min(i for i, s in enumerate(loop.body) if any(
        isinstance(n, ast.Call) and getattr(n.func, 'id', None) == 'proj_segment' for n in ast.walk(s)))
    guards = [g_ for g_ in guards if loop.body.index(g_) < callstmt_idx]
    if not guards:
        ctx.violation('C20.P', f, 'zero-length segments are skipped before proj_segment is called '
                                  '(proj_segment divides by the segment length)',
                      {'why': 'no `continue` guard precedes the call'}, node=loop, key='noskip')
        return
    g_ = guards[0]
    pre_stmts = loop.body[:loop.body.index(g_)]
    bad = []
    L = [-2, -1, 0, 1, 2, 3]
    for dx, dy in itertools.product(L, L):
        env = {Xp: [0, dx], Yp: [0, dy], iv: 0}
        try:
            _run_with_subscripts(pre_stmts, env)
            skip = bool(_ev_sub(g_.test, env))
        except orders.Unsupported as ex:
            raise shape_error('degenerate-segment guard not interpretable: %s' % ex, f.loc(g_))
        if skip != (dx == 0 and dy == 0):
            bad.append({'segment': '(0,0)-(%d,%d)' % (dx, dy), 'skipped': skip})
    ctx.check(not bad, 'C20.P', f,
              'a segment is skipped iff it has zero length (evaluated on a lattice of 36 (dx,dy) patterns)',
              witness={'wrongly handled segments': bad[:6]}, node=g_, key='degenerate')


def _ev_sub(n, env):
    """orders.ev with subscripts of concrete lists"""
    class T(ast.NodeTransformer):
        def visit_Subscript(self, node):
            node = self.generic_visit(node)
            try:
                base = orders.ev(node.value, env)
                idx = orders.ev(node.slice, env)
                return ast.Constant(value=base[idx])
            except Exception:
                return node
    import copy
    return orders.ev(T().visit(copy.deepcopy(n)), env)


def _run_with_subscripts(stmts, env):
    for s in stmts:
        if isinstance(s, ast.Assign) and len(s.targets) == 1 and isinstance(s.targets[0], ast.Name):
            env[s.targets[0].id] = _ev_sub(s.value, env)
        elif isinstance(s, ast.Expr) and isinstance(s.value, ast.Constant):
            pass
        else:
            raise orders.Unsupported('statement before the guard: %s' % unparse(s))


def rule_W(ctx):
    """C20.W wrappers pass (X, Y, qx, qy) and return (point, distance, index)"""
    f = None
    for q, fi in ctx.prog.functions.items():
        if q.startswith(MAP + '.') and fi.name.endswith('projOnTrack'):
            f = fi
    if f is None:
        raise anchor_error('mapping.__projOnTrack not found', MAP)
    w = Walker(f, loop_mode='skip')
    pt, tr = f.params[:2]
    outs = [o for o in w.run(body_nodocstring(f), State()) if o.kind == 'return']
    if len(outs) != 1:
        raise shape_error('__projOnTrack is not single-path', f.loc())
    o = outs[0]
    calls = [e for e in o.state.events if e.kind == 'call' and e.name == 'proj_polyligne']
    if len(calls) != 1:
        raise shape_error('__projOnTrack does not call proj_polyligne once', f.loc())
    c = calls[0]
    want = ['%s.getX()' % tr, '%s.getY()' % tr, '%s.getX()' % pt, '%s.getY()' % pt]
    got = [a.single_atom() if isinstance(a, Rat) else repr(a) for a in c.args]
    ctx.check(got == want, 'C20.W', f, 'proj_polyligne(track X, track Y, point x, point y) in this order',
              witness={'arguments': got, 'expected': want}, node=c.node, key='args')
    v = o.value
    res = c.value
    okv = isinstance(v, tuple) and len(v) == 3
    if okv:
        p0 = v[0].single_atom() if isinstance(v[0], Rat) else ''
        okv = p0 is not None and p0.startswith('ENUCoords(%s[1], %s[2]' % (res, res)) and \
            isinstance(v[1], Rat) and v[1].single_atom() == res + '[0]' and \
            isinstance(v[2], Rat) and v[2].single_atom() == res + '[3]'
    ctx.check(okv, 'C20.W', f,
              'returns (ENUCoords(xproj, yproj, .), distance, segment index) = tuple positions (1,2), 0, 3',
              witness={'returned': [repr(x)[:100] for x in v] if isinstance(v, tuple) else repr(v)}, node=o.node,
              key='ret')
    # mapOnTrack: per-observation wiring
    g = ctx.prog.func(MAP + '.mapOnTrack')
    loops = [n for n in ast.walk(g.node) if isinstance(n, ast.For)]
    if len(loops) != 1:
        raise shape_error('mapOnTrack: expected one loop', g.loc())
    wg = Walker(g, loop_mode='skip')
    lv = loops[0].target.id
    st = State({lv: Rat.atom(lv)})
    bouts = [o_ for o_ in wg.run(loops[0].body, st)]
    if len(bouts) != 1:
        raise shape_error('mapOnTrack loop body is not single-path', g.loc(loops[0]))
    evs = bouts[0].state.events
    pc = [e for e in evs if e.kind == 'call' and e.name.endswith('projOnTrack')]
    stores = [e for e in evs if e.kind == 'store']
    okm = len(pc) == 1 and len(stores) == 2
    if okm:
        r = pc[0].value
        vals = {e.name: e for e in stores}
        okm = all(isinstance(e.index, Rat) and wg.rel.is_zero(e.index - Rat.atom(lv)) for e in stores) and \
            'dist' in vals and 'edge' in vals and \
            vals['dist'].value.single_atom() == r + '[1]' and vals['edge'].value.single_atom() == r + '[2]'
        a0 = pc[0].args[0].single_atom() if isinstance(pc[0].args[0], Rat) else ''
        okm = okm and a0 == '%s[%s].position' % (g.params[0], lv)
    ctx.check(okm, 'C20.W', g, 'mapOnTrack stores distance (position 1) and segment index (position 2) of observation i at i',
              witness={'stores': [repr(e) for e in stores]}, node=loops[0], key='mapOnTrack')


RULES = [
    ('C20.L', rule_L, 'quick'),
    ('C20.F', rule_F, 'quick'),
    ('C20.D', rule_D, 'quick'),
    ('C20.E', rule_E, 'quick'),
    ('C20.P', rule_P, 'quick'),
    ('C20.W', rule_W, 'quick'),
]
MIN_OBLIGATIONS = 15
