"""C11 - splitting on a marker; threshold segmentation (tracklib/algo/segmentation.py, Track.extract)."""
import ast
import itertools
import math

from ..alg import Rat
from ..loader import shape_error, anchor_error
from ..sx import Walker, State
from .. import orders
from ..util import body_nodocstring, names_stored, unparse

SEG = 'tracklib.algo.segmentation'
TRACK = 'tracklib.core.track.Track'

EXPLANATION = (
    "Static analysis of segmentation() / split() / Track.extract: the per-observation fold of the threshold tests "
    "is evaluated on the finite case domain {below, equal, above, NaN}^n for n = 1..3 features and both modes "
    "(marker == any-exceeds in AND mode, all-exceed in OR mode, NaN ignored, equality is not exceeding); in the "
    "marker arm of split() every path of the loop body is examined: a piece is cut exactly at a marked "
    "observation, it is [begin, i], the next piece begins at i+1, unmarked observations cut nothing, the tail is "
    "[begin, size-1] and is emitted only if something was marked; Track.extract copies the inclusive index range "
    "[id_ini, id_fin] on every path (the convention split() relies on).")
ASSUMPTIONS = ["limit = 0 (no piece is filtered out by length)"]
TECHNIQUE = "finite case domain over comparison outcomes (F4), tiling of index intervals on loop-body paths (F3/F6)"

NAN = float('nan')


def vr(v):
    if isinstance(v, Rat):
        a = v.single_atom()
        return a if a is not None else repr(v)
    return repr(v)


def rule_M(ctx):
    """C11.M / C11.N marker = dual fold of value > threshold, NaN ignored"""
    f = ctx.prog.func(SEG + '.segmentation')
    m = ctx.prog.module(SEG)
    consts = {}
    for k in ('MODE_COMPARAISON_AND', 'MODE_COMPARAISON_OR'):
        v = m.consts.get(k)
        if not isinstance(v, ast.Constant):
            raise anchor_error('%s not found' % k, SEG)
        consts[k] = v.value
    body = body_nodocstring(f)
    loops = [s for s in body if isinstance(s, ast.For)]
    if len(loops) != 1:
        raise shape_error('segmentation(): observation loop not found', f.loc())
    lo = loops[0]
    pre = body[:body.index(lo)]
    tr, afs, afo, thr, mode = f.params[:5]
    vals = {'below': 5.0, 'equal': 10.0, 'above': 15.0, 'nan': NAN}
    bad = []
    total = 0
    for mname, mval in consts.items():
        for n in (1, 2, 3):
            for combo in itertools.product(vals, repeat=n):
                names = ['f%d' % k for k in range(n)]
                data = dict(zip(names, (vals[c] for c in combo)))
                out = {}

                class T:
                    pass
                funcs = {
                    'getObsAnalyticalFeature': lambda name, i: data[name],
                    'setObsAnalyticalFeature': lambda name, i, v: out.__setitem__('marker', v),
                    'createAnalyticalFeature': lambda *a: None,
                    'isnan': lambda x: isinstance(x, float) and math.isnan(x),
                    'isinstance': None,
                }
                env = dict(consts)
                env.update({tr: 'TRACK', afs: list(names), afo: 'OUT', thr: [10.0] * n, mode: mval,
                            lo.target.id: 0, 'sys.float_info.max': 1.0e308})
                try:
                    _run(pre, env, funcs)
                    orders.run_block(lo.body, env, funcs)
                except orders.Unsupported as e:
                    raise shape_error('segmentation() fold not interpretable: %s' % e, f.loc(lo))
                total += 1
                live = [c for c in combo if c != 'nan']
                if mname.endswith('AND'):
                    want = 1 if any(c == 'above' for c in live) else 0
                else:
                    want = 1 if all(c == 'above' for c in live) else 0
                got = out.get('marker')
                if got != want and len(bad) < 6:
                    bad.append({'mode': mname, 'feature values vs threshold': list(combo), 'marker': got, 'expected': want})
    ctx.check(not bad, 'C11.M', f,
              'marker == 1 exactly where a tested feature exceeds its threshold (any in AND mode, all in OR mode; NaN '
              'ignored; a value equal to the threshold does not exceed it) on all %d cases' % total,
              witness={'counter-examples': bad}, node=lo, key='fold')
    ctx.extra['fold_cases'] = total
    r = Walker(f, loop_mode='skip').range_info(lo.iter, State())
    ctx.check(r is not None and vr(r[0]) == '0' and vr(r[1]) == '%s.size()' % tr, 'C11.M', f,
              'every observation receives a marker', witness={'range': unparse(lo.iter)}, node=lo, key='range')


def _run(stmts, env, funcs):
    """prologue of segmentation(): listify scalars (isinstance tests) - interpreted with list inputs"""
    for s in stmts:
        if isinstance(s, ast.If) and any(isinstance(n, ast.Call) and getattr(n.func, 'id', None) == 'isinstance'
                                         for n in ast.walk(s.test)):
            continue        # inputs are given as lists in the case domain
        orders.run_block([s], env, funcs)


def rule_T(ctx):
    """C11.T / C11.E pieces tile the track and end at marked observations"""
    f = ctx.prog.func(SEG + '.split')
    body = body_nodocstring(f)
    tr, src, limit = f.params[:3]
    arm = None
    for s in body:
        if isinstance(s, ast.If) and 'isinstance(%s, str)' % src in unparse(s.test):
            arm = s
    if arm is None:
        raise shape_error('split(): marker arm not found', f.loc())
    loops = [s for s in arm.body if isinstance(s, ast.For)]
    if len(loops) != 1:
        raise shape_error('split(): marker loop not found', f.loc(arm))
    lo = loops[0]
    iv = lo.target.id
    w = Walker(f, loop_mode='skip')
    pre = [o for o in w.run(arm.body[:arm.body.index(lo)], State({limit: Rat.const(0)})) if o.kind == 'fall']
    if len(pre) != 1:
        raise shape_error('split(): prologue of the marker arm', f.loc(arm))
    pst = pre[0].state
    r = w.range_info(lo.iter, pst)
    ctx.check(r is not None and vr(r[0]) == '0' and vr(r[1]) == '%s.size()' % tr and vr(r[2]) == '1', 'C11.T', f,
              'every observation is examined once, in order', witness={'range': unparse(lo.iter)}, node=lo, key='range')
    assigned = sorted(names_stored(lo.body))
    st = pst.fork()
    st.events = []
    for v in assigned:
        st.env[v] = Rat.atom(v + '@')
    st.env[iv] = Rat.atom(iv)
    outs = list(w.run(lo.body, st))
    # the running start of the current piece: first argument of extract, affine in one loop-carried variable
    bname = None
    off = None
    for o in outs:
        for e in o.state.events:
            if e.kind == 'call' and e.name == 'extract' and isinstance(e.args[0], Rat) and e.args[0].ispoly():
                carried = [a for a in e.args[0].atoms() if a.endswith('@') and a[:-1] in assigned]
                if len(carried) == 1 and e.args[0].n.degree_in(carried[0]) == 1 and e.args[0].n.coeff(carried[0], 1).isconst() \
                        and e.args[0].n.coeff(carried[0], 1).constval() == 1:
                    rest = e.args[0] - Rat.atom(carried[0])
                    if rest.isconst():
                        bname, off = carried[0][:-1], rest
    if bname is None:
        raise shape_error('split(): extract(<start of the piece>, i) not found', f.loc(lo))
    start = lambda v: v + off
    b0 = pst.env.get(bname)
    ctx.check(isinstance(b0, Rat) and w.rel.is_zero(start(b0)), 'C11.T', f, 'the first piece starts at observation 0',
              witness={'initial start': vr(start(b0)) if isinstance(b0, Rat) else vr(b0)}, node=lo, key='begin0')
    marker = '%s.getObsAnalyticalFeature(%s, %s)' % (tr, src, iv)
    n_cut = n_plain = 0
    for o in outs:
        calls = [e for e in o.state.events if e.kind == 'call' and e.name == 'extract']
        adds = [e for e in o.state.events if e.kind == 'call' and e.name == 'addTrack']
        marked = None
        for c, _ in o.state.conds:
            for cj in c.conjuncts():
                if cj.kind == 'cmp' and cj.op in ('==', '!=') and {vr(cj.a), vr(cj.b)} == {marker, '1'}:
                    marked = cj.op == '=='
        pathtxt = [repr(c) for c, _ in o.state.conds]
        bnew = o.state.env.get(bname)
        if calls:
            n_cut += 1
            ctx.check(marked is True, 'C11.E', f, 'a piece is cut only at an observation whose marker is 1',
                      witness={'path conditions': pathtxt}, node=calls[0].node, key='cut-guard')
            a = calls[0].args
            ctx.check(len(calls) == 1 and vr(calls[0].recv) == tr and isinstance(a[0], Rat) and
                      w.rel.is_zero(a[0] - start(Rat.atom(bname + '@'))) and vr(a[1]) == iv, 'C11.T', f,
                      'the piece cut at a marked observation i is [start of the piece, i]', witness={'extract': [vr(x) for x in a]},
                      node=calls[0].node, key='piece')
            ctx.check(isinstance(bnew, Rat) and w.rel.is_zero(start(bnew) - Rat.atom(iv) - Rat.const(1)), 'C11.T', f,
                      'the next piece begins at i + 1 (no observation lost or duplicated)',
                      witness={'next start': vr(start(bnew)) if isinstance(bnew, Rat) else vr(bnew), 'expected': '%s + 1' % iv}, node=calls[0].node, key='next-begin')
            ctx.check(len(adds) == 1 and vr(adds[0].args[0]) == calls[0].value, 'C11.T', f,
                      'the piece is added to the result (limit = 0)', witness={'adds': [repr(e) for e in adds]},
                      node=calls[0].node, key='added')
        else:
            n_plain += 1
            ctx.check(marked is False and isinstance(bnew, Rat) and vr(bnew) == bname + '@' and not adds, 'C11.E', f,
                      'an unmarked observation cuts nothing and leaves the current piece open',
                      witness={'path conditions': pathtxt, 'start after': vr(bnew)}, node=lo, key='plain')
    if n_cut == 0 or n_plain == 0:
        raise shape_error('split(): marked / unmarked paths not both found', f.loc(lo))
    # tail: emitted exactly when some observation was marked, i.e. when the start is no longer 0
    post = arm.body[arm.body.index(lo) + 1:]
    seen_tail = False
    emitted = {}
    for sval in (0, 1, 2, 7):
        st2 = pst.fork()
        st2.events = []
        st2.conds = []
        st2.env[bname] = Rat.const(sval) - off
        st2.env[limit] = Rat.const(0)
        touts = [o for o in w.run(post, st2) if o.kind == 'fall']
        if len(touts) != 1:
            raise shape_error('split(): tail is not single-path for a given start', f.loc(arm))
        o = touts[0]
        calls = [e for e in o.state.events if e.kind == 'call' and e.name == 'extract']
        adds = [e for e in o.state.events if e.kind == 'call' and e.name == 'addTrack']
        emitted[sval] = bool(calls) and bool(adds)
        if calls:
            seen_tail = True
            a = calls[0].args
            ctx.check(isinstance(a[0], Rat) and w.rel.is_zero(a[0] - Rat.const(sval)) and isinstance(a[1], Rat) and
                      w.rel.is_zero(a[1] - (Rat.atom('%s.size()' % tr) - Rat.const(1))), 'C11.T', f,
                      'the last piece is [start, size-1]', witness={'extract': [vr(x) for x in a], 'start': sval}, node=calls[0].node, key='tail')
            ctx.check(len(adds) == 1 and vr(adds[0].args[0]) == calls[0].value, 'C11.T', f, 'the tail piece is added to the result',
                      witness={}, node=calls[0].node, key='tail-added')
    wrong = {k: v for k, v in emitted.items() if v != (k != 0)}
    ctx.check(not wrong, 'C11.E', f,
              'the tail is emitted exactly when some observation was marked (start of the open piece != 0); nothing is emitted when nothing is marked',
              witness={'start of the open piece -> tail emitted': emitted,
                       'why': 'e.g. a track whose only marked observation is the first one: the piece [0] comes back but observations 1..n-1 are lost'},
              node=arm, key='tail-guard')
    if not seen_tail:
        raise shape_error('split(): tail extract not found', f.loc(arm))
    other = [n for n in ast.walk(arm) if isinstance(n, ast.Call) and getattr(n.func, 'attr', None) == 'extract']
    ctx.check(len(other) == 2, 'C11.T', f, 'the marker arm cuts pieces at exactly two places (in the loop and for the tail)',
              witness={'extract calls': len(other)}, node=arm, key='two-cuts')


def rule_X(ctx):
    """C11.X Track.extract copies [id_ini, id_fin] inclusive on every path"""
    f = ctx.prog.func(TRACK + '.extract')
    a, b = f.params[1:3]
    w = Walker(f, loop_mode='once')
    outs = [o for o in w.run(body_nodocstring(f), State()) if o.kind == 'return']
    if not outs:
        raise shape_error('Track.extract has no return', f.loc())
    for o in outs:
        loops = [e for e in o.state.events if e.kind == 'loop']
        pathtxt = [repr(c) for c, _ in o.state.conds]
        ok = False
        wit = {'path conditions': pathtxt}
        for e in loops:
            r = e.value.get('range')
            if r is not None:
                wit['range'] = [vr(x) for x in r]
                ok = w.rel.is_zero(r[0] - Rat.atom(a)) and w.rel.is_zero(r[1] - Rat.atom(b) - Rat.const(1)) and vr(r[2]) == '1'
        adds = [e for e in o.state.events if e.kind == 'call' and e.name == 'addObs']
        okadd = any('POINTS[' in vr(x.args[0]) for x in adds)
        if not ok and pathtxt:
            wit['why'] = 'on this path (e.g. id_fin == 0 when the test is a truthiness test) other observations are copied'
        ctx.check(ok and okadd, 'C11.X', f,
                  'extract(id_ini, id_fin) copies exactly the observations id_ini .. id_fin (inclusive), whatever their values',
                  witness=wit, node=o.node, key='range:' + ';'.join(pathtxt))
        tr = [e for e in o.state.events if e.kind == 'call' and 'transmitAF' in e.name]
        ctx.check(len(tr) == 1 and vr(tr[0].args[0]) == 'self', 'C11.X', f, 'the feature table of the source is carried over',
                  witness={}, node=o.node, key='transmit')


RULES = [
    ('C11.M', rule_M, 'quick'),
    ('C11.T', rule_T, 'quick'),
    ('C11.X', rule_X, 'quick'),
]
MIN_OBLIGATIONS = 12
