"""C11 - splitting on a marker; threshold segmentation (tracklib/algo/segmentation.py, Track.extract)."""
import ast
import itertools
import math

from ..alg import Rat
from ..loader import shape_error, anchor_error
from ..sx import Walker, State
from .. import orders
from ..util import body_nodocstring, names_stored, unparse

SEG = 'tracklib.algo.segmentation'
TRACK = 'tracklib.core.track.Track'

EXPLANATION = (
    "Static analysis of segmentation() / split() / Track.extract by interpretation of their bodies (tlint.orders AST interpreter over "
    "abstract tracks; nothing is imported or executed; helpers extracted by a refactoring are followed).  (M/N) segmentation() on the "
    "finite case domain {below, equal, above, NaN}^n of the tested values relative to their own, pairwise distinct thresholds, n = 1..3, "
    "both modes, with a second all-below observation: marker == any-exceeds in AND mode, all-exceed in OR mode, NaN ignored, equality is "
    "not exceeding, no leak between observations.  (T/E) split() on every 0/1 marker vector of length 1..5 (62 vectors): the pieces, "
    "taken in order, contain every observation exactly once; each ends at a marked observation and holds no other; nothing is emitted "
    "when nothing is marked.  (X) the repository's Track class itself is interpreted for extract(a, b), 0 <= a <= b+1 <= 4: inclusive "
    "range, empty for b == a-1 (the call split() makes after a marked last observation), feature table carried over as a copy, source "
    "untouched.")
ASSUMPTIONS = ["limit = 0 (no piece is filtered out by length)", "bounded: at most 3 tested features, marker vectors up to length 5, tracks of 4 observations for extract"]
TECHNIQUE = "abstract interpretation of the function bodies on finite case domains: comparison outcomes x NaN x value kind (Python float, numpy float64 / float32 scalar; the repository's isnan interpreted) (F4), all marker vectors up to a bound (F3), index pairs (F3)"

NAN = float('nan')


def vr(v):
    if isinstance(v, Rat):
        a = v.single_atom()
        return a if a is not None else repr(v)
    return repr(v)


LENGTH = ['count']
LENGTHS = {'number of observations': 'count', 'NaN (a missing coordinate)': 'nan', 'zero (all fixes at one place)': 'zero'}


def _track_model(ctx, fn):
    """tracks for segmentation()/split(): the repository's own Track / Obs / ENUCoords / TrackCollection classes, interpreted.  Each
    observation is tagged with its index; the positions are laid out so that length() of a piece is its number of legs, NaN, or zero
    (LENGTH[0] names the layout)"""
    from .. import absint
    import math
    T = absint.classref(ctx, TRACK, fn)
    EN = absint.classref(ctx, 'tracklib.core.obs_coords.ENUCoords', fn)
    TC = absint.classref(ctx, 'tracklib.core.track_collection.TrackCollection', fn)
    fn.setdefault('sqrt', math.sqrt)
    fn.setdefault('hypot', math.hypot)

    class View:
        """what the rules read from a track: the feature columns by name"""

        def __init__(self, t):
            self.t = t

        def get(self, name, default=None):
            try:
                if not self.t.call('hasAnalyticalFeature', name):
                    return default
                return self.t.call('getAnalyticalFeature', name)
            except (orders.Raised, KeyError, IndexError):
                return default

    def TrackS(n, feats):
        lay = LENGTH[0]
        pos = {'count': lambda k: (float(k), 0.0, 0.0), 'nan': lambda k: (float(k), float('nan'), 0.0), 'zero': lambda k: (3.0, 4.0, 0.0)}[lay]
        t = T([absint.real_obs(ctx, fn, EN(*pos(k)), None, k=k) for k in range(n)], 'U', 'T')
        for nm_, vals_ in feats.items():
            t.call('createAnalyticalFeature', nm_, list(vals_))
        t.feats = View(t)
        return t

    def indices(piece):
        if not isinstance(piece, orders.Obj) or '_Track__POINTS' not in piece.fields:
            return None
        return [o.fields.get('k') if isinstance(o, orders.Obj) else None for o in piece.fields['_Track__POINTS']]

    def pieces_of(coll):
        if not isinstance(coll, orders.Obj):
            return None
        key = [k for k in coll.fields if k.endswith('TRACES')]
        if len(key) != 1 or not isinstance(coll.fields[key[0]], list):
            return None
        out = [indices(p_) for p_ in coll.fields[key[0]]]
        return None if any(x is None for x in out) else out
    return TrackS, indices, pieces_of


def rule_M(ctx):
    """C11.M / C11.N marker = dual fold of value > threshold, NaN ignored - segmentation() interpreted on the finite case domain"""
    from .. import absint
    f = ctx.prog.func(SEG + '.segmentation')
    m = ctx.prog.module(SEG)
    consts = {}
    for k in ('MODE_COMPARAISON_AND', 'MODE_COMPARAISON_OR'):
        v = m.consts.get(k)
        if not isinstance(v, ast.Constant):
            raise anchor_error('%s not found' % k, SEG)
        consts[k] = v.value
    fn = absint.funcs(ctx, SEG, {})            # isnan() is the repository's own (tracklib.core.utils), interpreted
    fn['__globals__'].update({'NAN': NAN, 'sys.float_info.max': 1.0e308})
    from ..npstub import NpF32, NpF64
    kinds = {'Python float': float, 'numpy.float64 scalar': NpF64, 'numpy.float32 scalar': NpF32}
    TrackS, _, _ = _track_model(ctx, fn)
    tr, afs, afo, thr, mode = f.params[:5]
    rel = {'below': -5.0, 'equal': 0.0, 'above': 5.0, 'nan': None, 'next float above': 'up', 'next float below': 'down'}
    bad = []
    total = 0
    for (mname, mval), (kname, kind) in itertools.product(consts.items(), kinds.items()):
        for n in (1, 2) if kind is not float else (1, 2, 3):
            thresholds = [10.0 * (k + 1) for k in range(n)]          # distinct thresholds: a value paired with the wrong one shows
            for combo in itertools.product(rel, repeat=n):
                names = ['f%d' % k for k in range(n)]
                # two observations: the case under test and an all-below one (a marker must not leak from one observation to the next)
                if kind is not float and any(isinstance(rel[c], str) for c in combo):
                    continue
                val_of = lambda k, c: (math.nextafter(thresholds[k], math.inf if rel[c] == 'up' else -math.inf) if isinstance(rel[c], str) else thresholds[k] + rel[c])
                cols = {nm: [(float('nan') if kind is float else kind(NAN)) if rel[c] is None else kind(val_of(k, c)), kind(thresholds[k] - 5.0)] for k, (nm, c) in enumerate(zip(names, combo))}
                t = TrackS(2, cols)
                try:
                    orders.make_func(f.node, fn)(**{tr: t, afs: list(names), afo: 'OUT', thr: list(thresholds), mode: mval})
                except orders.Unsupported as e:
                    raise shape_error('segmentation() not interpretable: %s' % e, f.loc())
                except (IndexError, KeyError, TypeError) as e:
                    bad.append({'mode': mname, 'values held as': kname, 'feature values vs threshold': list(combo), 'exception': '%s: %s' % (type(e).__name__, e)})
                    continue
                total += 1
                live = [c for c in combo if c != 'nan']
                above = ('above', 'next float above')
                if mname.endswith('AND'):
                    want = 1 if any(c in above for c in live) else 0
                else:
                    want = 1 if all(c in above for c in live) else 0
                got = t.feats.get('OUT')
                if (got is None or got[0] != want or got[1] != 0) and len(bad) < 6:
                    bad.append({'mode': mname, 'values held as': kname, 'feature values vs their thresholds (observation 0)': list(combo), 'thresholds': thresholds,
                                'markers (observation 0, all-below observation 1)': got, 'expected': [want, 0]})
    # through the collection (TrackCollection.segmentation marks every track of the collection, in the requested mode)
    TCc = absint.classref(ctx, 'tracklib.core.track_collection.TrackCollection', fn)
    if 'segmentation' in ctx.prog.cls('tracklib.core.track_collection.TrackCollection').methods:
        for mname, mval in consts.items():
            ta = TrackS(3, {'f0': [15.0, 5.0, 15.0], 'f1': [25.0, 25.0, 5.0]})
            tb = TrackS(2, {'f0': [NAN, 15.0], 'f1': [NAN, 25.0]})
            try:
                TCc([ta, tb]).call('segmentation', ['f0', 'f1'], 'OUT', [10.0, 20.0], mval)
            except orders.Unsupported as e:
                raise shape_error('TrackCollection.segmentation not interpretable: %s' % e, f.loc())
            except (IndexError, KeyError, TypeError, AttributeError) as e:
                bad.append({'mode': mname, 'through': 'TrackCollection.segmentation', 'exception': '%s: %s' % (type(e).__name__, e)})
                continue
            total += 1
            exceeds = [[True, True], [False, True], [True, False]], [[None, None], [True, True]]
            fold = (lambda xs: any(x for x in xs if x is not None)) if mname.endswith('AND') else (lambda xs: all(x for x in xs if x is not None))
            for t_, ex_, tn in ((ta, exceeds[0], 'first track'), (tb, exceeds[1], 'second track')):
                want = [1 if fold(e_) else 0 for e_ in ex_]
                if t_.feats.get('OUT') != want and len(bad) < 6:
                    bad.append({'mode': mname, 'through': 'TrackCollection.segmentation(features f0, f1; thresholds 10, 20)', 'track': tn,
                                'does each feature exceed its threshold (None: NaN)': ex_, 'markers': t_.feats.get('OUT'), 'expected': want})
    # the same feature listed twice with two thresholds: each occurrence is compared with ITS threshold (the pairing is by position)
    for mname, mval in consts.items():
        for thr_, vals in (([10.0, 20.0], [5.0, 15.0, 25.0]), ([20.0, 10.0], [5.0, 15.0, 25.0]), ([10.0, 20.0, 30.0], [5.0, 15.0, 25.0, 35.0])):
            t = TrackS(len(vals), {'f0': list(vals)})
            try:
                orders.make_func(f.node, fn)(**{tr: t, afs: ['f0'] * len(thr_), afo: 'OUT', thr: list(thr_), mode: mval})
            except orders.Unsupported as e:
                raise shape_error('segmentation() not interpretable: %s' % e, f.loc())
            except (IndexError, KeyError, TypeError) as e:
                bad.append({'mode': mname, 'exception': '%s: %s' % (type(e).__name__, e)})
                continue
            total += 1
            want = [(1 if any(v > h for h in thr_) else 0) if mname.endswith('AND') else (1 if all(v > h for h in thr_) else 0) for v in vals]
            if t.feats.get('OUT') != want and len(bad) < 6:
                bad.append({'mode': mname, 'tested features': ['f0'] * len(thr_), 'thresholds': thr_, 'values of f0': vals, 'markers': t.feats.get('OUT'), 'expected': want,
                            'why': 'a feature listed several times is compared with the threshold at the same position each time'})
    # a second segmentation of the same track into the same marker name (other thresholds): the markers are those of the second run
    for mname, mval in consts.items():
        t = TrackS(3, {'f0': [15.0, 5.0, 25.0]})
        runs = [([10.0], [1, 0, 1]), ([20.0], [0, 0, 1]), ([30.0], [0, 0, 0])]
        for thr_, want in runs:
            try:
                orders.make_func(f.node, fn)(**{tr: t, afs: ['f0'], afo: 'OUT', thr: list(thr_), mode: mval})
            except orders.Unsupported as e:
                raise shape_error('segmentation() not interpretable: %s' % e, f.loc())
            except (IndexError, KeyError, TypeError) as e:
                bad.append({'mode': mname, 'exception': '%s: %s' % (type(e).__name__, e)})
                break
            total += 1
            if t.feats.get('OUT') != want and len(bad) < 6:
                bad.append({'mode': mname, 'values': [15.0, 5.0, 25.0], 'successive segmentations of the same track into the same marker, thresholds': [r_[0][0] for r_ in runs],
                            'threshold of this run': thr_[0], 'markers': t.feats.get('OUT'), 'expected': want,
                            'why': 'a marker left by an earlier segmentation must not survive where the value no longer exceeds the threshold'})
                break
    ctx.check(not bad, 'C11.M', f,
              'marker == 1 exactly where a tested feature exceeds ITS threshold (any in AND mode, all in OR mode; NaN '
              'ignored; a value equal to the threshold does not exceed it) on all %d cases' % total,
              witness={'counter-examples': bad}, node=f.node, key='fold')
    ctx.extra['fold_cases'] = total


def rule_T(ctx):
    """C11.T / C11.E pieces tile the track and end at marked observations - split() interpreted on every marker vector up to length 5"""
    from .. import absint
    f = ctx.prog.func(SEG + '.split')
    tr, src, limit = f.params[:3]
    fn = absint.funcs(ctx, SEG, {})
    fn['__globals__'].update({'NAN': NAN})
    TrackS, indices_of, pieces_of = _track_model(ctx, fn)
    bad_t = bad_e = None
    total = 0
    for (lname, lfun), n in itertools.product(LENGTHS.items(), range(1, 10 if ctx.tier == 'thorough' else 6)):
        if lname != 'number of observations' and n > 4:
            continue
        LENGTH[0] = lfun
        for marks in itertools.product((0, 1), repeat=n):
            t = TrackS(n, {'m': list(marks)})
            try:
                res = orders.make_func(f.node, fn)(t, 'm')
            except orders.Unsupported as e:
                raise shape_error('split() not interpretable: %s' % e, f.loc())
            except (IndexError, KeyError, TypeError) as e:
                res = '%s: %s' % (type(e).__name__, e)
            total += 1
            pieces = pieces_of(res)
            case = {'marker': list(marks), 'length of every piece': lname, 'pieces (observation indices)': pieces if pieces is not None else repr(res)}
            if not any(marks):
                if pieces != [] and bad_e is None:
                    bad_e = dict(case, expected='no piece (nothing is marked)')
                continue
            flat = [k for p_ in (pieces or []) for k in p_]
            if (pieces is None or flat != list(range(n))) and bad_t is None:
                bad_t = dict(case, why='taken in order the pieces must contain every observation exactly once, in the original order')
            elif pieces is not None and bad_e is None:
                nonempty = [p_ for p_ in pieces if p_]
                if any(marks[p_[-1]] != 1 for p_ in nonempty[:-1]) or any(any(marks[k] for k in p_[:-1]) for p_ in nonempty):
                    bad_e = dict(case, why='each piece ends at a marked observation (except possibly the last) and contains no other marked observation')
    LENGTH[0] = LENGTHS['number of observations']
    ctx.check(bad_t is None, 'C11.T', f, 'for every marker vector with a marked observation the pieces tile the track: every observation exactly once, in order (%d vectors, lengths 1..5)' % total,
              witness=bad_t, node=f.node, key='tiling')
    ctx.check(bad_e is None, 'C11.E', f, 'each piece ends at a marked observation, holds no other marked one, and nothing is emitted when nothing is marked',
              witness=bad_e, node=f.node, key='cuts')
    ctx.extra['split_cases'] = total


def rule_X(ctx, rule='C11.X'):
    """Track.extract(a, b) returns exactly observations a..b (inclusive) in order with the feature table carried over as a copy -
    the repository's Track class is interpreted on a 4-observation track for every 0 <= a <= b < 4"""
    from .. import absint
    f = ctx.prog.func(TRACK + '.extract')
    fn = absint.funcs(ctx, 'tracklib.core.track')
    T = absint.classref(ctx, TRACK, fn)

    class O(orders.PyStub):
        isa = ('Obs',)

        def __init__(self, k):
            self.k = k
            self.features = []

        def copy(self):
            o = O(self.k)
            o.features = list(self.features)
            return o
    bad = None
    n = 4
    total = 0
    try:
        for a in range(n + 1):
            for b in range(max(a - 1, 0) if a else 0, n):          # b == a-1: the empty range split() asks for after a marked last observation
                if b < a - 1:
                    continue
                src = T([O(k) for k in range(n)], 'u', 't')
                src.call('createAnalyticalFeature', 'f', [10 * k for k in range(n)])
                before = [(o.k, list(o.features)) for o in src.fields['_Track__POINTS']]
                res = src.call('extract', a, b)
                total += 1
                got = [(o.k, list(o.features)) for o in res.fields['_Track__POINTS']] if isinstance(res, orders.Obj) else None
                want = before[a:b + 1]
                case = {'extract': [a, b], 'observations returned (index, features)': got, 'expected': want}
                if got != want:
                    bad = dict(case, why='extract(id_ini, id_fin) designates the inclusive index range, whatever the values of the bounds (0 included)')
                elif res.fields.get('_Track__analyticalFeaturesDico') != src.fields.get('_Track__analyticalFeaturesDico'):
                    bad = dict(case, why='the feature table is not carried over', table=repr(res.fields.get('_Track__analyticalFeaturesDico')))
                elif res.fields.get('_Track__analyticalFeaturesDico') is src.fields.get('_Track__analyticalFeaturesDico'):
                    bad = dict(case, why='the result shares the name->column dictionary of the source: creating or deleting a feature on one changes the other')
                elif [(o.k, list(o.features)) for o in src.fields['_Track__POINTS']] != before:
                    bad = dict(case, why='the source track is modified')
                if bad:
                    break
            if bad:
                break
    except orders.Unsupported as ex:
        raise shape_error('Track.extract not interpretable: %s' % ex, f.loc())
    except (IndexError, KeyError, TypeError, AttributeError) as ex:
        bad = {'exception': '%s: %s' % (type(ex).__name__, ex)}
    ctx.check(bad is None, rule, f, 'extract(id_ini, id_fin) returns exactly the observations id_ini .. id_fin (inclusive, in order) with a copy of the feature table, source untouched (%d index pairs)' % total,
              witness=bad, node=f.node, key='extract')


RULES = [
    ('C11.M', rule_M, 'quick'),
    ('C11.T', rule_T, 'quick'),
    ('C11.X', rule_X, 'quick'),
]
MIN_OBLIGATIONS = 4
