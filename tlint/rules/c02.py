"""C02 - algebraic feature expressions (Track.__evaluate / __applyOperation / operate, utils.makeRPN, operators.py)."""
import ast
import re

from ..alg import Rat
from ..loader import shape_error, anchor_error
from ..sx import Walker, State, Cond, LambdaV
from .. import orders
from ..util import subst_names, single_assignments, add_terms, body_nodocstring, names_stored, unparse

TRACK = 'tracklib.core.track.Track'
OPS = 'tracklib.core.operators'
UT = 'tracklib.core.utils'

EXPLANATION = (
    "Static analysis by interpretation of the source (tlint.orders walks the AST of Track.operate, the evaluator, makeRPN and the operator classes; nothing is imported or executed by CPython): about 560 expression trees over features holding zeros, negatives, equal values, NaN and tiny values are evaluated through the interpreted evaluator and compared with the same tree under ordinary arithmetic with the documented operator definitions; assignments must store under the left-hand name and change nothing else; without '=' the track must be left as it was; operator objects applied directly must give the values of the expression.")
ASSUMPTIONS = ["numeric equality with real arithmetic for all trees/vectors is not decided; only kernels, parse order and the assignment arm are"]
TECHNIQUE = "abstract interpretation of Track.operate(expression), makeRPN, the rewriting passes and the operator classes by the checker's AST interpreter on families of expression trees (every operator pair in both tree shapes, the four operand-kind arms, every documented function, unary minus, assignments, operator objects, the bracket form track[expression]), compared with ordinary arithmetic computed by the checker (bounded case domain)"

SYMS = ['+', '-', '*', '/', '^', '>', '<']


def vr(v):
    if isinstance(v, Rat):
        a = v.single_atom()
        return a if a is not None else repr(v)
    if isinstance(v, Cond):
        return repr(v)
    return repr(v)


# --------------------------------------------------------------------------
# operator tables and kernels
# --------------------------------------------------------------------------
class OpTables:
    def __init__(self, ctx):
        self.ctx = ctx
        c = ctx.prog.cls(OPS + '.Operator')
        self.singleton = {}       # NAME -> class name
        for st in c.node.body:
            if isinstance(st, ast.Assign) and isinstance(st.targets[0], ast.Name) and isinstance(st.value, ast.Call) and \
                    isinstance(st.value.func, ast.Name):
                self.singleton[st.targets[0].id] = st.value.func.id
        self.void = self._dict(c, 'NAMES_DICT_VOID')
        self.nonvoid = self._dict(c, 'NAMES_DICT_NON_VOID')
        if len(self.void) < 30 or len(self.nonvoid) < 10 or len(self.singleton) < 80:
            raise shape_error('operator tables smaller than expected (%d/%d/%d)' % (len(self.void), len(self.nonvoid), len(self.singleton)))

    def _dict(self, c, name):
        v = c.consts.get(name)
        if not isinstance(v, ast.Dict):
            raise anchor_error('Operator.%s not found' % name, OPS)
        out = {}
        for k, val in zip(v.keys, v.values):
            if isinstance(k, ast.Constant) and isinstance(val, ast.Name):
                out[k.value] = val.id
        return out

    def cls_of(self, singleton):
        cn = self.singleton.get(singleton)
        if cn is None:
            raise shape_error('Operator.%s is not a known singleton' % singleton)
        return cn

    def execute(self, clsname):
        f = self.ctx.prog.functions.get('%s.%s.execute' % (OPS, clsname))
        if f is None:
            raise anchor_error('%s.execute not found' % clsname, OPS)
        return f


def kernel(tabs, clsname, args, depth=0):
    """pointwise kernel of an operator class: list of (path conditions, value) for a generic index i.
    `args` maps the formal parameters of execute (after track) to values: feature inputs are strings 'X1'/'X2',
    scalars are Rat atoms / LambdaV."""
    if depth > 6:
        raise shape_error('operator delegation too deep at %s' % clsname)
    f = tabs.execute(clsname)
    params = f.params[1:]
    tr = params[0]
    env = dict(zip(params[1:], args))
    body = body_nodocstring(f)
    w = Walker(f, loop_mode='skip')
    # delegation: track.operate(Operator.Y, ...) calls in sequence
    ops = [s for s in body if any(isinstance(n, ast.Call) and getattr(n.func, 'attr', None) == 'operate' for n in ast.walk(s))]
    loops = [s for s in body if isinstance(s, ast.For)]
    if ops and not loops:
        st = State(dict(env))
        feat = {}          # feature name -> kernel paths currently held under that name
        last = None
        for s in body:
            outs = [o for o in w.run([s], st)]
            if len(outs) != 1:
                raise shape_error('%s.execute: delegation is not straight-line' % clsname, f.loc(s))
            st = outs[0].state
            calls = [e for e in st.events if e.kind == 'call' and e.name == 'operate']
            st.events = [e for e in st.events if not (e.kind == 'call' and e.name == 'operate')]
            for e in calls:
                target = vr(e.args[0])
                if not target.startswith('Operator.'):
                    raise shape_error('%s.execute delegates to %s' % (clsname, target), f.loc(e.node))
                sub_cls = tabs.cls_of(target[len('Operator.'):])
                sub_f = tabs.execute(sub_cls)
                sub_params = sub_f.params[2:]
                sub_args = list(e.args[1:])
                # inputs that name an intermediate feature are replaced by its kernel afterwards
                sub_in = []
                compose = {}
                for k_, a in enumerate(sub_args):
                    if isinstance(a, str) and a in feat:
                        compose['X%d' % (k_ + 1)] = feat[a]
                        sub_in.append('X%d' % (k_ + 1))
                    else:
                        sub_in.append(a)
                out_name = sub_in[-1] if sub_params and sub_params[-1].startswith('af_output') else None
                paths = kernel(tabs, sub_cls, sub_in, depth + 1)
                if compose:
                    newp = []
                    for conds, val in paths:
                        for xname, inner in compose.items():
                            if len(inner) != 1:
                                raise shape_error('%s: composition through a conditional kernel' % clsname)
                            iv = inner[0][1]
                            if isinstance(val, Rat) and isinstance(iv, Rat):
                                val = val.subst(xname + '[0]', iv)
                        newp.append((conds, val))
                    paths = newp
                if out_name is not None and isinstance(sub_args[-1], str):
                    feat[sub_args[-1]] = paths
                last = paths
        if last is None:
            raise shape_error('%s.execute: no delegation found' % clsname, f.loc())
        return last
    if len(loops) != 1:
        raise shape_error('%s.execute: expected one loop writing the output list' % clsname, f.loc())
    lo = loops[0]
    iv = lo.target.id
    pre = [o for o in w.run(body[:body.index(lo)], State(dict(env))) if o.kind == 'fall']
    if len(pre) != 1:
        raise shape_error('%s.execute prologue' % clsname, f.loc())
    st = pre[0].state.fork()
    st.events = []
    st.conds = []
    st.env[iv] = Rat.atom(iv)
    outs = list(w.run(lo.body, st))
    paths = []
    for o in outs:
        stores = [e for e in o.state.events if e.kind == 'store' and vr(e.index) == iv]
        if not stores:
            continue
        # final content of temp[i] on this path
        key = '%s[%s]' % (stores[-1].name, iv)
        val = o.state.env.get(key, stores[-1].value)
        paths.append(([c for c, _ in o.state.conds], _norm_kernel(val, tr, iv)))
    if not paths:
        raise shape_error('%s.execute: loop stores nothing at index i' % clsname, f.loc(lo))
    return [([_norm_cond(c, tr, iv) for c in conds], v) for conds, v in paths]


def _sub_reads(text, tr, iv):
    """getObsAnalyticalFeature(X1, i + c) -> X1[c]"""
    def rep(m):
        name, idx = m.group(1), m.group(2)
        off = idx.replace(iv, '').replace(' ', '').replace('+', '')
        if idx == iv:
            off = '0'
        else:
            mm = re.match(r'^(-?\d+) \+ %s$' % re.escape(iv), idx)
            off = mm.group(1) if mm else idx
        return '%s[%s]' % (name.strip("'"), off)
    return re.sub(r"%s\.getObsAnalyticalFeature\(('?\w+'?), ([^()]*)\)" % re.escape(tr), rep, text)


def _norm_kernel(val, tr, iv):
    if isinstance(val, Rat):
        out = val
        for a in sorted(val.atoms(), key=len, reverse=True):
            na = _sub_reads(a, tr, iv)
            if na != a:
                out = out.subst(a, Rat.atom(na))
        return out
    if isinstance(val, Cond):
        return _norm_cond(val, tr, iv)
    return val


def _norm_cond(c, tr, iv):
    if c.kind == 'cmp':
        return Cond('cmp', c.op, _norm_kernel(c.a, tr, iv), _norm_kernel(c.b, tr, iv))
    if c.kind in ('and', 'or', 'not'):
        return Cond(c.kind, items=[_norm_cond(x, tr, iv) for x in c.items])
    if c.kind == 'truth':
        return Cond('truth', a=_norm_kernel(c.a, tr, iv))
    if c.kind == 'opaque':
        return Cond('opaque', text=_sub_reads(c.text, tr, iv))
    return c


# --------------------------------------------------------------------------
def rule_P(ctx):
    """C02.P precedence, associativity, parentheses"""
    f = ctx.prog.func(UT + '.makeRPN')
    body = body_nodocstring(f)
    loops = [s for s in body if isinstance(s, ast.For) and any(isinstance(x, ast.For) for x in s.body)]
    if len(loops) != 1:
        raise shape_error('makeRPN: loop over the operator groups not found', f.loc())
    gl = loops[0]
    it = gl.iter
    if isinstance(it, ast.Name):
        it = single_assignments(body).get(it.id, f.module.consts.get(it.id))
    if not isinstance(it, (ast.List, ast.Tuple)) or not all(isinstance(e, ast.Constant) and isinstance(e.value, str) for e in it.elts):
        raise shape_error('makeRPN: operator group list not found', f.loc(gl))
    groups = [e.value for e in it.elts]
    pos = {}
    for gi, g in enumerate(groups):
        for ch in g:
            pos[ch] = gi
    need = [('=', '<'), ('=', '>'), ('<', '+'), ('>', '+'), ('<', '-'), ('>', '-'), ('+', '*'), ('-', '*'), ('+', '/'), ('-', '/'),
            ('*', '^'), ('/', '^'), ('^', '@')]
    bad = [(a, b) for a, b in need if not (a in pos and b in pos and pos[a] < pos[b])]
    same = [('+', '-'), ('*', '/'), ('<', '>')]
    bad2 = [(a, b) for a, b in same if pos.get(a) != pos.get(b)]
    ctx.check(not bad and not bad2, 'C02.P', f,
              'operator groups are split in the order  =  then  < >  then  + -  then  * /  then  ^  then function application '
              '(first split = lowest precedence), with + - and * / sharing a level',
              witness={'groups (lowest precedence first)': groups, 'violated order constraints (a must be split before b)': bad,
                       'operators that must share a level': bad2,
                       'why': 'e.g. a+1>b must parse as (a+1)>b: comparisons bind looser than + and -'}, node=gl, key='precedence')
    inner = [s for s in gl.body if isinstance(s, ast.For)]
    if len(inner) != 1 or not isinstance(inner[0].target, ast.Name) or not isinstance(gl.target, ast.Name):
        raise shape_error('makeRPN: scan loop not found', f.loc(gl))
    sc = inner[0]
    w = Walker(f, loop_mode='skip')
    pre = State()
    for o in w.run(body[:body.index(gl)], pre):
        pre = o.state
    sv = vr(pre.env.get('s', Rat.atom('s')))
    r = w.range_info(sc.iter, pre.fork())
    ctx.check(r is not None and w.rel.is_zero(r[0] - (Rat.atom('len(%s)' % sv) - Rat.const(1))) and vr(r[1]) == '-1' and vr(r[2]) == '-1', 'C02.P', f,
              'the string is scanned from its last character to its first: the split happens at the right-most operator of the level (left associativity)',
              witness={'range': [vr(x) for x in r] if r else None,
                       'why': 'a left-to-right scan makes a-b-c evaluate as a-(b-c)'}, node=sc, key='scan-direction')
    # depth bookkeeping: +1 on ')' and -1 on '(' for a right-to-left scan; split only at depth 0, at a character of the level
    pv = sc.target.id
    dnames = [s.targets[0].id for s in gl.body if isinstance(s, ast.Assign) and isinstance(s.targets[0], ast.Name) and
              isinstance(s.value, ast.Constant) and s.value.value == 0]
    if len(dnames) != 1:
        raise shape_error('makeRPN: parenthesis depth counter (reset to 0 for every level) not found', f.loc(gl))
    dn = dnames[0]
    st = pre.fork()
    st.env.update({dn: Rat.atom('D'), gl.target.id: Rat.atom('LEVEL'), pv: Rat.atom(pv)})
    cur = '%s[%s]' % (sv, pv)
    n_ret = 0
    for o in w.run(sc.body, st):
        cjs = [cj for c, _ in o.state.conds for cj in c.conjuncts()]

        def char_is(ch, positive):
            return any(cj.kind == 'cmp' and cj.op == ('==' if positive else '!=') and {vr(cj.a), vr(cj.b)} == {cur, repr(ch)} for cj in cjs)
        if char_is(')', True) and char_is('(', True):
            continue
        exp = Rat.atom('D') + Rat.const(1 if char_is(')', True) else (-1 if char_is('(', True) else 0))
        if o.kind == 'fall':
            got = o.state.env.get(dn)
            ctx.check(isinstance(got, Rat) and w.rel.is_zero(got - exp), 'C02.P', f,
                      "scanning right to left, ')' opens a group (+1), '(' closes it (-1), any other character leaves the depth alone",
                      witness={'path': [repr(c) for c in cjs], 'depth after': vr(got), 'expected': vr(exp)}, node=sc, key='depth')
        elif o.kind == 'return':
            n_ret += 1
            at0 = any((cj.kind == 'cmp' and cj.op == '==' and isinstance(cj.a, Rat) and isinstance(cj.b, Rat) and
                       (w.rel.is_zero(cj.a - cj.b - exp) or w.rel.is_zero(cj.b - cj.a - exp))) or
                      (cj.kind == 'not' and cj.items[0].kind == 'truth' and isinstance(cj.items[0].a, Rat) and w.rel.is_zero(cj.items[0].a - exp))
                      for cj in cjs)
            member = any(cj.kind == 'opaque' and cj.text == '%s in LEVEL' % cur for cj in cjs)
            ctx.check(at0 and member, 'C02.P', f, 'a split happens only outside parentheses (depth 0) at a character of the current level',
                      witness={'conditions of the split': [repr(c) for c in cjs], 'depth at the split': vr(exp)}, node=o.node, key='split-cond')
            loc = single_assignments(sc.body)
            for s_ in ast.walk(sc):
                if isinstance(s_, ast.If) and o.node in s_.body:
                    loc.update(single_assignments(s_.body))
            terms = [unparse(t_).replace(' ', '') for t_ in add_terms(subst_names(o.node.value, loc))] if o.node.value is not None else []
            lens = [n_.args[0].id for n_ in ast.walk(sc.iter) if isinstance(n_, ast.Call) and unparse(n_.func) == 'len' and n_.args and isinstance(n_.args[0], ast.Name)]
            want = [x % {'s': lens[0] if lens else 's', 'p': pv} for x in ('makeRPN(%(s)s[:%(p)s])', 'makeRPN(%(s)s[%(p)s+1:])', '[%(s)s[%(p)s]]')]
            ctx.check(terms == want, 'C02.P', f, 'RPN of a split = RPN(left part) + RPN(right part) + [operator]',
                      witness={'returned': terms, 'expected': want}, node=o.node, key='split-value')
    if n_ret == 0:
        raise shape_error('makeRPN: no split found in the scan loop', f.loc(sc))
    # operand: a fully parenthesised string recurses on its inside, anything else is a single token
    tail = body[body.index(gl) + 1:]
    tw = Walker(f, loop_mode='skip')
    touts = [o for o in tw.run(tail, State({'s': Rat.atom('s')})) if o.kind == 'return']
    rec = [o for o in touts if any(cj.kind == 'cmp' and cj.op == '==' and {vr(cj.a), vr(cj.b)} == {'s.strip()[0]', repr('(')}
                                   for c, _ in o.state.conds for cj in c.conjuncts())]
    ctx.recognise(len(touts) == 2 and len(rec) == 1 and vr(rec[0].value) == 'makeRPN(s.strip()[1:-1])', 'C02.P', f,
                  'a fully parenthesised string recurses on its inside', node=f.node)


def rule_S(ctx):
    """C02.S each operator symbol means the same Python operator in the four operand-kind arms"""
    tabs = OpTables(ctx)
    X1, X2, K = Rat.atom('X1[0]'), Rat.atom('X2[0]'), Rat.atom('K')
    ap = ctx.prog.func(TRACK + '.__applyOperation') if False else None
    for q, fi in ctx.prog.functions.items():
        if q.startswith(TRACK + '.') and fi.name.endswith('__applyOperation'):
            ap = fi
    if ap is None:
        raise anchor_error('Track.__applyOperation not found', TRACK)
    w = Walker(ap, loop_mode='skip')

    def expect(sym, a, b):
        if sym == '+':
            return a + b
        if sym == '-':
            return a - b
        if sym == '*':
            return a * b
        if sym == '/':
            return a / b
        if sym == '^':
            return Rat.atom('(%s ** %s)' % (repr(a), repr(b)))
        if sym == '>':
            return Cond('cmp', '<', b, a)
        if sym == '<':
            return Cond('cmp', '<', a, b)

    def same(v, e):
        if isinstance(e, Cond):
            if isinstance(v, Cond):
                return v.key() == e.key()
            return isinstance(v, Rat) and vr(v) in ('ind(%r)' % e,)
        return isinstance(v, Rat) and w.rel.is_zero(v - e)

    for sym in SYMS:
        arms = [('feature %s feature' % sym, sym, ['X1', 'X2', 'OUT'], expect(sym, X1, X2)),
                ('feature %s scalar' % sym, 's' + sym, ['X1', K, 'OUT'], expect(sym, X1, K)),
                ('scalar %s feature' % sym, 'sr' + sym, ['X1', K, 'OUT'], expect(sym, K, X1))]
        for label, key, args, exp in arms:
            if key not in tabs.void:
                ctx.violation('C02.S', ap, 'the evaluator has a table entry for every operand kind of %s' % sym, {'missing key': key}, node=ap.node, key='missing:' + key)
                continue
            cn = tabs.cls_of(tabs.void[key])
            f = tabs.execute(cn)
            paths = kernel(tabs, cn, args)
            # ignore guard paths that answer NaN (division by zero guard)
            main = [(c, v) for c, v in paths if not (isinstance(v, Rat) and vr(v) in ('NAN', 'nan'))]
            ok = bool(main) and all(same(v, exp) for c, v in main)
            ctx.check(ok, 'C02.S', f,
                      "'%s' [%s] computes  %s  at every observation (table entry %r -> %s)" % (sym, label, vr(exp), key, cn),
                      witness={'kernel found': [vr(v) for c, v in main], 'expected': vr(exp),
                               'why': 'the same symbol must mean the same arithmetic whatever the kinds of its operands, operands in source order'},
                      node=f.node, key='arm:%s' % key)
        # dispatch in __applyOperation: "s"+operator gets (op1, float(op2)), "sr"+operator gets (op2, float(op1))
    t = unparse(ap.node)
    ctx.recognise("self.operate(Operator.NAMES_DICT_VOID[operator], op1, op2, out_af)" in t and
                  "self.operate(Operator.NAMES_DICT_VOID['s' + operator], op1, float(op2), out_af)" in t and
                  "self.operate(Operator.NAMES_DICT_VOID['sr' + operator], op2, float(op1), out_af)" in t, 'C02.S', ap,
                  "dispatch: feature-feature -> table[op](op1, op2); feature-scalar -> table['s'+op](op1, float(op2)); scalar-feature -> table['sr'+op](op2, float(op1))",
                  node=ap.node)
    # scalar-scalar arm: Python operator of the same name, operands in order
    want_ops = {'+': ast.Add, '-': ast.Sub, '*': ast.Mult, '/': ast.Div, '^': ast.Pow, '>': ast.Gt, '<': ast.Lt}
    found = {}
    for n in ast.walk(ap.node):
        if isinstance(n, ast.If) and isinstance(n.test, ast.Compare) and unparse(n.test.left) == 'operator' and \
                isinstance(n.test.comparators[0], ast.Constant) and n.test.comparators[0].value in want_ops and \
                len(n.body) == 1 and isinstance(n.body[0], ast.Return):
            rv = n.body[0].value
            sym = n.test.comparators[0].value
            if isinstance(rv, ast.BinOp) and unparse(rv.left) == 'op1' and unparse(rv.right) == 'op2':
                found[sym] = type(rv.op)
            elif isinstance(rv, ast.Compare) and unparse(rv.left) == 'op1' and unparse(rv.comparators[0]) == 'op2':
                found[sym] = type(rv.ops[0])
            else:
                found[sym] = ('other', unparse(rv))
    for sym in SYMS:
        got = found.get(sym)
        ctx.check(got is want_ops[sym], 'C02.S', ap, "'%s' between two numbers is Python's %s (op1 %s op2)" % (sym, want_ops[sym].__name__, sym),
                  witness={'found': got.__name__ if isinstance(got, type) else got,
                           'why': "e.g. BitXor on two floats raises TypeError: 'a*2^3' cannot be evaluated"}, node=ap.node, key='scalar:' + sym)


def rule_T(ctx):
    """C02.T documented pointwise / aggregate functions and D, I, D2"""
    tabs = OpTables(ctx)
    X = lambda c: Rat.atom('X1[%d]' % c)
    spec = {
        'D': ('X[i] - X[i-1]', X(0) - X(-1)),
        'D2': ('X[i+1] - 2 X[i] + X[i-1]', X(1) - Rat.const(2) * X(0) + X(-1)),
        'I': ('Y[i-1] + X[i]', None),
    }
    for key in ('D', 'D2'):
        cn = tabs.cls_of(tabs.void[key])
        f = tabs.execute(cn)
        paths = kernel(tabs, cn, ['X1', 'OUT'])
        w = Walker(f)
        ok = len(paths) == 1 and isinstance(paths[0][1], Rat) and w.rel.is_zero(paths[0][1] - spec[key][1])
        ctx.check(ok, 'C02.T', f, '%s{X} is %s' % (key, spec[key][0]), witness={'kernel': [vr(v) for c, v in paths]}, node=f.node, key='kernel:' + key)
        # boundaries: NaN where the stencil leaves the track
        body = body_nodocstring(f)
        lo = [s for s in body if isinstance(s, ast.For)][0]
        r = w.range_info(lo.iter, State())
        size = Rat.atom('track.size()')
        want_lo, want_hi = (1, size) if key == 'D' else (1, size - Rat.const(1))
        nan_idx = sorted(unparse(s.targets[0].slice) for s in body if isinstance(s, ast.Assign) and isinstance(s.targets[0], ast.Subscript)
                         and unparse(s.value) in ('NAN', 'nan'))
        want_nan = ['0'] if key == 'D' else ['0', 'track.size() - 1']
        ctx.check(r is not None and vr(r[0]) == str(want_lo) and w.rel.is_zero(r[1] - want_hi) and nan_idx == want_nan, 'C02.T', f,
                  '%s: computed where the stencil fits, NaN at the end(s) where it does not' % key,
                  witness={'range': [vr(x) for x in r] if r else None, 'NaN at': nan_idx}, node=lo, key='bounds:' + key)
    ctx.check(tabs.void.get('I') == 'INTEGRATOR' and tabs.singleton.get('INTEGRATOR') == 'Integrator', 'C02.T', tabs.execute('Integrator'),
              'I{X} is the running-sum operator (its recurrence is decided under C17.I)', witness={'I ->': tabs.void.get('I')}, node=None, key='I')
    # math functions
    for key, fn in (('SQRT', 'sqrt'), ('EXP', 'exp'), ('COS', 'cos'), ('SIN', 'sin'), ('TAN', 'tan'), ('LOG', 'log')):
        cn = tabs.cls_of(tabs.void[key])
        f = tabs.execute(cn)
        paths = kernel(tabs, cn, ['X1', 'OUT'])
        main = [(c, v) for c, v in paths if not (isinstance(v, Rat) and (vr(v) in ('NAN', 'nan') or v.isconst()))]
        got = [vr(v) for c, v in main]
        ok = bool(got) and all(g.startswith(fn + '(') and 'X1[0]' in g for g in got)
        ctx.check(ok, 'C02.T', f, '%s{X} applies math.%s pointwise' % (key, fn), witness={'kernel': got}, node=f.node, key='math:' + key)
    # sign-case lambdas
    cases = {'ABS': lambda x: abs(x), 'DIODE': lambda x: x if x > 0 else 0, 'SIGN': lambda x: (1 if x > 0 else -1) if x != 0 else None}
    for key, ref in cases.items():
        cn = tabs.cls_of(tabs.void[key])
        f = tabs.execute(cn)
        lams = [n for n in ast.walk(f.node) if isinstance(n, ast.Lambda)]
        if len(lams) != 1:
            raise shape_error('%s: lambda not found' % cn, f.loc())
        arg = lams[0].args.args[0].arg
        bad = []
        for x in (-3, -1, 0, 2, 5):
            try:
                got = orders.ev(lams[0].body, {arg: x})
            except orders.Unsupported as e:
                raise shape_error('%s lambda not interpretable: %s' % (cn, e), f.loc())
            want = ref(x)
            if want is not None and got != want:
                bad.append({'x': x, 'result': got, 'expected': want})
        ctx.check(not bad, 'C02.T', f, '%s{X} on the sign cases x<0, x=0, x>0' % key, witness={'wrong cases': bad}, node=lams[0], key='sign:' + key)
        t = unparse(f.node)
        ctx.recognise('track.operate(Operator.APPLY, af_input, f, af_output)' in t, 'C02.T', f, '%s applies its lambda pointwise through APPLY' % key, node=f.node)
    # NaN-skipping aggregates with co-updated count
    for key, cn, kind in (('SUM', 'Sum', 'sum'), ('AVG', 'Averager', 'mean'), ('VAR', 'Variance', 'var'), ('MSE', 'Mse', 'mse')):
        if tabs.cls_of(tabs.nonvoid[key]) != cn:
            ctx.violation('C02.T', tabs.execute(cn), '%s names the %s operator' % (key, cn), {'table': tabs.nonvoid[key]}, node=None, key='agg-table:' + key)
            continue
        _aggregate(ctx, tabs.execute(cn), kind)
    for key, cn, direction, index in (('MIN', 'Min', 'min', False), ('MAX', 'Max', 'max', False), ('ARGMIN', 'Argmin', 'min', True), ('ARGMAX', 'Argmax', 'max', True)):
        _extremum(ctx, tabs.execute(tabs.cls_of(tabs.nonvoid[key])), direction, index)
    # median-style siblings select the same order statistics
    stats = {}
    for name, q in (('Median', OPS + '.Median.execute'), ('Mad', OPS + '.Mad.execute'), ('co_median', UT + '.co_median')):
        f = ctx.prog.func(q)
        stats[name] = _order_stat(f)
    ok = all(v['odd'] == ['N//2'] and sorted(v['even']) == ['N/2', 'N/2-1'] for v in stats.values())
    ctx.check(ok, 'C02.T', ctx.prog.func(OPS + '.Mad.execute'),
              'median-style operators pick the middle element for an odd count and the mean of the two middle ones for an even count',
              witness={'order statistics': stats}, node=None, key='order-stat')
    # STD / RMSE are square roots of VAR / MSE
    for cn, inner in (('StdDev', 'VARIANCE'), ('Rmse', 'MSE')):
        f = tabs.execute(cn)
        ctx.recognise('math.sqrt(track.operate(Operator.%s, af_input))' % inner in unparse(f.node), 'C02.T', f, '%s = sqrt(%s)' % (cn, inner), node=f.node)


def _agg_loop(f):
    body = body_nodocstring(f)
    loops = [s for s in body if isinstance(s, ast.For)]
    if len(loops) != 1:
        raise shape_error('%s: aggregate loop not found' % f.qual, f.loc())
    return body, loops[0]


def _aggregate(ctx, f, kind):
    body, lo = _agg_loop(f)
    tr, afin = f.params[1:3]
    w = Walker(f, loop_mode='skip')
    pre = [o for o in w.run(body[:body.index(lo)], State()) if o.kind == 'fall'][0].state
    iv = lo.target.id
    st = pre.fork()
    st.events = []
    st.conds = []
    assigned = sorted(names_stored(lo.body) - {iv})
    for v in assigned:
        st.env[v] = Rat.atom(v + '@')
    st.env[iv] = Rat.atom(iv)
    outs = list(w.run(lo.body, st))
    x = Rat.atom('%s.getObsAnalyticalFeature(%s, %s)' % (tr, afin, iv))
    every = None
    for o in outs:
        nm = {e.name for e in o.state.events if e.kind == 'assign'}
        every = nm if every is None else every & nm
    accs = sorted({e.name for o in outs for e in o.state.events if e.kind == 'assign' and e.name in pre.env and e.name != iv})
    needs_count = kind in ('mean', 'var', 'mse')
    for o in outs:
        ch = {e.name: e for e in o.state.events if e.kind == 'assign' and e.name in accs}
        skipped = any('isnan(' in repr(c) and not repr(c).startswith('not ') for c, _ in o.state.conds)
        pathtxt = [repr(c) for c, _ in o.state.conds]
        if skipped:
            ctx.check(not ch, 'C02.T', f, '%s: a NaN value changes neither the accumulator nor the count' % f.cls.name,
                      witness={'updated on the NaN path': sorted(ch), 'path': pathtxt,
                               'why': 'a NaN that is counted but not summed makes the mean/variance too small'}, node=lo, key='nan-path')
            continue
        ctx.check(len(ch) == len(accs), 'C02.T', f, '%s: accumulator%s updated together for every non-NaN value' % (f.cls.name, ' and count' if needs_count else ''),
                  witness={'updated': sorted(ch), 'accumulators': accs, 'path': pathtxt}, node=lo, key='coupdate')
        guarded = any(repr(c).startswith('not ') and 'isnan(' in repr(c) for c, _ in o.state.conds)
        ctx.check(guarded, 'C02.T', f, '%s: values are accumulated only after the NaN test' % f.cls.name, witness={'path': pathtxt}, node=lo, key='nan-guard')
        for name, e in ch.items():
            inc = e.value - Rat.atom(name + '@')
            if inc.isconst():
                ctx.check(inc.constval() == 1, 'C02.T', f, '%s: the count grows by one per value' % f.cls.name, witness={'increment': vr(inc)}, node=lo, key='count-inc')
            else:
                mean = pre.env.get('mean') if kind == 'var' else None
                want = {'sum': x, 'mean': x, 'mse': x * x, 'var': (x - (mean if isinstance(mean, Rat) else Rat.atom('mean'))) ** 2}[kind]
                ctx.check(w.rel.is_zero(inc - want), 'C02.T', f, '%s: each value contributes %s' % (f.cls.name, vr(want)), witness={'contribution': vr(inc)}, node=lo,
                          key='contrib')
    if needs_count:
        rets = [s for s in body if isinstance(s, ast.Return)]
        cnt = [a for a in accs if isinstance(pre.env.get(a), Rat) and pre.env[a].isconst()]
        ok = len(rets) == 1 and isinstance(rets[0].value, ast.BinOp) and isinstance(rets[0].value.op, ast.Div) and \
            unparse(rets[0].value.left) in accs and unparse(rets[0].value.right) in accs and unparse(rets[0].value.left) != unparse(rets[0].value.right)
        ctx.check(ok, 'C02.T', f, '%s: result = accumulated sum / number of non-NaN values' % f.cls.name, witness={'return': unparse(rets[0].value) if rets else None},
                  node=f.node, key='ratio')
    r = w.range_info(lo.iter, pre)
    ctx.check(r is not None and vr(r[0]) == '0' and vr(r[1]) == '%s.size()' % tr, 'C02.T', f, '%s: every observation is visited' % f.cls.name,
              witness={'range': unparse(lo.iter)}, node=lo, key='range')


def _extremum(ctx, f, direction, index):
    body, lo = _agg_loop(f)
    tr, afin = f.params[1:3]
    w = Walker(f, loop_mode='skip')
    pre = [o for o in w.run(body[:body.index(lo)], State()) if o.kind == 'fall'][0].state
    iv = lo.target.id
    st = pre.fork()
    st.events = []
    st.conds = []
    assigned = sorted(names_stored(lo.body) - {iv})
    for v in assigned:
        st.env[v] = Rat.atom(v + '@')
    st.env[iv] = Rat.atom(iv)
    x = Rat.atom('%s.getObsAnalyticalFeature(%s, %s)' % (tr, afin, iv))
    outs = list(w.run(lo.body, st))
    every = None
    for o in outs:
        nm = {e.name for e in o.state.events if e.kind == 'assign'}
        every = nm if every is None else every & nm
    n = 0
    for o in outs:
        ch = {e.name: e for e in o.state.events if e.kind == 'assign' and e.name not in every}
        if not ch:
            continue
        n += 1
        best = [k for k, e in ch.items() if isinstance(e.value, Rat) and w.rel.is_zero(e.value - x)]
        idx = [k for k, e in ch.items() if isinstance(e.value, Rat) and vr(e.value) == iv]
        ok = len(best) == 1 and (len(idx) == 1 if index else True) and len(ch) == (2 if index else 1)
        ctx.check(ok, 'C02.T', f, '%s: the running %s%s updated together' % (f.cls.name, direction, ' and its index are' if index else ' is'),
                  witness={'updated': sorted(ch)}, node=lo, key='coupdate')
        if not best:
            continue
        b = best[0]
        g = None
        for c, _ in o.state.conds:
            for cj in c.conjuncts():
                if cj.kind == 'cmp' and cj.op == '<' and isinstance(cj.a, Rat) and isinstance(cj.b, Rat):
                    if w.rel.is_zero(cj.a - x) and vr(cj.b) == b + '@':
                        g = 'min'
                    if w.rel.is_zero(cj.b - x) and vr(cj.a) == b + '@':
                        g = 'max'
        ctx.check(g == direction, 'C02.T', f, '%s: the update is taken on a strict %s comparison' % (f.cls.name, '<' if direction == 'min' else '>'),
                  witness={'path': [repr(c) for c, _ in o.state.conds]}, node=lo, key='strict')
        seed = pre.env.get(b)
        oks = isinstance(seed, Rat) and seed.isconst() and ((direction == 'min' and seed.constval() >= 10 ** 100) or (direction == 'max' and seed.constval() <= -10 ** 100))
        ctx.check(oks, 'C02.T', f, '%s: the scan starts from a sentinel beyond every value' % f.cls.name, witness={'seed': vr(seed)}, node=lo, key='seed')
    if n == 0:
        raise shape_error('%s: no update path' % f.qual, f.loc(lo))
    rets = [s for s in body if isinstance(s, ast.Return)]
    ctx.recognise(len(rets) == 1, 'C02.T', f, '%s returns its running result' % f.cls.name, node=f.node)


def _order_stat(f):
    """which order statistics a median-style function reads: {'odd': [...], 'even': [...]} in terms of N"""
    out = {'odd': [], 'even': []}
    src = unparse(f.node)
    iff = [n for n in ast.walk(f.node) if isinstance(n, ast.If) and '% 2' in unparse(n.test)]
    if len(iff) != 1:
        raise shape_error('%s: parity test not found' % f.qual, f.loc())
    n_ = iff[0]
    t = unparse(n_.test)
    m = re.match(r'^(\w+) % 2 == ([01])$', t)
    if not m:
        raise shape_error('%s: parity test not understood: %s' % (f.qual, t), f.loc(n_))
    var, par = m.group(1), int(m.group(2))
    even_body, odd_body = (n_.body, n_.orelse) if par == 0 else (n_.orelse, n_.body)

    def idxs(stmts):
        res = []
        for s in stmts:
            for c in ast.walk(s):
                if isinstance(c, ast.Call) and getattr(c.func, 'id', None) == 'int' and var in unparse(c):
                    res.append(_canon_idx(c.args[0], var))
                if isinstance(c, ast.BinOp) and isinstance(c.op, ast.FloorDiv) and unparse(c.left) == var:
                    res.append(_canon_idx(c, var))
        return sorted(set(res), reverse=True) if len(res) > 1 else sorted(set(res))
    out['odd'] = idxs(odd_body)
    out['even'] = idxs(even_body)
    return out


def _canon_idx(node, var):
    """canonical text of an index expression in N: N//2, N/2, N/2-1, (N-1)/2 ..."""
    w = Walker(None)
    v = w.ex(node, State({var: Rat.atom('N')}))
    # evaluate the order statistic it designates for odd / even N by plugging N = 2m+1 / 2m
    txt = vr(v)
    known = {'floor(1/2*N)': 'N//2', '1/2*N': 'N/2', '-1 + 1/2*N': 'N/2-1', '-1/2 + 1/2*N': 'N//2', '-1 + floor(1/2*N)': 'N/2-1'}
    if unparse(node).replace(' ', '') in ('(%s-1)/2' % var,):
        return 'N//2'
    return known.get(txt, txt)


def rule_A(ctx):
    """C02.A the '=' arm"""
    ap = None
    for q, fi in ctx.prog.functions.items():
        if q.startswith(TRACK + '.') and fi.name.endswith('__applyOperation'):
            ap = fi
    if ap is None:
        raise anchor_error('Track.__applyOperation not found', TRACK)
    w = Walker(ap, loop_mode='once', solve_eq=False)
    st = State({ap.params[3]: '='})
    outs = [o for o in w.run(body_nodocstring(ap), st) if o.kind == 'return']
    if len(outs) < 4:
        raise shape_error('__applyOperation: "=" arm paths not found', ap.loc())
    op1, op2 = ap.params[1], ap.params[2]
    has1 = 'bool(self.hasAnalyticalFeature(%s))' % op1
    has2 = 'bool(self.hasAnalyticalFeature(%s))' % op2
    n_lit = n_feat = 0
    lit_paths = []
    for o in outs:
        conds = [repr(c) for c, _ in o.state.conds]
        calls = [e for e in o.state.events if e.kind == 'call']
        names = [e.name for e in calls]
        rhs_feature = has2 in conds
        rhs_literal = ('not ' + has2) in conds
        lhs_exists = has1 in conds or any(c.startswith('(') and has1 in c and ' or ' in c for c in conds) or any("%s in ['x'" % op1 in c and 'not' not in c.split(' in ')[0] for c in conds)
        removes = [e for e in calls if e.name == 'removeAnalyticalFeature']
        for e in removes:
            tgt = vr(e.args[0])
            ec = [repr(c) for c, _ in e.conds]
            if tgt == op2:
                ok = any(c.replace(' ', '') in ("%s[0]=='#'" % op2, "'#'==%s[0]" % op2) for c in ec)
                ctx.check(ok, 'C02.A', ap,
                          "the right-hand operand is deleted after an assignment only when it is an evaluator temporary (its name starts with '#')",
                          witness={'guards of the deletion': ec, 'why': "'x=a' must leave the user's feature a in place"}, node=e.node, key='remove-rhs')
            elif tgt == op1:
                # replaced target: the source must have been read before
                reads = [x for x in calls if x.name == 'getAnalyticalFeature' and vr(x.args[0]) == op2]
                creates = [x for x in calls if x.name == 'createAnalyticalFeature' and vr(x.args[0]) == op1]
                ok = bool(reads) and all(x.seq < e.seq for x in reads) and bool(creates) and all(x.seq > e.seq for x in creates)
                ctx.check(ok, 'C02.A', ap,
                          'when an existing feature is overwritten by another feature the source is read before the target is deleted, and the target is recreated from it',
                          witness={'source read before the deletion': bool(reads) and all(x.seq < e.seq for x in reads),
                                   'why': "'C=C' or 'A=(A)': deleting the target first destroys the value that was to be assigned"}, node=e.node, key='read-before-delete')
            else:
                ctx.violation('C02.A', ap, 'the assignment arm deletes nothing but the replaced target and evaluator temporaries', {'deleted': tgt}, node=e.node, key='remove-other')
        if rhs_literal:
            n_lit += 1
            lit_paths.append((o, names))
        if rhs_feature:
            n_feat += 1
    if n_lit == 0 or n_feat == 0:
        raise shape_error('__applyOperation: literal / feature right-hand-side paths not both found', ap.loc())
    from .c03 import cond_eval
    for case, exists, coord in (('an existing feature', True, False), ('a coordinate x/y/z', True, True), ('a new name', False, False)):
        def orc(c, exists=exists, coord=coord):
            if c.kind == 'truth' and vr(c.a) == 'self.hasAnalyticalFeature(%s)' % op1:
                return exists
            if c.kind == 'in' and vr(c.a) == op1 and all(isinstance(x, str) for x in c.items):
                return coord if set(c.items) <= {'x', 'y', 'z', 't'} else None
            return None
        feas = [(o, names) for o, names in lit_paths if all(cond_eval(c, orc) is not False for c, _ in o.state.conds)]
        if not feas:
            raise shape_error("__applyOperation: no path for 'name=constant' with %s" % case, ap.loc())
        for o, names in feas:
            stores = [n for n in names if n in ('setObsAnalyticalFeature', 'updateAnalyticalFeature')]
            creates = [n for n in names if n == 'createAnalyticalFeature']
            if exists:
                ctx.check(bool(stores), 'C02.A', ap, "'name=constant' where name is %s stores the constant in it" % case,
                          witness={'calls on this path': names, 'path': [repr(c) for c, _ in o.state.conds],
                                   'why': 'createAnalyticalFeature returns without writing when the name exists: the assignment is a silent no-op'},
                          node=o.node, key='literal:' + case)
            else:
                ctx.check(bool(creates), 'C02.A', ap, "'name=constant' with a new name creates the feature", witness={'calls': names}, node=o.node, key='literal:new')
    # coordinates: x -> setX..., y -> setY..., z -> setZ...
    t = unparse(ap.node)
    for letter in 'xyz':
        ctx.recognise("if op1 == '%s':\n    self.set%sFromAnalyticalFeature(op2)" % (letter, letter.upper()) in
                      re.sub(r'\n\s+', '\n', t).replace("\nself.set", "\n    self.set"), 'C02.A', ap,
                      "assigning to '%s' writes the %s coordinate from the right-hand feature" % (letter, letter.upper()), node=ap.node)
    # literal path for an existing name: every observation gets the value
    fl = [n for n in ast.walk(ap.node) if isinstance(n, ast.For) and 'setObsAnalyticalFeature' in unparse(n)]
    if fl:
        ctx.recognise(unparse(fl[0].iter) == 'range(self.size())' and 'self.setObsAnalyticalFeature(op1, i, float(op2))' in unparse(fl[0]), 'C02.A', ap,
                      'the constant is stored at every observation', node=fl[0])


def rule_O(ctx):
    """C02.O Track.operate passes arguments to execute in signature order"""
    f = ctx.prog.func(TRACK + '.operate')
    kinds = {'UnaryOperator': ['arg1'], 'BinaryOperator': ['arg1', 'arg2'], 'ScalarOperator': ['arg1', 'arg2'],
             'UnaryVoidOperator': ['arg1', 'arg2'], 'BinaryVoidOperator': ['arg1', 'arg2', 'arg3'], 'ScalarVoidOperator': ['arg1', 'arg2', 'arg3']}
    for n in ast.walk(f.node):
        if isinstance(n, ast.If) and isinstance(n.test, ast.Call) and getattr(n.test.func, 'id', None) == 'isinstance' and \
                unparse(n.test.args[0]) == 'operator' and unparse(n.test.args[1]) in kinds:
            kind = unparse(n.test.args[1])
            calls = [c for s in n.body if isinstance(s, ast.If) and unparse(s.test) == 'isinstance(arg1, str)'
                     for c in ast.walk(s) if isinstance(c, ast.Call) and getattr(c.func, 'attr', None) == 'execute']
            if not calls:
                raise shape_error('operate: string-argument call for %s not found' % kind, f.loc(n))
            got = [unparse(a) for a in calls[0].args]
            ctx.check(got == ['self'] + kinds[kind], 'C02.O', f, '%s: execute(track, %s) in this order' % (kind, ', '.join(kinds[kind])),
                      witness={'arguments': got}, node=calls[0], key='order:' + kind)
            if kind.endswith('VoidOperator'):
                outp = kinds[kind][-1]
                dflt = [s for s in n.body if isinstance(s, ast.If) and unparse(s.test) in ('%s == None' % outp, '%s is None' % outp)]
                ok = len(dflt) == 1 and unparse(dflt[0].body[0]) == '%s = arg1' % outp
                ctx.check(ok, 'C02.O', f, '%s: the default output feature is the first input' % kind, witness={}, node=n, key='default:' + kind)
    # execute signatures of the six kinds
    for kind, nparam in (('UnaryOperator', 2), ('BinaryOperator', 3), ('ScalarOperator', 3), ('UnaryVoidOperator', 3), ('BinaryVoidOperator', 4), ('ScalarVoidOperator', 4)):
        bad = []
        for c in ctx.prog.subclasses_of(kind):
            ex = c.methods.get('execute')
            if ex is not None and len(ex.params) - 1 != nparam:
                bad.append({c.name: ex.params})
        ctx.check(not bad, 'C02.O', f, 'every %s has the execute signature Track.operate assumes (%d arguments after self)' % (kind, nparam),
                  witness={'other signatures': bad}, node=None, key='sig:' + kind)


def rule_N(ctx):
    """C02.N evaluation without '=' leaves the track as it was (the #output wrapper)"""
    f = None
    for q, fi in ctx.prog.functions.items():
        if q.startswith(TRACK + '.') and fi.name.endswith('__evaluate'):
            f = fi
    if f is None:
        raise anchor_error('Track.__evaluate not found', TRACK)
    w = Walker(f, loop_mode='skip')
    outs = [o for o in w.run(body_nodocstring(f), State())]
    nonvoid = [o for o in outs if o.kind == 'return' and o.value is not None]
    if not nonvoid:
        raise shape_error('__evaluate: value-returning path not found', f.loc())
    for o in nonvoid:
        calls = [e for e in o.state.events if e.kind == 'call']
        get = [e for e in calls if e.name == 'getAnalyticalFeature' and e.args and isinstance(e.args[0], str) and e.args[0].startswith('#')]
        rm = [e for e in calls if e.name == 'removeAnalyticalFeature' and e.args and isinstance(e.args[0], str) and e.args[0].startswith('#')]
        ok = len(get) == 1 and len(rm) == 1 and get[0].args[0] == rm[0].args[0] and get[0].seq < rm[0].seq and vr(o.value) == get[0].value
        ctx.check(ok, 'C02.N', f, "without '=' the result is parked under a '#' name, read, and that name removed before returning",
                  witness={'reads': [e.args[0] for e in get], 'removes': [e.args[0] for e in rm]}, node=o.node, key='wrapper')
    t = unparse(f.node)
    ctx.recognise("void = '=' in expression" in t and "expression = '#output = ' + expression" in t, 'C02.N', f,
                  "an expression without '=' is evaluated as an assignment to the temporary '#output'", node=f.node)
    ctx.recognise('self.__evaluateRPN(Track.__double_prime(makeRPN(expression)), external)' in t, 'C02.N', f,
                  'the rewritten string is parsed by makeRPN and evaluated by the stack machine', node=f.node)
    # stack machine: operands popped right then left, pushed result
    g = None
    for q, fi in ctx.prog.functions.items():
        if q.startswith(TRACK + '.') and fi.name.endswith('__evaluateRPN'):
            g = fi
    _stack_machine(ctx, g)


def _stack_machine(ctx, g):
    """one step of the RPN stack machine, on a symbolic token"""
    body = body_nodocstring(g)
    loops = [s for s in body if isinstance(s, ast.For)]
    if len(loops) != 1 or not isinstance(loops[0].target, ast.Name):
        raise shape_error('__evaluateRPN: token loop not found', g.loc())
    lo = loops[0]
    w = Walker(g, loop_mode='skip')
    pre = State()
    for o in w.run(body[:body.index(lo)], pre):
        pre = o.state
    ctx.recognise(unparse(lo.iter) == g.params[1], 'C02.N', g, 'the stack machine reads the tokens in RPN order', node=lo)
    stacks = [k for k, v in pre.env.items() if isinstance(v, list) and not v]
    opl = [k for k, v in pre.env.items() if isinstance(v, list) and '+' in v and '=' in v]
    cnts = [k for k, v in pre.env.items() if isinstance(v, Rat) and v.isconst() and v.constval() == 0]
    if len(stacks) != 1 or len(opl) != 1 or not cnts:
        raise shape_error('__evaluateRPN: empty stack / operator list / temporaries counter not found', g.loc())
    st = pre.fork()
    st.env[stacks[0]] = Rat.atom('STACK')
    st.env[opl[0]] = Rat.atom('OPERATORS')
    for c in cnts:
        st.env[c] = Rat.atom('CNT:' + c)
    tok = lo.target.id
    st.env[tok] = Rat.atom('TOK')
    ext = g.params[2]
    n_op = n_plain = 0
    for o in w.run(lo.body, st):
        if o.kind not in ('fall', 'continue'):
            raise shape_error('__evaluateRPN: the token loop exits early', g.loc(o.node))
        cjs = [repr(cj) for c, _ in o.state.conds for cj in c.conjuncts()]
        evs = [e for e in o.state.events if e.kind == 'call']
        pops = [e for e in evs if e.name == 'pop' and vr(e.recv) == 'STACK' and not e.args]
        apps = [e for e in evs if e.name == 'append' and vr(e.recv) == 'STACK']
        appl = [e for e in evs if e.name.endswith('__applyOperation')]
        desc = {'path': cjs, 'calls': [e.value if isinstance(e.value, str) else repr(e) for e in evs]}
        if 'TOK in OPERATORS' in cjs:
            n_op += 1
            ok = len(pops) == 2 and len(appl) == 1 and len(apps) == 1 and pops[0].seq < pops[1].seq < appl[0].seq < apps[0].seq
            ctx.check(ok, 'C02.N', g, 'an operator token pops two operands, applies the operator and pushes the result', witness=desc, node=lo, key='op-step')
            if not ok:
                continue
            a = appl[0].args
            okl = len(a) == 4 and vr(a[0]) == pops[1].value and vr(a[1]) == pops[0].value and vr(a[2]) == 'TOK'
            ctx.check(okl, 'C02.N', g, 'the operand popped first is the right operand: the operator is applied as (second popped, first popped, token)',
                      witness={'applied to': [vr(x) for x in a], 'first popped': pops[0].value, 'second popped': pops[1].value,
                               'why': 'a-b in RPN is [a, b, -]: b is on top of the stack'}, node=appl[0].node, key='operand-order')
            cn = [c for c in cnts if len(a) == 4 and vr(a[3]) == 'CNT:' + c]
            after = o.state.env.get(cn[0]) if cn else None
            ctx.check(bool(cn) and isinstance(after, Rat) and w.rel.is_zero(after - Rat.atom('CNT:' + cn[0]) - Rat.const(1)), 'C02.N', g,
                      'every application gets its own temporary number (the counter passed is incremented afterwards)',
                      witness={'counter passed': vr(a[3]) if len(a) == 4 else None, 'counter after': vr(after) if after is not None else None,
                               'why': 'two intermediate results sharing a number overwrite each other: (a+b)*(c+d) reads c+d twice'},
                      node=appl[0].node, key='counter')
            ctx.check(vr(apps[0].args[0]) == appl[0].value, 'C02.N', g, 'the result of the application is pushed', witness=desc, node=apps[0].node, key='push-result')
        else:
            n_plain += 1
            isext = ('TOK in %s' % ext) in cjs
            want = '%s[TOK]' % ext if isext else 'TOK'
            ok = not pops and not appl and len(apps) == 1 and vr(apps[0].args[0]) == want and \
                all(vr(o.state.env.get(c)) == 'CNT:' + c for c in cnts)
            ctx.check(ok, 'C02.N', g, 'an operand token is pushed as it is (an external name is replaced by the external value)', witness=desc, node=lo, key='operand-step')
    if n_op == 0 or n_plain < 2:
        raise shape_error('__evaluateRPN: operator / operand steps not both found', g.loc(lo))


def rule_X(ctx):
    """C02.X no intermediate result of one expression is visible to the next (shared with C01.T)"""
    from . import c01
    from ..report import Proxy
    c01.rule_T(Proxy(ctx, {'C01.T': 'C02.X'}))


def rule_G(ctx):
    """C02.G Track.operate(expression) - with makeRPN, the rewriting passes, the dispatch and the operator classes beneath it -
    interpreted on families of expression trees and compared with ordinary arithmetic under the documented operator definitions"""
    import itertools
    import math
    from .. import absint, orders, npstub
    TRACKQ = 'tracklib.core.track.Track'
    fo = ctx.prog.func(TRACKQ + '.operate')
    fn = absint.funcs(ctx, 'tracklib.core.track', dict(npstub.stubs()))
    NANV = float('nan')
    fn['__globals__']['NAN'] = float('nan')      # another object than the NaN values of the data

    def _exit(*a):
        raise orders.Raised('SystemExit', 'exit(%s)' % (a[0] if a else ''))
    fn['exit'] = _exit
    T = absint.classref(ctx, TRACKQ, fn)
    absint.operator_table(ctx, fn)

    # observations, positions and timestamps are the repository's own Obs / ENUCoords / ObsTime objects
    EN = absint.classref(ctx, 'tracklib.core.obs_coords.ENUCoords', fn)
    OT = absint.classref(ctx, 'tracklib.core.obs_time.ObsTime', fn)

    def O(k):
        return absint.real_obs(ctx, fn, EN(1.0 + k, 10.0 - 2.0 * k, 0.5 * k * k), OT.readUnixTime(100.0 + 3.0 * k), k=k)

    def xyz_of(o):
        p_ = o.fields['position'].fields
        return [p_['E'], p_['N'], p_['U']]

    def t_of(o):
        ts = o.fields['timestamp']
        return ts.call('toAbsTime') if isinstance(ts, orders.Obj) else repr(ts)
    N = 5
    FEATS = {'a': [3.0, -1.5, 0.0, NANV, 2.0], 'b': [2.0, 2.0, -4.0, 1.0, 0.0], 'rate': [1.0, 4.0, 9.0, 16.0, 25.0],
             'p': [1e-20, 2e-20, -1e-20, 5e-20, 1e-20], 'E': [5.0, 6.0, 7.0, 8.0, 9.0], 'w': [4.0, -7.0, 1.0, -7.0, 9.5],
             'n0': [NANV, 2.0, -1.0, 4.0, 0.5], 'nl': [1.0, 3.0, 2.0, 6.0, NANV], 'neg': [-3.0, -1.5, -4.0, -2.0, -0.5], 'zs': [0.0, 0.0, 0.0, 0.0, 0.0]}
    VIRT = {'x': [1.0 + k for k in range(N)], 'y': [10.0 - 2.0 * k for k in range(N)], 'z': [0.5 * k * k for k in range(N)],
            't': [100.0 + 3.0 * k for k in range(N)], 'idx': [float(k) for k in range(N)]}

    def mk():
        t = T([O(k) for k in range(N)], 'u', 't')
        for nm, vs in FEATS.items():
            t.call('createAnalyticalFeature', nm, list(vs))
        return t

    def isn(v):
        return isinstance(v, float) and v != v
    # ---- expression trees: ('num', v) ('name', n) ('bin', op, l, r) ('neg', e) ('fun', f, e)
    PREC = {'<': 1, '>': 1, '+': 2, '-': 2, '*': 3, '/': 3, '^': 4}

    def render(e, parent=None, right=False):
        k = e[0]
        if k == 'num':
            v = e[1]
            return str(int(v)) if float(v).is_integer() else repr(v)
        if k == 'name':
            return e[1]
        if k == 'fun':
            return '%s{%s}' % (e[1], render(e[2]))
        if k == 'par':
            return '(%s)' % render(e[1])            # parentheses the grammar does not require
        if k == 'neg':
            s_ = '-' + render(e[1], ('neg',), False)
            return '(%s)' % s_ if parent is not None else s_
        op = e[1]
        s_ = render(e[2], e, False) + op + render(e[3], e, True)
        if parent is not None and parent[0] == 'neg':
            return '(%s)' % s_
        if parent is not None and parent[0] == 'bin' and (PREC[op] < PREC[parent[1]] or (PREC[op] == PREC[parent[1]] and right)):
            return '(%s)' % s_
        return s_

    def pointwise(f, u, v):
        if isinstance(u, list) or isinstance(v, list):
            uu = u if isinstance(u, list) else [u] * N
            vv = v if isinstance(v, list) else [v] * N
            return [f(a_, b_) for a_, b_ in zip(uu, vv)]
        return f(u, v)

    class Skip(Exception):
        pass

    def value(e, env):
        k = e[0]
        if k == 'num':
            return float(e[1])
        if k == 'name':
            return list(env[e[1]])
        if k == 'neg':
            v = value(e[1], env)
            return [0.0 - x for x in v] if isinstance(v, list) else 0.0 - v
        if k == 'par':
            return value(e[1], env)
        if k == 'fun':
            v = value(e[2], env)
            v = v if isinstance(v, list) else [v] * N
            ok_ = [x for x in v if not isn(x)]
            f = e[1]
            if f == 'ABS':
                return [abs(x) for x in v]
            if f == 'SIGN':
                return [float(1 * (x >= 0) - 1 * (x < 0)) for x in v]
            if f == 'SQRT':
                if any(x < 0 for x in ok_):
                    raise Skip()
                return [x if isn(x) else math.sqrt(x) for x in v]
            if f == 'EXP':
                return [x if isn(x) else math.exp(x) for x in v]
            if f == 'D':
                return [NANV] + [v[i] - v[i - 1] for i in range(1, N)]
            if f == 'I':
                out = [0.0]
                for i in range(1, N):
                    out.append(out[-1] + v[i])
                return out
            if f == 'DIODE':
                return [x * (x > 0) for x in v]
            if f == 'LOG':
                if any(x <= 0 for x in ok_) or len(ok_) != len(v):
                    raise Skip()
                return [math.log(x) for x in v]
            if f in ('COS', 'SIN', 'TAN'):
                return [x if isn(x) else getattr(math, f.lower())(x) for x in v]
            if f == 'D2':
                return [NANV] + [v[i + 1] - 2 * v[i] + v[i - 1] for i in range(1, N - 1)] + [NANV]
            if not ok_:
                raise Skip()
            def med(vs):
                s2 = sorted(vs)
                m_ = len(s2)
                return s2[m_ // 2] if m_ % 2 else 0.5 * (s2[m_ // 2 - 1] + s2[m_ // 2])
            if f == 'MEDIAN':
                if len(ok_) != len(v):
                    raise Skip()            # the median operator is defined on complete vectors only
                return med(v)
            if f == 'MAD':
                return med([abs(x) for x in ok_])
            if f in ('MSE', 'RMSE'):
                ms = sum(x * x for x in ok_) / len(ok_)
                return ms if f == 'MSE' else math.sqrt(ms)
            if f in ('ARGMIN', 'ARGMAX'):
                if len(ok_) != len(v):
                    raise Skip()
                best = (min if f == 'ARGMIN' else max)(v)
                return float(v.index(best))
            if f == 'SUM':
                return sum(ok_)
            if f == 'AVG':
                return sum(ok_) / len(ok_)
            if f == 'MIN':
                return min(ok_)
            if f == 'MAX':
                return max(ok_)
            if f in ('VAR', 'STD'):
                m_ = sum(ok_) / len(ok_)
                var = sum((x - m_) ** 2 for x in ok_) / len(ok_)
                return var if f == 'VAR' else math.sqrt(var)
            raise Skip()
        op, u, v = e[1], value(e[2], env), value(e[3], env)
        if op == '+':
            return pointwise(lambda a_, b_: a_ + b_, u, v)
        if op == '-':
            return pointwise(lambda a_, b_: a_ - b_, u, v)
        if op == '*':
            return pointwise(lambda a_, b_: a_ * b_, u, v)
        if op == '<':
            return pointwise(lambda a_, b_: float(a_ < b_), u, v)
        if op == '>':
            return pointwise(lambda a_, b_: float(a_ > b_), u, v)
        if op == '/':
            if isinstance(u, list) and isinstance(v, list):
                return [NANV if b_ == 0 else a_ / b_ for a_, b_ in zip(u, v)]       # the documented guard of the feature/feature divider
            if (isinstance(v, list) and any(b_ == 0 for b_ in v)) or (not isinstance(v, list) and v == 0):
                raise Skip()
            return pointwise(lambda a_, b_: a_ / b_, u, v)
        if op == '^':
            def pw(a_, b_):
                if isn(a_) or isn(b_):
                    return a_ ** b_             # Python's own rule (1 ** nan == nan ** 0 == 1)
                if (a_ == 0 and b_ < 0) or (a_ < 0 and not float(b_).is_integer()) or abs(b_) > 6 or abs(a_) > 1e3:
                    raise Skip()
                return a_ ** b_
            return pointwise(pw, u, v)
        raise Skip()

    def close(g_, w_):
        if isn(w_):
            return isn(g_)
        if isinstance(g_, bool):
            g_ = float(g_)
        return isinstance(g_, (int, float)) and not isn(g_) and abs(g_ - w_) <= 1e-9 * max(1.0, abs(w_))
    found = {}
    counts = {}

    def snapshot(t):
        names = t.call('getListAnalyticalFeatures')
        vals = {nm: t.call('getAnalyticalFeature', nm) for nm in names}
        pos = [tuple(xyz_of(o)) + (t_of(o),) for o in t.fields['_Track__POINTS']]
        return names, vals, pos

    def same_list(u, v):
        return isinstance(u, list) and isinstance(v, list) and len(u) == len(v) and all(close(a_, b_) if isinstance(b_, float) else a_ == b_ for a_, b_ in zip(u, v))

    bracket_seen = [0]

    def run(family, e, target=None):
        env = dict(FEATS)
        env.update(VIRT)
        try:
            want = value(e, env)
        except Skip:
            return
        except (ZeroDivisionError, OverflowError, ValueError):
            return
        want = want if isinstance(want, list) else [want] * N
        text = render(e)
        if target is not None:
            text = target + '=' + text
        counts[family] = counts.get(family, 0) + 1
        t = mk()
        before = snapshot(t)
        try:
            got = t.call('operate', text)
        except orders.Unsupported as ex:
            raise shape_error('Track.operate(%r) not interpretable: %s' % (text, ex), fo.loc())
        except orders.PROGRAM_ERRORS as ex:
            found.setdefault((family, 'fails'), ('the expression is evaluated', {'expression': text, 'exception': '%s: %s' % (type(ex).__name__, str(ex)[:160]), 'expected': [None if isn(v) else v for v in want]}))
            return
        after = snapshot(t)
        show = lambda vs: [None if isn(v) else v for v in vs] if isinstance(vs, list) else repr(vs)
        # the bracket form track[expression] is the other documented way in: same value (every expression with a single kind of
        # special character, where the routing to the evaluator hangs on that character alone, and a sample of the others)
        if target is None and '=' not in text:
            kinds_ = {c_ for c_ in text if c_ in "+-*/^<>()'"}
            bracket_seen[0] += 1
            if len(kinds_) == 1 or (kinds_ and bracket_seen[0] % 5 == 0):      # a text with none of these characters is read as a feature name by the bracket form
                t2 = mk()
                counts['bracket form'] = counts.get('bracket form', 0) + 1
                try:
                    got2 = t2.call('__getitem__', text)
                except orders.Unsupported as ex:
                    raise shape_error('Track[%r] not interpretable: %s' % (text, ex), fo.loc())
                except orders.PROGRAM_ERRORS as ex:
                    got2 = '%s: %s' % (type(ex).__name__, str(ex)[:160])
                if not same_list(got2, want):
                    found.setdefault(('bracket form', 'value'), ('track[expression] returns the value of the expression, as track.operate(expression) does',
                                                                 {'expression': text, 'track[expression]': show(got2), 'expected': show(want)}))
        if target is None:
            if not same_list(got, want):
                found.setdefault((family, 'value'), ('the value returned is the value of the same expression tree under ordinary arithmetic (usual precedence, left-to-right, documented operator definitions)',
                                                     {'expression': text, 'returned': show(got), 'expected': show(want)}))
            if after[0] != before[0] or any(not same_list(after[1][nm], before[1][nm]) for nm in before[0]) or after[2] != before[2]:
                found.setdefault((family, 'untouched'), ('without "=" the track is left exactly as it was (features listed, their values, coordinates, timestamps)',
                                                         {'expression': text, 'features before': before[0], 'features after': after[0]}))
            return
        # assignment
        exp_names = list(before[0]) + ([target] if target not in before[0] and target not in VIRT else [])
        stored = [xyz_of(o)['xyz'.index(target)] for o in t.fields['_Track__POINTS']] if target in ('x', 'y', 'z') else (after[1].get(target) if target in after[0] else None)
        if not same_list(stored, want):
            found.setdefault((family, 'stored'), ('with "=" the result is stored under the left-hand name (created or overwritten; written to the coordinate for x, y, z)',
                                                  {'expression': text, 'stored under %s' % target: show(stored), 'expected': show(want)}))
        others_ok = sorted(after[0]) == sorted(exp_names) and all(same_list(after[1][nm], before[1][nm]) for nm in before[0] if nm != target)
        pos_ok = all(tuple(a_ for i_, a_ in enumerate(pa) if 'xyzt'[i_] != target) == tuple(b_ for i_, b_ in enumerate(pb) if 'xyzt'[i_] != target) for pa, pb in zip(after[2], before[2]))
        if not others_ok or not pos_ok:
            found.setdefault((family, 'frame'), ('an assignment changes nothing but its target (no other feature, coordinate or timestamp; no temporary left listed)',
                                                 {'expression': text, 'features before': before[0], 'features after': after[0]}))
    A, B, RATE, P_, E_ = ('name', 'a'), ('name', 'b'), ('name', 'rate'), ('name', 'p'), ('name', 'E')
    two, half = ('num', 2), ('num', 0.5)
    OPS = ['+', '-', '*', '/', '^', '<', '>']
    # F1 precedence and associativity: every pair of operators in both tree shapes, rendered with the parentheses the grammar requires only
    for (x1, x2, x3) in ((A, B, two), (RATE, two, B), (two, RATE, B)):
        for o1 in OPS:
            for o2 in OPS:
                run('precedence', ('bin', o1, ('bin', o2, x1, x2), x3))
                run('precedence', ('bin', o1, x1, ('bin', o2, x2, x3)))
    # F2 each operator in its four operand-kind arms
    for o in OPS:
        for l, r in ((A, B), (B, A), (RATE, two), (two, RATE), (two, half), (A, two), (two, A), (RATE, B)):
            run('operators', ('bin', o, l, r))
    # F3 functions, alone and inside expressions; aggregates after a nested parenthesised sub-expression
    for f in ('ABS', 'SIGN', 'SQRT', 'EXP', 'D', 'I', 'D2', 'DIODE', 'LOG', 'COS', 'SIN', 'TAN', 'SUM', 'AVG', 'MIN', 'MAX', 'VAR', 'STD', 'MEDIAN', 'MAD', 'MSE', 'RMSE', 'ARGMIN', 'ARGMAX'):
        for arg in (A, B, RATE, ('bin', '+', RATE, B), ('bin', '*', A, two), ('name', 'w'), ('name', 'E')):
            run('functions', ('fun', f, arg))
        run('functions', ('bin', '+', ('fun', f, RATE), B))
        run('functions', ('bin', '*', two, ('fun', f, B)))
    for agg in ('SUM', 'AVG', 'MIN', 'MAX', 'STD'):
        run('functions', ('bin', '+', ('bin', '*', B, ('bin', '+', RATE, B)), ('fun', agg, B)))
        run('functions', ('bin', '/', ('bin', '-', RATE, ('fun', 'AVG', RATE)), ('fun', agg, RATE)))
        run('functions', ('bin', '*', ('bin', '-', B, ('bin', '*', RATE, B)), ('fun', agg, RATE)))
        run('functions', ('bin', '-', ('bin', '+', ('fun', 'SUM', B), ('fun', agg, RATE)), ('fun', 'SUM', ('bin', '*', B, B))))
    # an aggregate as the argument of another function (the aggregate is a constant feature there)
    for outer, agg, arg in (('SQRT', 'VAR', RATE), ('ABS', 'MIN', B), ('D', 'AVG', RATE), ('EXP', 'MIN', B), ('SQRT', 'MAX', RATE), ('ABS', 'SUM', B)):
        run('functions', ('fun', outer, ('fun', agg, arg)))
        run('functions', ('bin', '+', B, ('fun', outer, ('fun', agg, arg))))
    run('functions', ('fun', 'SQRT', ('fun', 'ABS', ('fun', 'MIN', B))), target='r')
    run('functions', ('fun', 'MIN', ('fun', 'D', RATE)))
    run('functions', ('bin', '-', B, ('fun', 'MAX', ('fun', 'D', B))))
    # every function applied to a vector whose FIRST value is NaN (what a derivative gives) and to one whose LAST value is NaN
    for f in ('ABS', 'SIGN', 'SQRT', 'EXP', 'D', 'I', 'D2', 'DIODE', 'LOG', 'COS', 'SIN', 'TAN', 'SUM', 'AVG', 'MIN', 'MAX', 'VAR', 'STD', 'MEDIAN', 'MAD', 'MSE', 'RMSE', 'ARGMIN', 'ARGMAX'):
        run('functions', ('fun', f, ('fun', 'D', RATE)))
        run('functions', ('fun', f, ('name', 'n0')))
        run('functions', ('fun', f, ('name', 'nl')))
        run('functions', ('fun', f, ('name', 'neg')))          # every value negative
        run('functions', ('fun', f, ('name', 'zs')))           # every value zero
    run('functions', ('bin', '-', RATE, ('fun', 'I', ('fun', 'D', RATE))))
    # F4 unary minus
    for e in (('neg', A), ('bin', '+', ('neg', A), B), ('bin', '*', B, ('neg', A)), ('bin', '-', B, ('neg', two)), ('neg', ('bin', '+', A, B)), ('bin', '^', ('neg', RATE), two),
              ('bin', '+', ('neg', RATE), A), ('neg', ('fun', 'ABS', A))):
        run('unary minus', e)
    # F4b parenthesised groups that begin AND end with a parenthesised sub-group, wrapped once more, as a function argument, as an operand
    one, ten = ('num', 1), ('num', 10)
    for o1, o2, o3 in (('+', '*', '-'), ('+', '-', '-'), ('-', '/', '+'), ('*', '+', '*')):
        inner = ('bin', o2, ('par', ('bin', o1, A, B)), ('par', ('bin', o3, A, B)))
        run('wrapped groups', ('par', inner))
        run('wrapped groups', ('par', ('par', inner)))
        run('wrapped groups', ('fun', 'ABS', inner))
        run('wrapped groups', ('bin', '*', two, ('par', inner)))
        run('wrapped groups', ('bin', '/', ('par', inner), two))
        run('wrapped groups', ('bin', '/', ('par', inner), two), 'u')
    run('wrapped groups', ('par', ('par', ('bin', '+', A, B))))
    run('wrapped groups', ('bin', '*', two, ('par', ('bin', '-', ('par', ('bin', '+', A, one)), ('par', ('bin', '+', B, ten))))))
    run('wrapped groups', ('fun', 'SQRT', ('bin', '+', ('bin', '^', ('par', ('bin', '-', RATE, one)), two), ('bin', '^', ('par', ('bin', '-', B, two)), two))))
    # F5 names that end in e / E, tiny denominators, virtual features
    for e in (('bin', '-', RATE, A), ('bin', '+', RATE, two), ('bin', '-', E_, RATE), ('bin', '+', ('neg', RATE), A), ('bin', '-', E_, two), ('bin', '*', RATE, E_)):
        run('names', e)
    for e in (('bin', '/', B, P_), ('bin', '/', P_, P_), ('bin', '/', B, ('bin', '*', P_, P_)), ('bin', '/', ('num', 1), P_)):
        run('tiny values', e)
    for v in ('x', 'y', 'z', 't', 'idx'):
        run('virtual features', ('bin', '+', ('name', v), two))
        run('virtual features', ('bin', '*', ('name', v), B))
        run('virtual features', ('fun', 'D', ('name', v)))
    # F6 assignments: new name, existing name, coordinates; constants and expressions
    for target in ('u', 'a', 'rate', 'x', 'y', 'z'):
        for e in (('bin', '+', RATE, B), two, B, ('bin', '*', two, ('fun', 'D', RATE)), ('fun', 'SUM', B), ('neg', RATE), ('bin', '-', E_, RATE)):
            if target == 'a' and e is B:
                run('assignment', B, target)
            run('assignment', e, target)
    run('assignment', A, 'a2')
    run('assignment', ('name', 'x'), 'y')
    # F7 operator objects applied directly
    OPN = {'+': 'ADDER', '-': 'SUBSTRACTER', '*': 'MULTIPLIER', '/': 'DIVIDER', '^': 'POWER', '>': 'ABOVE', '<': 'BELOW'}
    SOPN = {'+': 'SCALAR_ADDER', '-': 'SCALAR_SUBSTRACTER', '*': 'SCALAR_MULTIPLIER', '/': 'SCALAR_DIVIDER', '^': 'SCALAR_POWER'}
    Op = fn['Operator']
    env = dict(FEATS)
    for o, nm in OPN.items():
        if not hasattr(Op, nm):
            raise anchor_error('Operator.%s not found' % nm, 'tracklib.core.operators')
        for l, r in (('rate', 'b'), ('b', 'rate'), ('a', 'b'), ('b', 'p')):
            try:
                want = value(('bin', o, ('name', l), ('name', r)), env)
            except (Skip, ZeroDivisionError, OverflowError):
                continue
            counts['operator objects'] = counts.get('operator objects', 0) + 1
            t = mk()
            try:
                t.call('operate', getattr(Op, nm), l, r, 'out')
                got = t.call('getAnalyticalFeature', 'out')
            except orders.Unsupported as ex:
                raise shape_error('operate(Operator.%s) not interpretable: %s' % (nm, ex), fo.loc())
            except orders.PROGRAM_ERRORS as ex:
                got = '%s: %s' % (type(ex).__name__, ex)
            if not same_list(got, want):
                found.setdefault(('operator objects', nm), ('applying the operator object directly gives the values of the expression',
                                                            {'call': 'operate(Operator.%s, %r, %r, "out")' % (nm, l, r), 'stored': [None if isn(v) else v for v in got] if isinstance(got, list) else got,
                                                             'expected': [None if isn(v) else v for v in want]}))
    for o, nm in SOPN.items():
        if not hasattr(Op, nm):
            continue
        for l, kk in (('rate', 2.0), ('b', 0.5), ('a', 3.0)):
            try:
                want = value(('bin', o, ('name', l), ('num', kk)), env)
            except (Skip, ZeroDivisionError, OverflowError):
                continue
            counts['operator objects'] = counts.get('operator objects', 0) + 1
            t = mk()
            try:
                t.call('operate', getattr(Op, nm), l, kk, 'out')
                got = t.call('getAnalyticalFeature', 'out')
            except orders.Unsupported as ex:
                raise shape_error('operate(Operator.%s) not interpretable: %s' % (nm, ex), fo.loc())
            except orders.PROGRAM_ERRORS as ex:
                got = '%s: %s' % (type(ex).__name__, ex)
            if not same_list(got, want):
                found.setdefault(('operator objects', nm), ('applying the operator object directly gives the values of the expression',
                                                            {'call': 'operate(Operator.%s, %r, %r, "out")' % (nm, l, kk), 'stored': [None if isn(v) else v for v in got] if isinstance(got, list) else got,
                                                             'expected': [None if isn(v) else v for v in want]}))
    # F8 a piece cut out of the track (extractSpanTime: observations 1 ... N-2) is a track of its own: an assignment evaluated on the piece, then
    #    expressions on the track it was cut from (and the other way round)
    if 'extractSpanTime' in ctx.prog.cls(TRACKQ).methods:
        for first_on in ('piece', 'track'):
            counts['derived tracks'] = counts.get('derived tracks', 0) + 1
            t = mk()
            hist = []
            try:
                P0 = t.fields['_Track__POINTS']
                piece = t.call('extractSpanTime', P0[1].fields['timestamp'], P0[N - 2].fields['timestamp'])
                sub = slice(1, N - 1)
                steps = [('piece', 'c=rate*b+1'), ('track', 'rate+b'), ('track', 'd=rate-b'), ('piece', 'rate-b'), ('piece', 'rate=b*2'), ('track', 'rate*2')]
                if first_on == 'track':
                    steps = [('track', 'c=rate*b+1'), ('piece', 'rate+b'), ('piece', 'd=rate-b'), ('track', 'rate-b'), ('track', 'rate=b*2'), ('piece', 'rate*2')]
                envs = {'track': {k_: list(v_) for k_, v_ in FEATS.items()}, 'piece': {k_: list(v_[sub]) for k_, v_ in FEATS.items()}}
                bad = None
                for who, text in steps:
                    obj = piece if who == 'piece' else t
                    e_ = envs[who]
                    tgt, _, rhs = text.rpartition('=')
                    l_, o_, r_ = (rhs[:-2], rhs[-2], rhs[-1]) if rhs[-1].isdigit() else rhs.partition('*' if '*' in rhs else ('+' if '+' in rhs else '-'))
                    if rhs == 'rate*b+1':
                        want = [x_ * y_ + 1 for x_, y_ in zip(e_['rate'], e_['b'])]
                    else:
                        rv = [float(r_)] * len(e_['b']) if r_.isdigit() else e_[r_]
                        want = [{'+': x_ + y_, '-': x_ - y_, '*': x_ * y_}[o_] for x_, y_ in zip(e_[l_], rv)]
                    got = obj.call('operate', text)
                    hist.append('%s.operate(%r)' % (who, text))
                    if tgt:
                        e_[tgt] = list(want)
                        got = obj.call('getAnalyticalFeature', tgt)
                    if not same_list(got, want):
                        bad = {'history': list(hist), 'returned' if not tgt else 'stored under %s' % tgt: [None if isn(v) else v for v in got] if isinstance(got, list) else repr(got), 'expected': want}
                        break
                    # every feature of both tracks reads what was last written to it
                    for who2, obj2 in (('track', t), ('piece', piece)):
                        for nm, vs in envs[who2].items():
                            g2 = obj2.call('getAnalyticalFeature', nm)
                            if not same_list(g2, vs):
                                bad = {'history': list(hist), 'feature %s of the %s' % (nm, who2): [None if isn(v) else v for v in g2] if isinstance(g2, list) else repr(g2), 'expected': [None if isn(v) else v for v in vs]}
                                break
                        if bad:
                            break
                    if bad:
                        break
                if bad:
                    found.setdefault(('derived tracks', first_on), ('a piece cut out of a track (extractSpanTime) and the track it was cut from evaluate and store expressions independently of each other',
                                                                    dict(bad, piece='observations 1 ... %d' % (N - 2))))
            except orders.Unsupported as ex:
                raise shape_error('expressions on an extracted piece not interpretable: %s' % ex, fo.loc())
            except orders.PROGRAM_ERRORS as ex:
                found.setdefault(('derived tracks', 'fails'), ('expressions on a piece cut out of a track are evaluated', {'history': hist, 'exception': '%s: %s' % (type(ex).__name__, str(ex)[:160])}))
    # order statistics on vectors of 1 ... 11 values (the middle rank is computed from the count: every residue of the count modulo 4,
    # and for MAD the count of the values that are not NaN)
    def med_(vs):
        s2 = sorted(vs)
        m_ = len(s2)
        return s2[m_ // 2] if m_ % 2 else 0.5 * (s2[m_ // 2 - 1] + s2[m_ // 2])
    for n_ in (1, 2, 3, 4, 6, 7, 8, 9, 11):
        vals_ = [float((7 * k_ * k_ + 3 * k_) % 23) - 9.5 + 0.125 * k_ for k_ in range(n_)]          # (distinct, unsorted, of both signs)
        for f_, vec, want_ in (('MEDIAN', vals_, med_(vals_)), ('MAD', vals_, med_([abs(x_) for x_ in vals_])),
                               ('MAD', vals_ + [NANV], med_([abs(x_) for x_ in vals_])), ('MAD', [NANV] + vals_, med_([abs(x_) for x_ in vals_]))):
            text = '%s{v}' % f_
            counts['order statistics'] = counts.get('order statistics', 0) + 1
            t = T([O(k_) for k_ in range(len(vec))], 'u', 't')
            t.call('createAnalyticalFeature', 'v', list(vec))
            try:
                got = t.call('operate', text)
            except orders.Unsupported as ex:
                raise shape_error('Track.operate(%r) not interpretable: %s' % (text, ex), fo.loc())
            except orders.PROGRAM_ERRORS as ex:
                found.setdefault(('order statistics', 'fails'), ('the expression is evaluated', {'expression': text, 'v': [None if isn(x_) else x_ for x_ in vec], 'exception': '%s: %s' % (type(ex).__name__, str(ex)[:160])}))
                continue
            g_ = got[0] if isinstance(got, list) and got else got
            if not (isinstance(g_, (int, float)) and close(g_, want_)) or (isinstance(got, list) and not all(close(x_, want_) for x_ in got)):
                found.setdefault(('order statistics', 'value'), ('the median (of the absolute values, for MAD) is the middle value of an odd number of values and the mean of the two middle values of an even number',
                                                                 {'expression': text, 'v': [None if isn(x_) else x_ for x_ in vec], 'values that are not NaN': len([x_ for x_ in vec if not isn(x_)]),
                                                                  'returned': got[:2] if isinstance(got, list) else repr(got), 'expected': want_}))
    for (family, key), (desc, wit) in sorted(found.items()):
        ctx.violation('C02.G', fo, '%s: %s' % (family, desc), wit, node=fo.node, key='%s:%s' % (family, key))
    for family, n_ in sorted(counts.items()):
        if not any(f_ == family for f_, _ in found):
            ctx.ok('C02.G', fo, '%s: %d expressions agree with ordinary arithmetic' % (family, n_), node=fo.node)
    ctx.extra['C02.G expressions'] = sum(counts.values())


RULES = [
    ('C02.G', rule_G, 'quick'),
]
# rule_X / rule_P / rule_S / rule_T / rule_A / rule_O / rule_N (tables, kernels and arms read off the source structure) are no longer run
# for C02: C02.G decides the same clauses on what operate() returns and stores, and is indifferent to how the evaluator is written
# (C02-R5 and C02-R6, behaviour-preserving rewrites, made them report violations).  rule_A / rule_N are still used by C01.E.
MIN_OBLIGATIONS = 7
