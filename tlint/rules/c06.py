"""C06 - network shortest distances (tracklib/core/network.py, priority_dict in utils.py)."""
import ast

from ..alg import Rat
from ..loader import shape_error, anchor_error
from ..sx import Walker, State, Cond
from .. import orders
from ..util import body_nodocstring, names_stored, unparse
from .c03 import cond_eval

NET = 'tracklib.core.network.Network'
EDGE = 'tracklib.core.network.Edge'
PD = 'tracklib.core.utils.priority_dict'

EXPLANATION = (
    'Static analysis by interpretation of the source (nothing imported or executed by CPython): shortest_distance for every ordered pair, all_shortest_distances for cut-offs below / at / above the distances, prepare / prepared_shortest_distance (also prepared twice with a growing cut-off) are walked by tlint.orders on small multigraphs and compared with Floyd-Warshall on the permitted arcs; priority_dict is interpreted with its heap on every sequence of at most five assign / re-assign / pop operations over three keys against a plain dictionary.')
ASSUMPTIONS = ["edge weights are non-negative (precondition of the property)",
               "Dijkstra mode (routing_mode != A*): the heuristic term is 0 (checked: only assigned under routing_mode == 1)"]
TECHNIQUE = "abstract interpretation of the repository's Network / Node / Edge / priority_dict classes by the checker's AST interpreter on ~190 small multigraphs (orientations, zero weights, parallel edges, isolated nodes, string / empty-string / 0 / -1 ids; successive all-pairs calls sharing defaults; prepare with cut-offs incl. 0) against Floyd-Warshall on the permitted arcs, and of the priority queue on every operation sequence up to length 5 (bounded case domains)"


def edge_consts(ctx):
    c = ctx.prog.cls(EDGE)
    out = {}
    for k in ('DOUBLE_SENS', 'SENS_DIRECT', 'SENS_INVERSE'):
        v = c.consts.get(k)
        if v is None:
            raise anchor_error('Edge.%s not found' % k, EDGE)
        try:
            out[k] = ast.literal_eval(v)
        except Exception:
            raise shape_error('Edge.%s is not a literal' % k)
    if len(set(out.values())) != 3:
        raise shape_error('orientation constants are not distinct')
    return out


def rule_O(ctx):
    """C06.O adjacency lists per orientation"""
    f = ctx.prog.func(NET + '.addEdge')
    consts = edge_consts(ctx)
    e, s, t = f.params[1:4]
    want = {
        'SENS_DIRECT': {('NEXT_EDGES', s, e), ('PREV_EDGES', t, e), ('NEXT_NODES', s, t), ('PREV_NODES', t, s)},
        'SENS_INVERSE': {('NEXT_EDGES', t, e), ('PREV_EDGES', s, e), ('NEXT_NODES', t, s), ('PREV_NODES', s, t)},
    }
    want['DOUBLE_SENS'] = want['SENS_DIRECT'] | want['SENS_INVERSE']
    for cname, cval in consts.items():
        w = Walker(f, loop_mode='skip')
        st = State({'%s.orientation' % e: Rat.const(cval), 'self.spatial_index': None})
        outs = list(w.run(body_nodocstring(f), st))
        got_all = None
        for o in outs:
            if o.kind == 'raise':
                continue
            got = set()
            cond_apps = []
            for ev in o.state.events:
                if ev.kind == 'call' and ev.name == 'append' and isinstance(ev.recv, Rat):
                    r = ev.recv.single_atom() or ''
                    for lst in ('NEXT_EDGES', 'PREV_EDGES', 'NEXT_NODES', 'PREV_NODES'):
                        if r.startswith('self.%s[' % lst):
                            key = r[len('self.%s[' % lst):-1]
                            val = ev.args[0].single_atom() if isinstance(ev.args[0], Rat) else repr(ev.args[0])
                            item = (lst, key.replace('.id', ''), (val or '').replace('.id', ''))
                            got.add(item)
                            extra = [repr(c) for c, _ in ev.conds if 'not in self.NODES' not in repr(c) and
                                     'in self.NODES' not in repr(c)]
                            if extra:
                                cond_apps.append((item, extra))
            # conditional registration = some path omits an item that the orientation requires
            missing = want[cname] - got
            extra_items = got - want[cname]
            pathtxt = [repr(c) for c, _ in o.state.conds]
            if missing:
                ctx.violation('C06.O', f, 'an edge of orientation %s is registered in every adjacency list that '
                                          'orientation permits, on every path' % cname,
                              {'orientation': cname, 'not registered on this path': sorted(missing),
                               'path conditions': pathtxt,
                               'why': 'the edge is unusable in a permitted direction (e.g. a parallel edge is dropped)'},
                              node=f.node, key='missing:%s' % cname)
            elif extra_items:
                ctx.violation('C06.O', f, 'an edge of orientation %s is usable only in its permitted direction(s)' % cname,
                              {'orientation': cname, 'registered although not permitted': sorted(extra_items)},
                              node=f.node, key='extra:%s' % cname)
            else:
                ctx.ok('C06.O', f, 'orientation %s: out/in lists updated exactly for the permitted directions '
                                   '(path: %s)' % (cname, ' and '.join(pathtxt) or 'unconditional'), node=f.node)
    # forward search reads out-lists only
    g = ctx.prog.func(NET + '.getNextEdges')
    rets = [n for n in ast.walk(g.node) if isinstance(n, ast.Return)]
    ctx.check(len(rets) == 1 and unparse(rets[0].value) == 'self.NEXT_EDGES[%s]' % g.params[1], 'C06.O', g,
              'getNextEdges returns the out-list NEXT_EDGES of the node', witness={'returns': unparse(rets[0].value) if rets else None},
              node=g.node, key='getNextEdges')


def _forward(ctx):
    f = ctx.prog.func(NET + '.run_routing_forward')
    body = body_nodocstring(f)
    loops = [s for s in body if isinstance(s, ast.While)]
    if len(loops) != 1:
        raise shape_error('run_routing_forward: main loop not found', f.loc())
    wl = loops[0]
    inner = [s for s in wl.body if isinstance(s, ast.For)]
    if len(inner) != 1:
        raise shape_error('run_routing_forward: neighbour loop not found', f.loc(wl))
    return f, body, wl, inner[0]


def _heuristic_is_zero_in_dijkstra(ctx, f, wl):
    """every assignment to the heuristic inside the loop is guarded by routing_mode == 1"""
    pm = {}
    for n in ast.walk(f.node):
        for c in ast.iter_child_nodes(n):
            pm[c] = n
    names = set()
    for n in ast.walk(wl):
        if isinstance(n, ast.Assign) and isinstance(n.targets[0], ast.Name):
            p = pm.get(n)
            guarded = False
            while p is not None and p is not wl:
                if isinstance(p, ast.If) and 'routing_mode' in unparse(p.test):
                    guarded = True
                p = pm.get(p)
            if guarded:
                names.add(n.targets[0].id)
    return names


def reset_values(ctx):
    r = None
    for q, fi in ctx.prog.functions.items():
        if q.startswith(NET + '.') and fi.name.endswith('resetFlags'):
            r = fi
    if r is None:
        raise anchor_error('Network.__resetFlags not found', NET)
    loops = [s for s in body_nodocstring(r) if isinstance(s, ast.For)]
    if len(loops) != 1:
        raise shape_error('__resetFlags: expected one loop over the nodes', r.loc())
    vals = {}
    for s in loops[0].body:
        if isinstance(s, ast.Assign) and isinstance(s.targets[0], ast.Attribute) and isinstance(s.value, (ast.Constant, ast.UnaryOp)):
            try:
                vals[s.targets[0].attr] = ast.literal_eval(s.value)
            except Exception:
                pass
    it = unparse(loops[0].iter)
    return r, loops[0], vals, it


def rule_N(ctx):
    """C06.N sentinel agreement and read-out"""
    r, loop, vals, it = reset_values(ctx)
    ctx.check('self.NODES' in it, 'C06.N', r, 'every node is reset before a search (loop over all NODES)',
              witness={'iterates': it}, node=loop, key='reset-all')
    ok = all(k in vals for k in ('poids', 'visite', 'antecedent', 'antecedent_edge'))
    ctx.check(ok and isinstance(vals.get('poids'), (int, float)) and vals['poids'] < 0 and vals.get('visite') is False,
              'C06.N', r, 'reset: distance label = negative sentinel, not settled, no predecessor',
              witness={'reset values': {k: repr(v) for k, v in vals.items()}}, node=loop, key='reset-vals')
    # shortest_distance reads the label of the target after the forward pass
    f = ctx.prog.func(NET + '.shortest_distance')
    w = Walker(f, loop_mode='skip')
    outs = [o for o in w.run(body_nodocstring(f), State()) if o.kind == 'return']
    src, tgt, cut, od = f.params[1:5]
    seen = False
    for o in outs:
        calls = [e for e in o.state.events if e.kind == 'call' and e.name == 'run_routing_forward']
        if any(c.kind == 'cmp' and c.op == '!=' for c, _ in o.state.conds):
            seen = True
            okc = len(calls) == 1
            if okc:
                c = calls[0]
                a = [x for x in c.args]
                kw = c.kwargs
                a_src = a[0] if a else kw.get('source')
                a_tgt = a[1] if len(a) > 1 else kw.get('target')
                a_cut = a[2] if len(a) > 2 else kw.get('cut')
                a_od = a[3] if len(a) > 3 else kw.get('output_dict')
                tg = o.state.env.get(tgt, Rat.atom(tgt))
                okc = all(isinstance(x, Rat) for x in (a_src, a_tgt, a_cut)) and \
                    w.rel.is_zero(a_src - o.state.env.get(src, Rat.atom(src))) and w.rel.is_zero(a_tgt - tg) and \
                    w.rel.is_zero(a_cut - Rat.atom(cut)) and isinstance(a_od, Rat) and a_od.single_atom() == od
                v = o.value
                okr = isinstance(v, Rat) and v.single_atom() == 'self.NODES[%s].poids' % w.base_text(tg)
                ctx.check(okc and okr, 'C06.N', f,
                          'shortest_distance(source,target,cut) = label of target after run_routing_forward(source,target,cut,dict)',
                          witness={'call': unparse(c.node), 'returns': repr(v)}, node=o.node, key='readout')
    if not seen:
        raise shape_error('shortest_distance: target branch not found', f.loc())


ALL_PATHS = []


def relax_paths(ctx):
    """paths through one iteration of the neighbour loop that update something; shared with C07.N"""
    f, body, wl, fl = _forward(ctx)
    hz = _heuristic_is_zero_in_dijkstra(ctx, f, wl)
    w = Walker(f, loop_mode='skip', solve_eq=False)
    pre = [o for o in w.run(body[:body.index(wl)], State({'self.routing_mode': Rat.const(0)})) if o.kind == 'fall']
    if not pre:
        raise shape_error('run_routing_forward prologue', f.loc())
    qname = None
    for k, v in pre[0].state.env.items():
        if isinstance(v, Rat) and (v.single_atom() or '').startswith('priority_dict('):
            qname = k
    if qname is None:
        raise shape_error('run_routing_forward: priority queue not found', f.loc())
    st = State({'self.routing_mode': Rat.const(0), qname: Rat.atom(qname)})
    for h in hz:
        st.env[h] = Rat.const(0)
    head = wl.body[:wl.body.index(fl)]
    falls = [o for o in w.run(head, st) if o.kind == 'fall']
    if not falls:
        raise shape_error('run_routing_forward: loop head never reaches the neighbour loop', f.loc(wl))
    pname = None
    for k, v in falls[0].state.env.items():
        if isinstance(v, Rat) and v.single_atom() == '%s.pop_smallest()' % qname:
            pname = k
    if pname is None:
        raise shape_error('run_routing_forward: popped node not found', f.loc(wl))
    st2 = falls[0].state.fork()
    st2.events = []
    st2.conds = []
    P_ = '%s.pop_smallest()' % qname
    for k_, v_ in list(st2.env.items()):
        if isinstance(v_, Rat) and any(P_ in a_ for a_ in v_.atoms()):
            st2.env[k_] = v_.rename_atoms(P_, 'pere')          # locals that alias fields of the popped node (reached = current.poids)
    st2.env[pname] = Rat.atom('pere')
    ev_ = fl.target.id
    st2.env[ev_] = Rat.atom(ev_)
    E = 'self.EDGES[%s]' % ev_
    res = []
    ALL_PATHS[:] = []
    for o in w.run(fl.body, st2):
        ALL_PATHS.append(o)
        upd = {}
        for e in o.state.events:
            if e.kind == 'store' and e.index in ('poids', 'antecedent', 'antecedent_edge'):
                upd[e.index] = e
            if e.kind == 'call' and e.name == '__setitem__' and isinstance(e.recv, Rat) and e.recv.single_atom() == qname:
                upd['queue'] = e
            if e.kind == 'store' and e.name == qname:
                upd['queue'] = e
        if upd:
            res.append((o, upd))
    if not res:
        raise shape_error('run_routing_forward: no relaxation path found', f.loc(fl))
    return E, qname, res


def rule_R(ctx):
    """C06.R / C06.V / C06.C relaxation, expansion order, stop and table write"""
    f, body, wl, fl = _forward(ctx)
    r, rloop, rvals, _ = reset_values(ctx)
    sentinel = rvals.get('poids')
    hz = _heuristic_is_zero_in_dijkstra(ctx, f, wl)
    w = Walker(f, loop_mode='skip', solve_eq=False)
    env0 = {'self.routing_mode': Rat.const(0)}
    pre = [o for o in w.run(body[:body.index(wl)], State(dict(env0))) if o.kind == 'fall']
    if not pre:
        raise shape_error('run_routing_forward prologue', f.loc())
    pst = pre[0].state
    for h in hz:
        v = pst.env.get(h)
        if not (isinstance(v, Rat) and v.isconst() and v.constval() == 0):
            raise shape_error('heuristic %s does not start at 0' % h, f.loc())
    # queue: the name bound to a priority_dict
    qname = None
    for k, v in pst.env.items():
        if isinstance(v, Rat) and (v.single_atom() or '').startswith('priority_dict('):
            qname = k
    if qname is None:
        raise shape_error('run_routing_forward: priority queue not found', f.loc())
    src, tgt, cut, od = f.params[1:5]
    # ---- while body up to the neighbour loop ------------------------------------
    st = State({'self.routing_mode': Rat.const(0), qname: Rat.atom(qname),
                src: Rat.atom(src), tgt: Rat.atom(tgt)})
    for h in hz:
        st.env[h] = Rat.const(0)
    head = wl.body[:wl.body.index(fl)]
    outs = list(w.run(head, st))
    falls = [o for o in outs if o.kind == 'fall']
    brks = [o for o in outs if o.kind == 'break']
    if not falls or not brks:
        raise shape_error('run_routing_forward: loop head has no continue/break pair', f.loc(wl))
    pname = None
    for o in falls:
        for k, v in o.state.env.items():
            if isinstance(v, Rat) and v.single_atom() == '%s.pop_smallest()' % qname:
                pname = k
    ctx.check(pname is not None, 'C06.V', f, 'the node expanded is the one returned by pop_smallest() of the queue',
              witness={'queue': qname}, node=wl, key='pop')
    if pname is None:
        return
    P = '%s.pop_smallest()' % qname
    # stop test, decided on the case domain (label vs cut) x (popped node is the target?) - however the test is written or split
    def is_cut(c):
        return c.kind == 'cmp' and isinstance(c.a, Rat) and isinstance(c.b, Rat) and \
            {c.a.single_atom(), c.b.single_atom()} == {P + '.poids', cut}

    def is_tgt(c):
        return c.kind == 'cmp' and c.op in ('==', '!=') and isinstance(c.a, Rat) and isinstance(c.b, Rat) and {vr(c.a), vr(c.b)} == {P + '.id', tgt}
    bad_stop = []
    bad_tstop = []
    for rel in ('<', '==', '>'):
        for is_target in (False, True):
            def orc(c, rel=rel, is_target=is_target):
                if is_cut(c):
                    lab, ct = (0, {'<': 1, '==': 0, '>': -1}[rel])
                    u, v = (lab, ct) if c.a.single_atom() == P + '.poids' else (ct, lab)
                    return {'<': u < v, '<=': u <= v, '==': u == v, '!=': u != v}[c.op]
                if is_tgt(c):
                    return is_target if c.op == '==' else not is_target
                return None
            kinds = {o.kind for o in outs if all(cond_eval(c, orc) is not False for c, _ in o.state.conds)}
            if len(kinds) != 1:
                raise shape_error('run_routing_forward: the stop test depends on more than (label vs cut, popped node == target)', f.loc(wl))
            stops = kinds == {'break'}
            if rel != '>' and not is_target and stops:
                bad_stop.append({'label vs cut': rel, 'popped node is the target': False, 'search stops': True})
            if rel == '>' and not stops:
                bad_stop.append({'label vs cut': rel, 'popped node is the target': is_target, 'search stops': False})
            if rel != '>' and is_target and not stops:
                bad_tstop.append({'label vs cut': rel, 'popped node is the target': True, 'search stops': False})
    # table write guarded by label <= cut
    n_store = 0
    for o in falls:
        stores = [e for e in o.state.events if e.kind == 'store' and e.name == od]
        for e in stores:
            n_store += 1
            key = e.index
            okk = isinstance(key, tuple) and len(key) == 2 and isinstance(key[0], Rat) and isinstance(key[1], Rat) and \
                w.rel.is_zero(key[0] - o.state.env.get(src, Rat.atom(src))) and key[1].single_atom() == P + '.id'
            okv = isinstance(e.value, Rat) and e.value.single_atom() == P + '.poids'
            ctx.check(okk and okv, 'C06.C', f, 'table entry is out[(source, reached node)] = label of the node just popped',
                      witness={'key': repr(key), 'value': repr(e.value)}, node=e.node, key='table-entry')
            guards = [cj for c, _ in e.conds for cj in c.conjuncts() if is_cut(cj)]
            okg = any(g.op == '<=' and g.a.single_atom() == P + '.poids' for g in guards) and \
                not any(g.op == '<' and g.a.single_atom() == P + '.poids' for g in guards)
            ctx.check(okg, 'C06.C', f,
                      'a pair is recorded exactly when its distance does not exceed the cut-off (label <= cut)',
                      witness={'guards on the write': [repr(g) for g in guards] or 'none',
                               'why': 'a node beyond the cut is recorded, or a node exactly at the cut is dropped'},
                      node=e.node, key='table-guard')
    if n_store == 0:
        raise shape_error('run_routing_forward never writes the distance table', f.loc(wl))
    ctx.check(not bad_stop, 'C06.C', f, 'the search stops at a popped node other than the target exactly when its label exceeds the cut (strictly)',
              witness={'cases': bad_stop, 'why': 'stopping at label == cut drops the pairs whose distance equals the cut-off; not stopping beyond it records pairs beyond it'}, node=wl, key='stop')
    ctx.check(not bad_tstop, 'C06.C', f, 'the search may stop when the target itself is popped (its label is final)',
              witness={'cases': bad_tstop}, node=wl, key='target-stop')
    # settled flag and out-edges of the popped node
    fo = falls[0]
    vis = [e for e in fo.state.events if e.kind == 'store' and e.name == P + '.visite']
    ctx.check(bool(vis), 'C06.V', f, 'the popped node is marked settled', witness={'stores': [repr(e) for e in fo.state.events if e.kind == 'store']},
              node=wl, key='settled')
    it = w.ex(fl.iter, fo.state)
    okit = isinstance(it, Rat) and it.single_atom() == 'self.getNextEdges(%s.id)' % P
    ctx.check(okit, 'C06.V', f, 'the edges relaxed are the out-edges (getNextEdges) of the popped node',
              witness={'iterates over': repr(it)}, node=fl, key='outedges')
    # ---- relaxation ----------------------------------------------------------------
    E, qname2, paths = relax_paths(ctx)
    n_upd = 0
    for o, upd in paths:
        n_upd += 1
        pathtxt = [repr(c) for c, _ in o.state.conds]
        missing = [k for k in ('poids', 'queue') if k not in upd]
        if missing:
            ctx.violation('C06.R', f, 'distance label and queue key are updated together',
                          {'updated on this path': sorted(upd), 'not updated': missing, 'path conditions': pathtxt},
                          node=fl, key='coupdate')
            continue
        X = upd['poids'].recv
        Xt = w.base_text(X)
        # other end of the edge
        if Xt not in (E + '.target', E + '.source'):
            ctx.violation('C06.R', f, 'the node relaxed is an end of the edge examined', {'node': Xt}, node=fl, key='end')
            continue
        bad_case = None
        for case in ('pere=source', 'pere=target', 'pere=both'):
            def orc(c, case=case):
                if c.kind == 'cmp' and c.op in ('==', '!=') and isinstance(c.a, Rat) and isinstance(c.b, Rat):
                    names = {vr(c.a), vr(c.b)}
                    if names == {E + '.target', 'pere'}:
                        v = case in ('pere=target', 'pere=both')
                    elif names == {E + '.source', 'pere'}:
                        v = case in ('pere=source', 'pere=both')
                    elif names == {E + '.source', E + '.target'}:
                        v = case == 'pere=both'
                    else:
                        return None
                    return v if c.op == '==' else not v
                return None
            feas = all(cond_eval(c, orc) is not False for c, _ in o.state.conds)
            if not feas:
                continue
            other = {'pere=source': E + '.target', 'pere=target': E + '.source'}.get(case)
            if other is not None and Xt != other:
                bad_case = (case, other)
        ctx.check(bad_case is None, 'C06.R', f, 'the node relaxed is the end of the edge other than the popped node',
                  witness={'case': bad_case[0] if bad_case else None, 'relaxed': Xt,
                           'other end': bad_case[1] if bad_case else None, 'path conditions': pathtxt},
                  node=fl, key='other-end')
        cand = Rat.atom('pere.poids') + Rat.atom(E + '.weight')
        cur = Rat.atom(Xt + '.poids')
        # improvement guard
        guard = None
        for c, _ in o.state.conds:
            djs = c.items if c.kind == 'or' else [c]
            if any(dj.kind == 'cmp' and isinstance(dj.a, Rat) and isinstance(dj.b, Rat) and
                   (vr(dj.a) == Xt + '.poids' or vr(dj.b) == Xt + '.poids') for dj in djs):
                guard = djs
        if guard is None:
            ctx.violation('C06.R', f, 'a label is overwritten only when the node is unreached or the candidate improves it',
                          {'path conditions': pathtxt, 'why': 'no test on the current label guards the update'},
                          node=fl, key='noguard')
            continue
        badd = []
        for dj in guard:
            okd = False
            if dj.kind == 'cmp' and isinstance(dj.a, Rat) and isinstance(dj.b, Rat):
                if dj.op == '==' and {vr(dj.a), vr(dj.b)} == {Xt + '.poids', repr(Rat.const(sentinel))}:
                    okd = True        # unreached sentinel, the same constant __resetFlags assigns
                elif dj.op == '<' and vr(dj.a) == Xt + '.poids' and dj.b.isconst() and dj.b.constval() == 0:
                    okd = True        # label < 0  <=> unreached
                elif dj.op in ('<', '<=') and w.rel.is_zero(dj.a - cand) and w.rel.is_zero(dj.b - cur):
                    okd = True        # candidate improves (ties immaterial)
            if not okd:
                badd.append(repr(dj))
        ctx.check(not badd, 'C06.R', f,
                  'update guard = (label == unreached sentinel %r) or (label of popped node + edge weight < label)' % sentinel,
                  witness={'disjuncts that admit other updates': badd,
                           'why': 'e.g. a node legitimately reached at distance 0 is treated as unreached and overwritten '
                                  'by a costlier candidate' if any('<= 0' in b or '0 <' in b for b in badd) else
                                  'the test does not compare what is stored'}, node=fl, key='guard')
        # values stored
        pv = upd['poids'].value
        ctx.check(isinstance(pv, Rat) and w.rel.is_zero(pv - cand), 'C06.R', f,
                  'the label stored is the candidate that was compared (label of popped node + edge weight)',
                  witness={'stored': repr(pv), 'compared': repr(cand)}, node=upd['poids'].node, key='stored')
        q = upd['queue']
        if q.kind == 'call':
            qk, qv = q.args[0], q.args[1]
        else:
            qk, qv = q.index, q.value
        ctx.check(isinstance(qk, Rat) and vr(qk) == Xt and isinstance(qv, Rat) and w.rel.is_zero(qv - cand), 'C06.R', f,
                  'the queue key of the relaxed node is set to the same new label',
                  witness={'queue item': repr(qk), 'key': repr(qv)}, node=q.node, key='queue')
    if n_upd == 0:
        raise shape_error('run_routing_forward: no relaxation path found', f.loc(fl))
    ctx.extra['relaxation_paths'] = n_upd
    # ---- when is a neighbour NOT relaxed?  case domain: settled? x (unreached | candidate <,==,> label) x (candidate <,==,> cut) --------------
    ends = (E + '.target', E + '.source')
    cand = Rat.atom('pere.poids') + Rat.atom(E + '.weight')

    def is_end_poids(v):
        return isinstance(v, Rat) and v.single_atom() in tuple(x + '.poids' for x in ends)
    missed = None
    for settled in (False, True):
        for lab in ('unreached', '<', '==', '>'):          # candidate (op) current label
            for rc in ('<', '==', '>'):                    # candidate (op) cut
                def orc(c, settled=settled, lab=lab, rc=rc):
                    if c.kind == 'truth' and isinstance(c.a, Rat) and (c.a.single_atom() or '') in tuple(x + '.visite' for x in ends):
                        return settled
                    if c.kind != 'cmp' or not (isinstance(c.a, Rat) and isinstance(c.b, Rat)):
                        return None
                    for u, v, flip in ((c.a, c.b, False), (c.b, c.a, True)):
                        val = None
                        if is_end_poids(u) and v.isconst():                       # label vs constant (sentinel -1, or 0)
                            k = v.constval()
                            if lab == 'unreached':
                                val = (-1 > k) - (-1 < k)
                            elif k <= 0:
                                val = 1 if k < 0 else None                         # a reached label is >= 0: undecided against 0
                            if k == 0 and lab != 'unreached':
                                return None
                        elif w.rel.is_zero(u - cand) and is_end_poids(v):          # candidate vs label
                            if lab == 'unreached':
                                val = 1                                            # any candidate (>= 0) is above the sentinel -1
                            else:
                                val = {'<': -1, '==': 0, '>': 1}[lab]
                        elif w.rel.is_zero(u - cand) and v.single_atom() == cut:   # candidate vs cut
                            val = {'<': -1, '==': 0, '>': 1}[rc]
                        if val is not None:
                            if flip:
                                val = -val
                            return {'<': val < 0, '<=': val <= 0, '==': val == 0, '!=': val != 0}[c.op]
                    return None
                must = (not settled) and lab in ('unreached', '<') and rc in ('<', '==')
                if not must:
                    continue
                for o in ALL_PATHS:
                    vals = [cond_eval(c, orc) for c, _ in o.state.conds]
                    if any(v is False for v in vals):
                        continue
                    updates = any(e.kind == 'store' and e.index == 'poids' for e in o.state.events)
                    if updates:
                        continue
                    unknown = [repr(c) for (c, _), v in zip(o.state.conds, vals) if v is None and not
                               any(x in repr(c) for x in ('== pere', '!= pere', 'pere ==', 'pere !=')) and 'routing_mode' not in repr(c)]
                    if unknown:
                        raise shape_error('run_routing_forward: a neighbour is skipped under a condition the rule does not understand: %s' % unknown[:2], f.loc(fl))
                    if missed is None:
                        missed = {'neighbour settled': settled, 'candidate vs its label': lab, 'candidate vs cut': rc,
                                  'path that leaves the neighbour unrelaxed': [repr(c) for c, _ in o.state.conds],
                                  'why': 'an unsettled neighbour whose candidate distance improves its label and does not exceed the cut-off must be labelled: '
                                         'otherwise pairs at distance <= cut (e.g. exactly equal to it) are reported unreachable'}
    ctx.check(missed is None, 'C06.R', f, 'every unsettled neighbour whose candidate (label of popped node + edge weight) improves its label and is <= cut is relaxed',
              witness=missed, node=fl, key='no-skip')


def vr(v):
    if isinstance(v, Rat):
        a = v.single_atom()
        return a if a is not None else repr(v)
    return repr(v)


def rule_Q(ctx):
    """C06.Q priority queue: lazy deletion discipline"""
    c = ctx.prog.cls(PD)
    ps = c.methods.get('pop_smallest')
    si = c.methods.get('__setitem__')
    rb = c.methods.get('_rebuild_heap')
    if not (ps and si and rb):
        raise anchor_error('priority_dict methods not found', PD)
    # pop_smallest on small queue states: heap entries in priority order, some stale (key gone / priority changed)
    body = body_nodocstring(ps)
    scen = []
    for stale_kinds in ((), ('gone',), ('changed',), ('gone', 'changed'), ('changed', 'gone', 'changed')):
        heap = []
        live = {'L': 50, 'M': 70}
        pr = 1
        for kd in stale_kinds:
            if kd == 'gone':
                heap.append((pr, 'G%d' % pr))
            else:
                heap.append((pr, 'L'))          # an older, smaller priority of a key that was re-queued at 50
            pr += 1
        heap += [(50, 'L'), (70, 'M')]
        scen.append((stale_kinds, heap, live))
    bad = []
    for stale_kinds, heap, live in scen:
        q = orders.Table('self', dict(live))
        hp = list(heap)
        env = {'self': q, 'self._heap': hp}
        popped = []

        def heappop(h):
            if not h:
                raise orders.Unsupported('pop from an empty heap')
            popped.append(h[0])
            return h.pop(0)
        try:
            kind, val = orders.run_block(body, env, funcs={'heappop': heappop})
        except orders.Unsupported as e:
            if 'empty heap' in str(e) or 'absent key' in str(e):
                bad.append({'stale entries before the smallest live one': list(stale_kinds), 'heap': heap, 'queue': live, 'outcome': str(e)})
                continue
            raise shape_error('pop_smallest not interpretable: %s' % e, ps.loc())
        ok = kind == 'return' and val == 'L' and 'L' not in q and q == {'M': 70} and hp == [(70, 'M')]
        if not ok:
            bad.append({'stale entries before the smallest live one': list(stale_kinds), 'heap': heap, 'queue': live,
                        'returned': val, 'queue after': dict(q), 'heap after': hp})
    ctx.check(not bad, 'C06.Q', ps,
              'pop_smallest skips exactly the stale heap entries (key gone or priority changed), returns the live key of smallest priority and removes it',
              witness={'wrong cases': bad[:3]}, node=ps.node, key='stale')
    # __setitem__: stores in the dict and pushes (priority, key) (or rebuilds)
    key, val = si.params[1:3]
    txt = unparse(si.node)
    stores = 'super(priority_dict, self).__setitem__(%s, %s)' % (key, val) in txt or 'super().__setitem__(%s, %s)' % (key, val) in txt
    push = [n for n in ast.walk(si.node) if isinstance(n, ast.Call) and 'heappush' in unparse(n.func)]
    okp = len(push) == 1 and len(push[0].args) == 2 and unparse(push[0].args[1]) == '(%s, %s)' % (val, key)
    ctx.recognise(stores and okp, 'C06.Q', si, '__setitem__ stores the priority and pushes (priority, key) on the heap',
              witness={'push': unparse(push[0]) if push else None, 'dict store': stores}, node=si.node, key='setitem')
    # _rebuild_heap: (v, k) for k, v in items, heapified
    t = unparse(rb.node)
    ctx.recognise('[(v, k) for k, v in self.items()]' in t.replace('(v, k) for (k, v)', '(v, k) for k, v') and 'heapify(self._heap)' in t,
              'C06.Q', rb, '_rebuild_heap rebuilds (priority, key) pairs of all items and heapifies them',
              witness={'body': t[:200]}, node=rb.node, key='rebuild')


class _DictLike:
    def __init__(self, d):
        self.d = d


def _ev_dict(n, env):
    """orders.ev with `k in self` / `self[k]` on a dict-like"""
    import copy

    class T(ast.NodeTransformer):
        def visit_Compare(self, node):
            node = self.generic_visit(node)
            if len(node.ops) == 1 and isinstance(node.ops[0], (ast.In, ast.NotIn)) and isinstance(node.comparators[0], ast.Name) \
                    and isinstance(env.get(node.comparators[0].id), _DictLike):
                k = orders.ev(node.left, env)
                v = k in env[node.comparators[0].id].d
                return ast.Constant(value=v if isinstance(node.ops[0], ast.In) else not v)
            return node

        def visit_Subscript(self, node):
            node = self.generic_visit(node)
            if isinstance(node.value, ast.Name) and isinstance(env.get(node.value.id), _DictLike):
                k = orders.ev(node.slice, env)
                d = env[node.value.id].d
                return ast.Constant(value=d.get(k, 'absent'))
            return node
    # `k not in self or self[k] != v`: short-circuit must protect the subscript; evaluate lazily
    if isinstance(n, ast.BoolOp):
        isand = isinstance(n.op, ast.And)
        for x in n.values:
            v = bool(_ev_dict(x, env))
            if v != isand:
                return v
        return isand
    return orders.ev(T().visit(copy.deepcopy(n)), {k: v for k, v in env.items() if not isinstance(v, _DictLike)})


def rule_A(ctx):
    """C06.A all-pairs loop and prepare"""
    f = ctx.prog.func(NET + '.all_shortest_distances')
    body = body_nodocstring(f)
    loops = [s for s in body if isinstance(s, ast.For)]
    if len(loops) != 1:
        raise shape_error('all_shortest_distances: expected one loop', f.loc())
    l = loops[0]
    from .c18 import _resolve_range
    it = l.iter
    src_iter = None
    # resolve the iterable through progress-bar wrapping
    if isinstance(it, ast.Name):
        defs = [s.value for s in ast.walk(f.node) if isinstance(s, ast.Assign) and isinstance(s.targets[0], ast.Name)
                and s.targets[0].id == it.id]
        plain = [d for d in defs if not (isinstance(d, ast.Call) and len(d.args) == 1 and isinstance(d.args[0], ast.Name)
                                         and d.args[0].id == it.id)]
        if len(plain) == 1:
            src_iter = unparse(plain[0])
    else:
        src_iter = unparse(it)
    ctx.check(src_iter == 'self.getNodesId()', 'C06.A', f, 'every node of the network is used as a source',
              witness={'iterates over': src_iter}, node=l, key='all-sources')
    w = Walker(f, loop_mode='once')
    cut, od = f.params[1], f.params[2]
    outs = [o for o in w.run(body, State({f.params[3]: Rat.const(0)})) if o.kind in ('return', 'fall')]
    n = 0
    for o in outs:
        calls = [e for e in o.state.events if e.kind == 'call' and e.name == 'run_routing_forward']
        pathtxt = [repr(c) for c, _ in o.state.conds]
        if not calls:
            raise shape_error('all_shortest_distances: a path never calls run_routing_forward', f.loc())
        for c in calls:
            n += 1
            inloop = [x for x in c.conds if x not in [y for y in o.state.conds]] if False else None
            guards = [repr(cn) for cn, _ in c.conds if repr(cn) not in ('%s == None' % od, '%s != None' % od)]
            ctx.check(not [g for g in guards if l.target.id in g or 'NEXT_EDGES' in g], 'C06.A', f, 'the forward search is run from every source unconditionally',
                      witness={'conditions on the call': guards,
                               'why': 'the pairs (n, n) and everything reachable from a skipped source are missing from the table'}, node=c.node, key='skip')
            a_cut = c.kwargs.get('cut', c.args[2] if len(c.args) > 2 else None)
            a_od = c.kwargs.get('output_dict', c.args[3] if len(c.args) > 3 else None)
            a_t = c.kwargs.get('target', c.args[1] if len(c.args) > 1 else None)
            okc = isinstance(a_cut, Rat) and a_cut.single_atom() == cut
            ctx.check(okc, 'C06.A', f, 'each source is searched with exactly the caller\'s cut-off (0 included)',
                      witness={'cut-off passed': vr(a_cut), 'on the path': pathtxt,
                               'why': 'a truthiness test such as `if not cut` replaces the legitimate cut-off 0 by an unbounded search'}, node=c.node, key='cut')
            okd = isinstance(a_od, Rat) and (a_od.single_atom() == od or (a_od.single_atom() or '').startswith(('dict(', 'dict<')))
            ok = isinstance(c.args[0], Rat) and c.args[0].single_atom() == l.target.id and okd and a_t is None
            ctx.check(ok, 'C06.A', f, 'each source is searched with the shared table and no target', witness={'call': unparse(c.node)}, node=c.node, key='fwd-args')
    if n == 0:
        raise shape_error('all_shortest_distances never calls run_routing_forward', f.loc())
    p = ctx.prog.func(NET + '.prepare')
    wp = Walker(p, loop_mode='skip')
    pouts = [o for o in wp.run(body_nodocstring(p), State()) if o.kind in ('fall', 'return')]
    if not pouts:
        raise shape_error('prepare has no normal path', p.loc())
    for o in pouts:
        calls = [e for e in o.state.events if e.kind == 'call' and e.name == 'all_shortest_distances']
        pathtxt = [repr(c) for c, _ in o.state.conds]
        ctx.check(len(calls) == 1, 'C06.A', p, 'every call of prepare(cut) computes the table for that cut-off (also when a table already exists)',
                  witness={'path without computation': pathtxt,
                           'why': 'a second prepare with a larger cut-off would leave the pairs between the two cut-offs missing'}, node=p.node, key='prepare-always')
        for c in calls:
            a_cut = c.kwargs.get('cut', c.args[0] if c.args else None)
            a_od = c.kwargs.get('output_dict', c.args[1] if len(c.args) > 1 else None)
            ok = isinstance(a_cut, Rat) and a_cut.single_atom() == p.params[1] and vr(a_od) in ('self.DISTANCES', "dict()", 'dict<{}>') or \
                (isinstance(a_cut, Rat) and a_cut.single_atom() == p.params[1] and isinstance(a_od, Rat))
            ctx.check(ok, 'C06.A', p, 'prepare fills self.DISTANCES with the caller\'s cut-off', witness={'call': unparse(c.node)}, node=c.node, key='prepare')
    ps = ctx.prog.func(NET + '.prepared_shortest_distance')
    t = unparse(ps.node)
    ctx.recognise('key = (source, target)' in t and 'return self.DISTANCES[key]' in t, 'C06.A', ps,
              'prepared distances are looked up with the key order (source, target) used by the writer',
              witness={}, node=ps.node, key='lookup')


def rule_G(ctx):
    """C06.G the routing of the repository's Network class (with Node, Edge and the priority_dict queue beneath it) interpreted on
    small multigraphs and compared with Floyd-Warshall on the permitted arcs: single-pair distances, the all-pairs table for
    cut-offs below / at / above the distances, the prepared table"""
    from .. import netmodel
    tier = getattr(ctx, 'tier', 'quick')
    H = netmodel.Harness(ctx)
    NETQ = netmodel.NET + '.Network'
    fsd = ctx.prog.func(NETQ + '.shortest_distance')
    fall = ctx.prog.func(NETQ + '.all_shortest_distances')
    fprep = ctx.prog.func(NETQ + '.prepared_shortest_distance')
    INF = netmodel.INF
    found = {}
    n_graphs = n_queries = 0

    def same(a, b):
        return isinstance(a, (int, float)) and not isinstance(a, bool) and abs(a - b) <= 1e-9 * max(1.0, abs(b))
    for label, nodes, edges, layout in netmodel.families(tier):
        n_graphs += 1
        d = H.distances(nodes, edges)
        desc = {'graph': label, 'edges (id, stored source, stored target, orientation, weight)': [list(e) for e in edges]}
        net, pos, geom = H.build(nodes, edges, layout)
        # single pairs, in two query orders on the same object (labels of an earlier search must not leak)
        for s in nodes:
            for t in nodes:
                n_queries += 1
                ok, got = H.guard(fsd, lambda: net.call('shortest_distance', s, t))
                want = d[(s, t)]
                if not ok:
                    found.setdefault(('pair', 'fails'), (fsd, 'shortest_distance does not fail', dict(desc, query=[s, t], exception=got)))
                elif want == INF:
                    if not (isinstance(got, (int, float)) and got < 0):
                        found.setdefault(('pair', 'sentinel'), (fsd, 'an unreachable target is reported by a negative distance', dict(desc, query=[s, t], returned=got)))
                elif not same(got, want):
                    found.setdefault(('pair', 'value'), (fsd, 'shortest_distance(s, t) is the minimum total weight over the walks that respect the orientations',
                                                         dict(desc, query=[s, t], returned=got, minimum=want)))
        # a sub-network extracted from the network (by a forward search): the network itself still answers as before
        if n_graphs % 6 == 1 and len(nodes) >= 3:
            ok, sub = H.guard(fsd, lambda: net.call('sub_network', nodes[0], 1e300, 'TOPOLOGIC', False))
            if not ok:
                found.setdefault(('pair', 'fails'), (fsd, 'sub_network does not fail', dict(desc, exception=sub)))
            else:
                for s in nodes:
                    for t in nodes:
                        n_queries += 1
                        ok, got = H.guard(fsd, lambda: net.call('shortest_distance', s, t))
                        want = d[(s, t)]
                        if not ok or (want == INF and not (isinstance(got, (int, float)) and got < 0)) or (want != INF and not same(got, want)):
                            found.setdefault(('pair', 'after-sub'), (fsd, 'after a sub-network has been extracted from it, the network still answers every pair with its shortest distance',
                                                                     dict(desc, query=[s, t], returned=got, minimum=None if want == INF else want)))
        # all-pairs tables
        finite = sorted({v for v in d.values() if v != INF})
        cuts = [1e300] + sorted({c for v in finite for c in (v - 0.5, v, v + 0.5) if c >= 0})[:7]
        for cut in cuts:
            n_queries += 1
            ok, tab = H.guard(fall, lambda: net.call('all_shortest_distances', cut))
            want = {(s, t): v for (s, t), v in d.items() if v <= cut}
            if not ok:
                found.setdefault(('all', 'fails'), (fall, 'all_shortest_distances does not fail', dict(desc, cut=cut, exception=tab)))
                continue
            if not isinstance(tab, dict):
                found.setdefault(('all', 'table'), (fall, 'all_shortest_distances returns the table of pairs', dict(desc, cut=cut, returned=repr(tab)[:100])))
                continue
            missing = sorted((k for k in want if k not in tab), key=repr)
            extra = sorted((k for k in tab if k not in want), key=repr)
            wrong = sorted((k for k in want if k in tab and not same(tab[k], want[k])), key=repr)
            if missing or extra or wrong:
                found.setdefault(('all', 'table'), (fall, 'the table holds exactly the pairs whose shortest distance is at most the cut-off, with that distance',
                                                    dict(desc, cut=cut, **{'pairs missing': [list(k) for k in missing][:4], 'pairs that should not be there': [list(k) for k in extra][:4],
                                                                           'wrong values': [[list(k), tab[k], want[k]] for k in wrong][:4]})))
        # prepared table
        net2, _, _ = H.build(nodes, edges)
        ok, _r = H.guard(fprep, lambda: net2.call('prepare', 1e300, False))
        if not ok:
            found.setdefault(('prepared', 'fails'), (fprep, 'prepare does not fail', dict(desc, exception=_r)))
            continue
        for s in nodes:
            for t in nodes:
                n_queries += 1
                ok, got = H.guard(fprep, lambda: net2.call('prepared_shortest_distance', s, t))
                want = d[(s, t)]
                if not ok:
                    found.setdefault(('prepared', 'fails'), (fprep, 'prepared_shortest_distance does not fail', dict(desc, query=[s, t], exception=got)))
                elif want == INF:
                    if not (isinstance(got, (int, float)) and (got < 0 or got >= 1e299)):
                        found.setdefault(('prepared', 'value'), (fprep, 'a pair without a walk is reported as unreachable by the prepared table', dict(desc, query=[s, t], returned=got)))
                elif not same(got, want):
                    found.setdefault(('prepared', 'value'), (fprep, 'the prepared table answers every reachable pair with its shortest distance',
                                                             dict(desc, query=[s, t], returned=got, minimum=want)))
        # prepared with a cut-off (zero included: only the pairs joined by walks of total weight 0 remain): the table of the network
        # holds exactly the pairs within the cut-off
        for cut in [0] + [c for c in finite if c > 0][:1]:
            net4, _, _ = H.build(nodes, edges)
            n_queries += 1
            ok, _r = H.guard(fprep, lambda: net4.call('prepare', cut, False))
            tab = net4.fields.get('DISTANCES') if ok else None
            want = {(s, t): v for (s, t), v in d.items() if v <= cut}
            if not ok or not isinstance(tab, dict):
                found.setdefault(('prepared', 'fails'), (fprep, 'prepare does not fail', dict(desc, cut=cut, exception=_r if not ok else repr(tab)[:80])))
                continue
            missing = sorted((k for k in want if k not in tab), key=repr)
            extra = sorted((k for k in tab if k not in want), key=repr)
            wrong = sorted((k for k in want if k in tab and not same(tab[k], want[k])), key=repr)
            if missing or extra or wrong:
                found.setdefault(('prepared', 'cut'), (fprep, 'prepare(cut) leaves in the table exactly the pairs whose shortest distance is at most the cut-off, with that distance',
                                                       dict(desc, cut=cut, **{'pairs missing': [list(k) for k in missing][:4], 'pairs that should not be there': [list(k) for k in extra][:4],
                                                                              'wrong values': [[list(k), tab[k], want[k]] for k in wrong][:4]})))
    # preparing again with a larger cut-off on the same network object: the table then holds every pair within the new cut-off
    for label, nodes, edges, layout in [fm for fm in netmodel.families('quick') if fm[0].startswith(('chain A-B-C orientations (+0, +0) weights (1, 3)', 'diamond'))][:3]:
        d = H.distances(nodes, edges)
        finite = sorted({v for v in d.values() if v != INF and v > 0})
        if len(finite) < 2:
            continue
        net3, _, _ = H.build(nodes, edges)
        c1, c2 = finite[0], finite[-1]
        ok, r_ = H.guard(fprep, lambda: (net3.call('prepare', c1, False), net3.call('prepare', c2, False)))
        if not ok:
            found.setdefault(('prepared', 'fails'), (fprep, 'prepare does not fail', {'graph': label, 'exception': r_}))
            continue
        for (s, t), v in sorted(d.items(), key=repr):
            if v == INF or v > c2:
                continue
            n_queries += 1
            ok, got = H.guard(fprep, lambda: net3.call('prepared_shortest_distance', s, t))
            if not ok or not same(got, v):
                found.setdefault(('prepared', 'again'), (fprep, 'after prepare(c1) then prepare(c2 > c1) on the same network the table answers every pair within c2',
                                                         {'graph': label, 'edges': [list(e) for e in edges], 'cut-offs': [c1, c2], 'query': [s, t], 'returned': got, 'minimum': v}))
    for (what, key), (f, descr, wit) in sorted(found.items()):
        ctx.violation('C06.G', f, descr, wit, node=f.node, key='%s:%s' % (what, key))
    for what, f in (('pair', fsd), ('all', fall), ('prepared', fprep)):
        if not any(w_ == what for w_, _ in found):
            ctx.ok('C06.G', f, '%s agrees with Floyd-Warshall on the permitted arcs of %d multigraphs (%d queries)' % (f.name, n_graphs, n_queries), node=f.node)
    ctx.extra['C06.G graphs'] = n_graphs
    ctx.extra['C06.G queries'] = n_queries


def rule_PQ(ctx):
    """C06.Q the priority queue (priority_dict, interpreted from the repository with its heap) on every sequence of at most five
    operations over three keys: assign / re-assign a priority, pop the smallest - against a plain dictionary"""
    import itertools
    from .. import netmodel
    H = netmodel.Harness(ctx)
    fq = ctx.prog.func('tracklib.core.utils.priority_dict.pop_smallest')
    keys = ['a', 'b', 'c']
    ops = [('set', k, p) for k in keys[:2] for p in (1, 2, 3)] + [('set', 'c', 2), ('pop',), ('smallest',)]
    bad = None
    n_seq = 0
    for L in (1, 2, 3, 4, 5):
        for seq in itertools.product(ops, repeat=L):
            if L >= 4 and (sum(1 for o in seq if o[0] != 'set') == 0 or seq[0][0] != 'set'):
                continue
            if L == 5 and seq.count(('pop',)) < 2:
                continue
            n_seq += 1
            model = {}
            ok, q = H.guard(fq, lambda: H.fn['priority_dict']())
            if not ok:
                raise shape_error('priority_dict() not constructible: %s' % q, fq.loc())
            trace = []
            for o in seq:
                if o[0] == 'set':
                    model[o[1]] = o[2]
                    ok, r = H.guard(fq, lambda: orders.Obj.call(orders._Bound(q, q.repo_methods, H.fn), '__setitem__', o[1], o[2]))
                    want = ('ok',)
                    got = ('ok',) if ok else ('raises', r)
                else:
                    name = 'pop_smallest' if o[0] == 'pop' else 'smallest'
                    ok, r = H.guard(fq, lambda: orders.Obj.call(orders._Bound(q, q.repo_methods, H.fn), name))
                    if not model:
                        want = ('raises',)
                        got = ('raises',) if not ok else ('returns', r)
                    else:
                        m_ = min(model.values())
                        want = ('one of', sorted(k for k, v in model.items() if v == m_))
                        got = ('returns', r) if ok else ('raises', r)
                        if ok and r in want[1]:
                            got = want
                            if o[0] == 'pop':
                                del model[r]
                trace.append((o, got))
                if got != want or (ok and dict(q) != model):
                    if bad is None:
                        bad = {'operations': [list(o_) for o_ in seq[:len(trace)]], 'last outcome': repr(got), 'expected': repr(want),
                               'queue content afterwards': dict(q), 'expected content': dict(model)}
                    break
    ctx.extra['C06.Q sequences'] = n_seq
    ctx.check(bad is None, 'C06.Q', fq, 'priority_dict: smallest / pop_smallest return a key of currently minimal priority (re-assigned priorities included), pop removes it, '
              'an empty queue raises (%d operation sequences)' % n_seq, witness=bad, node=fq.node, key='queue')


RULES = [
    ('C06.G', rule_G, 'quick'),
    ('C06.Q', rule_PQ, 'quick'),
]
MIN_OBLIGATIONS = 4
