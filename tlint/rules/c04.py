"""C04 - sequence operations on a track (tracklib/core/track.py)."""
import ast
import copy
import re

from ..alg import Rat
from ..loader import shape_error, anchor_error
from ..sx import Walker, State
from ..effects import Effects
from .. import orders
from ..util import subst_names, single_assignments, add_terms, body_nodocstring, names_stored, unparse

TRACK = 'tracklib.core.track.Track'

EXPLANATION = (
    "Static analysis of Track.__gt__/__lt__/__mod__/__add__/extract/extractSpanTime/sort/removeObsList/"
    "__removeObsListById/__getInsertionIndex: each selecting construct is normalised and compared with its "
    "specification (slice bounds as affine forms in the argument and the size, stride, concatenation order, inclusive "
    "index range); time-span membership is evaluated on all 13 orderings of (timestamp, bound, bound); the feature "
    "table is carried as a copy; the operations write no observation list, position or timestamp of the source; the "
    "index list handed to the back-to-front deleter is the sorted one; the sorted track is a permutation by "
    "construction; the small-size arms of the insertion index are evaluated on all orderings and the two fix-up "
    "loops move in the right direction with their floor/ceiling guards.")
ASSUMPTIONS = ["timestamps are ordered by the ObsTime comparison operators (C03)", "float rounding of log in the bisection start is not decided"]
TECHNIQUE = "abstract interpretation of the repository's Track class by the checker's AST interpreter on every small track (sizes 0..5, duplicate timestamps) and argument value, against the list model, concatenation of tracks with differing feature tables, and of the ObsTime comparison operators those operations rely on (all field-wise orderings incl. milliseconds) (bounded exhaustive case domains); write-effect summaries (F1)"


def vr(v):
    if isinstance(v, Rat):
        a = v.single_atom()
        return a if a is not None else repr(v)
    return repr(v)


def _m(ctx, name):
    for q, fi in ctx.prog.functions.items():
        if q.startswith(TRACK + '.') and fi.name.endswith(name) and (fi.name == name or fi.name == '__' + name.lstrip('_')):
            return fi
    raise anchor_error('Track.%s not found' % name, TRACK)


def _nontrack_paths(f, w, arg):
    """return paths of an overloaded operator on its non-Track branch"""
    outs = [o for o in w.run(body_nodocstring(f), State()) if o.kind == 'return']
    res = []
    for o in outs:
        c = ' '.join(repr(c_) for c_, _ in o.state.conds)
        if 'not bool(isinstance(%s, Track))' % arg in c or ('isinstance(%s, int)' % arg in c and 'not' not in c) or \
                ('isinstance(%s, list)' % arg in c):
            res.append(o)
    return res


def rule_S(ctx):
    """C04.S slices, stride, concatenation"""
    P = 'self.__POINTS'
    size = 'self.size()'
    specs = [
        ('__gt__', 'head trimming  t > n  keeps observations n .. size-1', ['%s[%s:%s]' % (P, '{a}', size), '%s[%s:]' % (P, '{a}')]),
        ('__lt__', 'tail trimming  t < n  keeps observations 0 .. size-n-1', ['%s[0:%s]' % (P, '-{a} + ' + size), '%s[:%s]' % (P, '-{a} + ' + size)]),
    ]
    for name, desc, forms in specs:
        f = ctx.prog.func(TRACK + '.' + name)
        a = f.params[1]
        w = Walker(f, loop_mode='skip')
        outs = _nontrack_paths(f, w, a)
        if len(outs) != 1:
            raise shape_error('%s: numeric branch not found' % name, f.loc())
        o = outs[0]
        ctor = [e for e in o.state.events if e.kind == 'call' and e.name == 'Track']
        if len(ctor) != 1:
            raise shape_error('%s: result track not constructed once' % name, f.loc())
        got = vr(ctor[0].args[0])
        want = [x.format(a=a) for x in forms]
        ctx.check(got in want, 'C04.S', f, desc,
                  witness={'observations selected': got, 'specification': want[0],
                           'why': 'e.g. n = 0 must keep the whole track; a slice written [:-n] is empty for n = 0'},
                  node=ctor[0].node, key='slice:' + name)
        tr = [e for e in o.state.events if e.kind == 'call' and e.name.endswith('transmitAF')]
        ctx.check(len(tr) == 1 and vr(tr[0].recv) == vr(o.value) and vr(tr[0].args[0]) == 'self', 'C04.F', f,
                  '%s carries the feature table of the source over to the result' % name, witness={}, node=f.node, key='transmit:' + name)
    # decimation
    f = ctx.prog.func(TRACK + '.__mod__')
    a = f.params[1]
    w = Walker(f, loop_mode='once')
    outs = [o for o in w.run(body_nodocstring(f), State()) if o.kind == 'return']
    ints = [o for o in outs if any('isinstance(%s, int)' % a in repr(c) and not repr(c).startswith('not') for c, _ in o.state.conds)]
    lists = [o for o in outs if any('isinstance(%s, list)' % a in repr(c) and not repr(c).startswith('not') for c, _ in o.state.conds)]
    if not ints or not lists:
        raise shape_error('__mod__: int / list branches not found', f.loc())
    ctor = [e for e in ints[0].state.events if e.kind == 'call' and e.name == 'Track']
    ctx.check(len(ctor) == 1 and vr(ctor[0].args[0]) == '%s[::%s]' % (P, a), 'C04.S', f, 'decimation  t % n  keeps observations 0, n, 2n, ...',
              witness={'selected': vr(ctor[0].args[0]) if ctor else None}, node=f.node, key='stride')
    o = lists[0]
    loops = [e for e in o.state.events if e.kind == 'loop']
    adds = [e for e in o.state.events if e.kind == 'call' and e.name == 'addObs']
    okp = len(loops) == 1 and loops[0].value.get('range') is not None and vr(loops[0].value['range'][0]) == '0' and \
        vr(loops[0].value['range'][1]) == size and len(adds) == 1
    if okp:
        e = adds[0]
        iv = loops[0].value['node'].target.id
        g = [repr(c) for c, _ in e.conds if a in repr(c) and 'isinstance' not in repr(c)]
        okp = vr(e.args[0]) == 'self.getObs(%s)' % iv and g == ['bool(%s[(%s %% len(%s))])' % (a, iv, a)]
    ctx.check(bool(okp), 'C04.S', f, 'pattern decimation keeps observation i exactly when pattern[i mod len(pattern)] is true, for every i in order',
              witness={'adds': [[vr(x) for x in e.args] for e in adds], 'guards': [[repr(c) for c, _ in e.conds] for e in adds]}, node=f.node, key='pattern')
    concat(ctx)
    # __transmitAF copies the map
    t = _m(ctx, '__transmitAF')
    wt = Walker(t, loop_mode='skip')
    o = [o_ for o_ in wt.run(body_nodocstring(t), State())][0]
    st = [e for e in o.state.events if e.kind == 'store']
    ctx.check(len(st) == 1 and vr(st[0].value).endswith('.copy()') and '__analyticalFeaturesDico' in vr(st[0].value), 'C04.F', t,
              'the feature table handed to the result is a copy of the source table (not the same dictionary)',
              witness={'stored': vr(st[0].value) if st else None}, node=t.node, key='copy-map')


def concat(ctx):
    """a + b is the observations of a followed by those of b, on every path (also used by C07: route geometry is built with +)"""
    f = ctx.prog.func(TRACK + '.__add__')
    w = Walker(f, loop_mode='skip')
    fb = body_nodocstring(f)
    other = f.params[1]
    n = 0
    for o in w.run(fb, State()):
        if o.kind != 'return':
            continue
        ctors = [e for e in o.state.events if e.kind == 'call' and e.name == 'Track' and e.args]
        if len(ctors) != 1:
            raise shape_error('Track.__add__: result track not constructed once on a path', f.loc())
        n += 1
        arg = ctors[0].node.args[0]
        before = []
        for s_ in fb:
            if any(x is ctors[0].node for x in ast.walk(s_)):
                break
            before.append(s_)
        temps = {k: v for k, v in single_assignments(before).items() if k not in f.params and
                 isinstance(v, ast.BinOp) and isinstance(v.op, ast.Add)}          # a list sum held in a temporary
        terms = add_terms(subst_names(arg, temps))
        env = State({k: v for k, v in o.state.env.items()})
        got = [vr(w.ex(t_, env)) for t_ in terms]
        pts = lambda x: ['%s.__POINTS' % x, '%s.getObsList()' % x]
        okc = len(got) == 2 and got[0] in pts(vr(o.state.env.get('t1', Rat.atom('self')))) + pts('self') and \
            got[1] in pts(vr(o.state.env.get('t2', Rat.atom(other)))) + pts(other)
        ctx.check(okc, 'C04.S', f, 'concatenation  a + b  is the observations of a followed by those of b',
                  witness={'observations of the result': got, 'path': [repr(c) for c, _ in o.state.conds],
                           'why': 'every observation of both operands must come out, once, in order (a route geometry built with + loses a vertex otherwise)'},
                  node=ctors[0].node, key='concat')
    if n == 0:
        raise shape_error('Track.__add__: no path returns a track', f.loc())


def rule_T(ctx):
    """C04.T time-span extraction on all orderings"""
    f = ctx.prog.func(TRACK + '.extractSpanTime')
    tini, tfin = f.params[1:3]
    body = body_nodocstring(f)
    loops = [s for s in body if isinstance(s, ast.For)]
    swaps = [s for s in body if isinstance(s, ast.If) and isinstance(s.test, ast.Compare) and tini in unparse(s.test) and tfin in unparse(s.test)]
    if len(loops) != 1 or len(swaps) != 1:
        raise shape_error('extractSpanTime: swap test / scan loop not found', f.loc())
    lo = loops[0]

    class Sub(ast.NodeTransformer):
        def visit_Attribute(self, n):
            if n.attr == 'timestamp':
                return ast.copy_location(ast.Name(id='TS', ctx=ast.Load()), n)
            return self.generic_visit(n)
    lb = [Sub().visit(copy.deepcopy(s)) for s in lo.body]
    bad = []
    for o in orders.weak_orderings(['ts', 'a', 'b']):
        kept = []
        env = {tini: o['a'], tfin: o['b'], 'TS': o['ts']}
        try:
            orders.run_block([swaps[0]], env)
            r = orders.run_block(lb, env, funcs={'addObs': lambda x: kept.append(1), 'copy': lambda: 'obs'})
        except orders.Unsupported as e:
            raise shape_error('extractSpanTime not interpretable: %s' % e, f.loc(lo))
        want = min(o['a'], o['b']) <= o['ts'] <= max(o['a'], o['b'])
        if bool(kept) != want:
            bad.append({'ordering (ts = timestamp, a/b = the two bounds)': orders.describe(o), 'kept': bool(kept), 'inside the closed span': want})
    ctx.check(not bad, 'C04.T', f, 'an observation is kept exactly when its timestamp lies in the closed span between the two bounds (either order), on all 13 orderings',
              witness={'counter-examples': bad[:5]}, node=lo, key='span')
    w = Walker(f, loop_mode='skip')
    r = w.range_info(lo.iter, State())
    ctx.check(r is not None and vr(r[0]) == '0' and vr(r[1]) == 'self.size()', 'C04.T', f, 'every observation is examined, in order', witness={'range': unparse(lo.iter)},
              node=lo, key='range')
    exits = [o for o in w.run(lo.body, State({lo.target.id: Rat.atom(lo.target.id)})) if o.kind not in ('fall', 'continue')]
    ctx.check(not exits, 'C04.T', f, 'the scan never stops early: an observation is examined whatever the ones before it were',
              witness={'early exits': [{'kind': o.kind, 'when': [repr(c) for c, _ in o.state.conds]} for o in exits],
                       'why': 'on a track that is not sorted by time, observations inside the span that are stored after a too-late one are dropped'},
              node=lo, key='early-exit')
    t = unparse(f.node)
    ctx.recognise('track.__transmitAF(self)' in t, 'C04.F', f, 'the feature table is carried over', node=f.node)


def rule_F(ctx):
    """C04.F the source track is not modified"""
    eff = Effects(ctx.prog)
    for name in ('__add__', '__gt__', '__lt__', '__mod__', 'extract', 'extractSpanTime', 'getObs', '__getitem__'):
        fi = ctx.prog.functions.get(TRACK + '.' + name)
        if fi is None:
            raise anchor_error('Track.%s not found' % name, TRACK)
        e = eff.effects_of(fi.qual)
        bad = sorted(e & {'POS', 'TIME', 'OBSLIST'})
        ctx.check(not bad, 'C04.F', fi, '%s writes no observation list, position or timestamp of an existing track (effects: %s)' % (name, sorted(e)),
                  witness={'write chains': {b: eff.why(fi.qual, b) for b in bad}}, node=fi.node, key='frame:' + name)


def rule_R(ctx):
    """C04.R removal by index list"""
    f = ctx.prog.func(TRACK + '.removeObsList')
    tab = f.params[1]
    w = Walker(f, loop_mode='skip')
    outs = [o for o in w.run(body_nodocstring(f), State())]
    calls = [(o, e) for o in outs for e in o.state.events if e.kind == 'call' and e.name.endswith('removeObsListById')]
    if not calls:
        raise shape_error('removeObsList never calls the by-index deleter', f.loc())
    o, e = calls[0]
    arg = e.args[0]
    sorted_inplace = [x for x in o.state.events if x.kind == 'call' and x.name == 'sort' and vr(x.recv) == vr(arg) and x.seq < e.seq]
    is_sorted_copy = vr(arg).startswith('sorted(')
    ctx.check(bool(sorted_inplace) or is_sorted_copy, 'C04.R', f,
              'the index list handed to the back-to-front deleter is sorted ascending',
              witness={'list passed': vr(arg), 'sorted in place before the call': bool(sorted_inplace),
                       'why': 'with an unsorted list an earlier deletion shifts the positions of the indices still to delete'},
              node=e.node, key='sorted')
    g = _m(ctx, '__removeObsListById')
    lst = g.params[1]
    wg = Walker(g, loop_mode='once')
    go = [o_ for o_ in wg.run(body_nodocstring(g), State()) if o_.kind == 'return']
    loops = [x for o_ in go for x in o_.state.events if x.kind == 'loop']
    ok = False
    wit = {}
    if loops:
        r = loops[0].value.get('range')
        iv = loops[0].value['node'].target.id
        dels = [x for o_ in go for x in o_.state.events if x.kind == 'call' and x.name.endswith('removeObsById')]
        wit = {'range': [vr(x) for x in r] if r else None, 'deletes': [vr(x.args[0]) for x in dels]}
        ok = r is not None and wg.rel.is_zero(r[0] - (Rat.atom('len(%s)' % lst) - Rat.const(1))) and vr(r[1]) == '-1' and vr(r[2]) == '-1' and \
            len(dels) >= 1 and vr(dels[0].args[0]) == '%s[%s]' % (lst, iv)
    ctx.check(ok, 'C04.R', g, 'indices are deleted from the largest to the smallest (no deletion shifts a pending index)', witness=wit, node=g.node, key='descending')
    h = _m(ctx, '__removeObsById')
    ctx.recognise('del self.__POINTS[%s]' % h.params[1] in unparse(h.node), 'C04.R', h, 'a single deletion removes exactly the observation at that index', node=h.node)


def rule_P(ctx):
    """C04.P sort is a permutation by construction"""
    f = ctx.prog.func(TRACK + '.sort')
    w = Walker(f, loop_mode='once')
    outs = [o for o in w.run(body_nodocstring(f), State())]
    if len(outs) != 1:
        raise shape_error('Track.sort: expected one path', f.loc())
    o = outs[0]
    stores = [e for e in o.state.events if e.kind == 'store' and 'POINTS' in str(e.index)]
    if len(stores) != 1:
        raise shape_error('Track.sort: the store of the sorted list not found', f.loc())
    # the list stored: built by appends in a range loop, or by a comprehension
    built = None
    comps = [n for n in ast.walk(f.node) if isinstance(n, (ast.ListComp, ast.GeneratorExp))]
    apps = [e for e in o.state.events if e.kind == 'call' and e.name == 'append' and e.loops]
    if len(comps) == 1 and not apps:
        ci = w.comp_info(comps[0], o.state)
        if ci is not None and not ci['ifs']:
            built = (ci['range'], ci['var'], ci['elt'])
    elif len(apps) == 1 and not comps:
        lp = apps[0].loops[-1]
        if lp['kind'] == 'for' and isinstance(lp['node'].target, ast.Name) and not apps[0].conds:
            built = (lp.get('range'), lp['node'].target.id, apps[0].args[0])
    if built is None:
        raise shape_error('Track.sort: construction of the sorted list not understood', f.loc())
    r, iv, elt = built
    a = vr(elt)
    wit = {'element i of the new list': a, 'range': [vr(x) for x in r] if r else None}
    m = re.match(r'^self\.__POINTS\[(.+)\[%s\]\]$' % iv, a)
    ok = r is not None and vr(r[0]) == '0' and vr(r[1]) in ('self.size()', 'len(self)', 'len(self.__POINTS)') and vr(r[2]) == '1' and m is not None and \
        m.group(1).startswith('np.argsort(') and 'self.getTimestamps()' in m.group(1)
    ctx.check(bool(ok), 'C04.P', f, 'the sorted list is [P[idx[i]] for every i] with idx an argsort of this track\'s timestamps: a permutation of the same observations',
              witness=wit, node=f.node, key='perm')


def rule_I(ctx):
    """C04.I chronological insertion index"""
    f = _m(ctx, '__getInsertionIndex')
    ts = f.params[1]
    body = body_nodocstring(f)
    # small sizes: interpret the prefix for N in {0, 1} on the orderings of (first timestamp, requested)
    k = 0
    while k < len(body) and not (isinstance(body[k], ast.Assign) and 'log' in unparse(body[k])):
        k += 1
    prefix = body[:k]
    bad = []
    for N in (0, 1):
        for o in orders.weak_orderings(['first', 'req']):
            env = {ts: o['req']}
            funcs = {'size': lambda N=N: N, 'getFirstObs': lambda o=o: orders.Obj({'timestamp': o['first']}, {}),
                     'getObs': lambda i, o=o: orders.Obj({'timestamp': o['first']}, {})}
            try:
                kind, val = orders.run_block(prefix, env, funcs)
            except orders.Unsupported as e:
                raise shape_error('__getInsertionIndex: small-size arms not interpretable: %s' % e, f.loc())
            if kind != 'return':
                raise shape_error('__getInsertionIndex: size %d is not handled before the bisection (log of the size)' % N, f.loc())
            val = int(val)
            if N == 0:
                good = val == 0
            else:
                good = (val == 1 and o['first'] <= o['req']) or (val == 0 and o['req'] <= o['first'])
            if not good:
                bad.append({'track size': N, 'ordering': orders.describe(o) if N else '-', 'index returned': val})
    ctx.check(not bad, 'C04.I', f, 'for tracks of 0 or 1 observation the insertion index keeps the track sorted on every ordering of the two timestamps',
              witness={'counter-examples': bad, 'why': 'an earlier observation inserted after a later one leaves the track unsorted'}, node=f.node, key='small')
    # the two fix-up loops
    loops = [s for s in body if isinstance(s, ast.While)]
    if len(loops) < 3:
        raise shape_error('__getInsertionIndex: bisection + two fix-up loops not found', f.loc())
    A, B = loops[-2], loops[-1]
    w = Walker(f, loop_mode='skip')
    idn = None
    for n in ast.walk(A.test):
        if isinstance(n, ast.Call) and getattr(n.func, 'attr', None) == 'getObs' and isinstance(n.args[0], ast.Name):
            idn = n.args[0].id
    if idn is None:
        raise shape_error('fix-up loop test does not read getObs(id).timestamp', f.loc(A))
    for loop, direction in ((A, -1), (B, +1)):
        st = State({idn: Rat.atom('ID')})
        c = w.cond(loop.test, st)
        obs_t = 'self.getObs(ID).timestamp'
        if direction == -1:
            okt = c.kind == 'cmp' and c.op in ('<', '<=') and vr(c.a) == ts and vr(c.b) == obs_t
            dsc = 'while the observation at the index is later than the new timestamp the index moves left'
        else:
            okt = c.kind == 'cmp' and c.op in ('<', '<=') and vr(c.a) == obs_t and vr(c.b) == ts
            dsc = 'while the observation at the index is not later than the new timestamp the index moves right'
        ctx.check(okt, 'C04.I', f, dsc, witness={'loop test': repr(c)}, node=loop, key='dir:%d' % direction)
        outs = list(w.run(loop.body, State({idn: Rat.atom('ID')})))
        cont = [o for o in outs if o.kind in ('fall', 'continue')]
        brk = [o for o in outs if o.kind == 'break']
        okm = bool(cont) and all(isinstance(o.state.env.get(idn), Rat) and w.rel.is_zero(o.state.env[idn] - Rat.atom('ID') - Rat.const(direction)) for o in cont)
        ctx.check(okm, 'C04.I', f, 'each turn moves the index by exactly one position', witness={'index after': [vr(o.state.env.get(idn)) for o in cont]}, node=loop,
                  key='step:%d' % direction)
        if direction == -1:
            # floor guard: the decrement happens only under id != 0
            g = all(any(cj.kind == 'cmp' and cj.op == '!=' and {vr(cj.a), vr(cj.b)} == {'ID', '0'} for c_, _ in o.state.conds for cj in c_.conjuncts()) or
                    any(cj.kind == 'cmp' and cj.op == '<' and vr(cj.a) == '0' and vr(cj.b) == 'ID' for c_, _ in o.state.conds for cj in c_.conjuncts()) for o in cont)
            ctx.check(g and bool(brk), 'C04.I', f, 'the index never goes below 0 (the decrement is guarded by index != 0)',
                      witness={'paths that decrement': [[repr(c_) for c_, _ in o.state.conds] for o in cont],
                               'why': 'index -1 wraps to the last observation'}, node=loop, key='floor')
        else:
            # ceiling guard: after the increment, id == N leaves the loop before getObs(id) is read again
            N = None
            g = False
            for o in brk:
                for c_, _ in o.state.conds:
                    for cj in c_.conjuncts():
                        if cj.kind == 'cmp' and cj.op == '==' and isinstance(cj.a, Rat) and isinstance(cj.b, Rat):
                            d = cj.a - cj.b
                            if w.rel.is_zero(d - (Rat.atom('ID') + Rat.const(1) - Rat.atom('N'))) or w.rel.is_zero(d + (Rat.atom('ID') + Rat.const(1) - Rat.atom('N'))) or \
                                    'self.size()' in repr(d) and 'ID' in repr(d):
                                g = True
            ctx.check(g, 'C04.I', f, 'the index never passes the size (after the increment, index == size leaves the loop before the next read)',
                      witness={'break paths': [[repr(c_) for c_, _ in o.state.conds] for o in brk]}, node=loop, key='ceiling')
    rets = [s for s in body if isinstance(s, ast.Return)]
    ctx.recognise(bool(rets) and unparse(rets[-1].value) == idn, 'C04.I', f, 'the index reached by the fix-up loops is returned', node=f.node)
    g = ctx.prog.func(TRACK + '.insertObsInChronoOrder')
    ctx.recognise('self.insertObs(obs, self.__getInsertionIndex(obs.timestamp))' in unparse(g.node), 'C04.I', g,
                  'chronological insertion inserts at the computed index', node=g.node)
    h = ctx.prog.func(TRACK + '.insertObs')
    ctx.recognise('self.__POINTS.insert(i, obs)' in unparse(h.node) and 'self.insertObsInChronoOrder(obs)' in unparse(h.node), 'C04.I', h,
                  'insertion without an index is chronological, with an index positional', node=h.node)


class _Proxy:
    def __init__(self, ctx):
        self._ctx = ctx

    def __getattr__(self, k):
        return getattr(self._ctx, k)

    def ok(self, rule, *a, **kw):
        return self._ctx.ok('C04.X', *a, **kw)

    def violation(self, rule, *a, **kw):
        return self._ctx.violation('C04.X', *a, **kw)

    def check(self, cond, rule, func, desc, witness=None, node=None, key=None):
        return self._ctx.check(cond, 'C04.X', func, desc, witness=witness, node=node, key=key)

    def recognise(self, cond, rule, func, desc, node=None, witness=None, key=None):
        return self._ctx.recognise(cond, 'C04.X', func, desc, node=node)


def rule_X(ctx):
    """C04.X index extraction copies [id_ini, id_fin] inclusive (shared with C11.X)"""
    from . import c11
    c11.rule_X(_Proxy(ctx))


def rule_G(ctx):
    """C04.G every sequence operation of the repository's Track class interpreted on all small tracks and argument values, against the
    list model (observations are tagged; timestamps are instants with the usual order, duplicates included)"""
    import itertools
    from .. import absint, orders, npstub
    fn = absint.funcs(ctx, 'tracklib.core.track', dict(npstub.stubs()))
    fn['deepcopy'] = absint.deep_copy
    T = absint.classref(ctx, TRACK, fn)
    import math as _math
    fn['log'] = _math.log

    # observations, positions and timestamps are the repository's own classes (Obs, ENUCoords, ObsTime), interpreted: the order of
    # instants, copies and equality the sequence operations rely on are those of the code.  An instant t of the case domain is the
    # timestamp (t + 1) // 2 seconds, plus 500 ms when t is even: t and t + 1 may differ in their milliseconds only.
    OB = absint.classref(ctx, 'tracklib.core.obs.Obs', fn)
    EN = absint.classref(ctx, 'tracklib.core.obs_coords.ENUCoords', fn)
    OT = absint.classref(ctx, 'tracklib.core.obs_time.ObsTime', fn)

    def Stamp(t):
        s_ = (t + 1) // 2
        return OT(2020, 1, 1, 0, s_ // 60, s_ % 60, 500 if t % 2 == 0 else 0)

    def tval(ts):
        if not isinstance(ts, orders.Obj):
            return repr(ts)
        f_ = ts.fields
        s_ = f_['min'] * 60 + f_['sec']
        if (f_['year'], f_['month'], f_['day'], f_['hour']) != (2020, 1, 1, 0) or f_['ms'] not in (0, 500):
            return ('altered', f_['year'], f_['month'], f_['day'], f_['hour'], f_['min'], f_['sec'], f_['ms'])
        return 2 * s_ - 1 if f_['ms'] == 0 else 2 * s_

    def O(k, t):
        o = OB(EN(float(k), 0.0, 0.0), Stamp(t))
        o.fields['k'] = k
        o.fields['features'] = [('f', k)]
        return o

    def mk(times, first=0):
        t = T([O(first + k, tm) for k, tm in enumerate(times)], 'u', 't')
        dk = [k for k in t.fields if 'analyticalFeaturesDico' in k]
        if len(dk) != 1:
            raise shape_error('Track: name -> column map attribute not found')
        t.fields[dk[0]] = {'f': 0}
        return t

    def snap(t):
        if not isinstance(t, orders.Obj) or '_Track__POINTS' not in t.fields:
            return None
        return [(o.fields.get('k'), tval(o.fields.get('timestamp')), o.fields['position'].fields['E'] if isinstance(o.fields.get('position'), orders.Obj) else repr(o.fields.get('position')), tuple(o.fields['features'])) for o in t.fields['_Track__POINTS']]

    def tags(t):
        s_ = snap(t)
        return None if s_ is None else [x[0] for x in s_]

    found = {}
    counts = {}

    def fail(op, key, desc, wit):
        found.setdefault((op, key), (desc, wit))

    def attempt(op, fq, thunk):
        counts[op] = counts.get(op, 0) + 1
        try:
            return True, thunk()
        except orders.Unsupported as ex:
            raise shape_error('Track.%s not interpretable: %s' % (fq, ex), ctx.prog.func(TRACK + '.' + fq).loc())
        except orders.PROGRAM_ERRORS as ex:
            return False, '%s: %s' % (type(ex).__name__, str(ex)[:160])

    def check_result(op, fq, src_times, args_txt, src, before, res, want, carries=True):
        """res: resulting Track record; want: expected tag list"""
        case = {'track (tag, time)': [(b[0], b[1]) for b in before], 'operation': args_txt}
        if snap(src) != before:
            fail(op, 'source', 'the source track is left as it was', dict(case, **{'source afterwards': [(x[0], x[1]) for x in (snap(src) or [])]}))
        got = snap(res)
        if got is None or [g[0] for g in got] != want:
            fail(op, 'selection', 'the result holds exactly the designated observations, in the original order',
                 dict(case, result=None if got is None else [g[0] for g in got], expected=want))
            return
        # an observation of the result is either the source's own observation or a copy that shares nothing mutable with it
        src_by_tag = {o.fields.get('k'): o for o in src.fields['_Track__POINTS']} if isinstance(src, orders.Obj) else {}
        for o in res.fields['_Track__POINTS']:
            so = src_by_tag.get(o.fields.get('k')) if isinstance(o, orders.Obj) else None
            if so is not None and so is not o:
                shared = [nm for nm in ('features', 'position', 'timestamp') if o.fields.get(nm) is so.fields.get(nm) and isinstance(o.fields.get(nm), (list, orders.Obj))]
                if shared:
                    fail(op, 'alias', 'an observation copied into the result shares no list or object with the observation it was copied from (a later change of one must not show in the other)',
                         dict(case, observation=o.fields.get('k'), **{'shared members': shared}))
        by = {b[0]: b for b in before}
        for g in got:
            if g[0] in by and (g[1], g[2], g[3]) != by[g[0]][1:]:
                fail(op, 'own-values', 'each observation of the result carries its own timestamp, position and feature values',
                     dict(case, observation=g[0], carried=[g[1], g[2], list(g[3])], own=list(by[g[0]][1:3]) + [list(by[g[0]][3])]))
        if carries and want:
            names = res.call('getListAnalyticalFeatures')
            if names != ['f']:
                fail(op, 'table', 'the feature table is carried over to the result', dict(case, **{'features listed by the result': names}))
            else:
                dk = [k for k in res.fields if 'analyticalFeaturesDico' in k][0]
                sk = [k for k in src.fields if 'analyticalFeaturesDico' in k][0]
                if res.fields[dk] is src.fields[sk]:
                    fail(op, 'table-alias', 'the result has its own copy of the feature table (a later feature on one track must not appear on the other)', case)

    # (odd instants are whole seconds, even ones half seconds: [6, 5] and [1, 4, 3, 2] are out of order INSIDE a second)
    TIMES = {0: [[]], 1: [[5]], 2: [[5, 7], [5, 5], [7, 5], [6, 5]], 3: [[5, 7, 9], [5, 5, 9], [9, 7, 5], [5, 9, 7], [7, 6, 5]], 4: [[1, 3, 5, 7], [1, 3, 3, 7], [1, 4, 3, 2]], 5: [[1, 3, 5, 7, 9]]}
    if ctx.tier == 'thorough':
        TIMES.update({6: [[1, 3, 5, 7, 9, 11], [1, 3, 3, 3, 9, 11], [11, 9, 7, 5, 3, 1]], 7: [[1, 2, 3, 4, 5, 6, 7], [7, 7, 1, 1, 4, 4, 4]], 8: [[1, 2, 3, 4, 5, 6, 7, 8]]})
    for n, tlists in sorted(TIMES.items()):
        for times in tlists:
            # head / tail trimming, decimation
            for k in range(0, n + 1):
                for op, fq, sym, want in (('t > n', '__gt__', '>', list(range(n))[k:]), ('t < n', '__lt__', '<', list(range(n))[:n - k])):
                    src = mk(times)
                    before = snap(src)
                    ok, res = attempt(op, fq, lambda: src.call(fq, k))
                    if not ok:
                        fail(op, 'fails', 'the operation does not fail', {'track times': times, 'operation': 't %s %d' % (sym, k), 'exception': res})
                        continue
                    check_result(op, fq, times, 't %s %d' % (sym, k), src, before, res, want)
            for step in range(1, n + 2):
                src = mk(times)
                before = snap(src)
                ok, res = attempt('t % n', '__mod__', lambda: src.call('__mod__', step))
                if not ok:
                    fail('t % n', 'fails', 'the operation does not fail', {'track times': times, 'operation': 't %% %d' % step, 'exception': res})
                    continue
                check_result('t % n', '__mod__', times, 't %% %d' % step, src, before, res, list(range(n))[::step])
            for plen in (1, 2, 3):
                for pat in itertools.product([True, False], repeat=plen):
                    src = mk(times)
                    before = snap(src)
                    ok, res = attempt('t % pattern', '__mod__', lambda: src.call('__mod__', list(pat)))
                    if not ok:
                        fail('t % pattern', 'fails', 'the operation does not fail', {'track times': times, 'operation': 't %% %r' % (list(pat),), 'exception': res})
                        continue
                    # the pattern form builds a bare track (no identifiers): its feature table is checked only where the code carries one today
                    check_result('t % pattern', '__mod__', times, 't %% %r' % (list(pat),), src, before, res, [i for i in range(n) if pat[i % plen]], carries=False)
            # index extraction (inclusive), including the empty range b == a - 1
            for a_ in range(0, n + 1):
                for b_ in range(a_ - 1, n):
                    if a_ == n and b_ != a_ - 1:
                        continue
                    src = mk(times)
                    before = snap(src)
                    ok, res = attempt('extract', 'extract', lambda: src.call('extract', a_, b_))
                    if not ok:
                        fail('extract', 'fails', 'the operation does not fail', {'track times': times, 'operation': 'extract(%d, %d)' % (a_, b_), 'exception': res})
                        continue
                    check_result('extract', 'extract', times, 'extract(%d, %d)' % (a_, b_), src, before, res, list(range(a_, b_ + 1)))
            # time span (closed, bounds in either order), instants before / on / between / after the fixes
            inst = sorted(set([tm for tm in times] + [tm + 1 for tm in times] + [0, 20]))
            for lo in inst:
                for hi in inst:
                    src = mk(times)
                    before = snap(src)
                    ok, res = attempt('extractSpanTime', 'extractSpanTime', lambda: src.call('extractSpanTime', Stamp(lo), Stamp(hi)))
                    if not ok:
                        fail('extractSpanTime', 'fails', 'the operation does not fail', {'track times': times, 'operation': 'extractSpanTime(%s, %s)' % (lo, hi), 'exception': res})
                        continue
                    a_, b_ = min(lo, hi), max(lo, hi)
                    check_result('extractSpanTime', 'extractSpanTime', times, 'extractSpanTime(%s, %s)' % (lo, hi), src, before, res,
                                 [i for i, tm in enumerate(times) if a_ <= tm <= b_])
            # removal by index list, indices given in any order
            for r in range(1, min(n, 3) + 1):
                for idx in itertools.permutations(range(n), r):
                    src = mk(times)
                    before = snap(src)
                    arg = list(idx)
                    ok, res = attempt('removeObsList', 'removeObsList', lambda: src.call('removeObsList', arg))
                    if not ok:
                        fail('removeObsList', 'fails', 'the operation does not fail', {'track times': times, 'operation': 'removeObsList(%r)' % (list(idx),), 'exception': res})
                        continue
                    left = tags(src)
                    want = [i for i in range(n) if i not in idx]
                    if left != want:
                        fail('removeObsList', 'selection', 'removal by index list leaves exactly the other observations, in order',
                             {'track times': times, 'operation': 'removeObsList(%r)' % (list(idx),), 'observations left': left, 'expected': want})
            # sort
            src = mk(times)
            before = snap(src)
            ok, res = attempt('sort', 'sort', lambda: src.call('sort'))
            if not ok:
                fail('sort', 'fails', 'the operation does not fail', {'track times': times, 'exception': res})
            else:
                after = snap(src)
                if sorted(after) != sorted(before) or any(after[i][1] > after[i + 1][1] for i in range(len(after) - 1)):
                    fail('sort', 'order', 'sorting yields the same observations, each with its own values, in non-decreasing time order',
                         {'track (tag, time)': [(b[0], b[1]) for b in before], 'after sort': [(b[0], b[1]) for b in after]})
            # concatenation with a second track
            for m_ in (0, 1, 2):
                src = mk(times)
                other = mk([30 + j for j in range(m_)], first=100)
                before, bo = snap(src), snap(other)
                ok, res = attempt('t1 + t2', '__add__', lambda: src.call('__add__', other))
                if not ok:
                    fail('t1 + t2', 'fails', 'the operation does not fail', {'track times': times, 'second track size': m_, 'exception': res})
                    continue
                check_result('t1 + t2', '__add__', times, 't + (track of %d)' % m_, src, before + [], res, list(range(n)) + [100 + j for j in range(m_)], carries=(n > 0 and m_ > 0))
                if snap(other) != bo:
                    fail('t1 + t2', 'source', 'the source track is left as it was', {'second operand afterwards': tags(other)})
            # an empty selection joined with another track: the observations of the other track keep their feature table
            if n >= 1:
                for how, sel in (('t > size', lambda s_: s_.call('__gt__', n)), ('t < size', lambda s_: s_.call('__lt__', n)), ('extract(1, 0)', lambda s_: s_.call('extract', 1, 0) if n > 1 else s_.call('extract', 0, -1))):
                    src = mk(times)
                    other = mk([30, 31], first=100)
                    ok, res = attempt('t1 + t2', '__add__', lambda: sel(src).call('__add__', other))
                    if not ok:
                        fail('t1 + t2', 'fails', 'the operation does not fail', {'track times': times, 'operation': '(%s) + (track of 2)' % how, 'exception': res})
                        continue
                    got = snap(res)
                    names = res.call('getListAnalyticalFeatures') if got is not None else None
                    if got is None or [g[0] for g in got] != [100, 101] or names != ['f']:
                        fail('t1 + t2', 'empty-left', 'an empty selection of a track with features, joined with a track listing the same features, gives that track\'s observations with the feature table',
                             {'track times': times, 'operation': '(%s) + (track of 2 with feature f)' % how, 'result': None if got is None else [g[0] for g in got], 'features listed by the result': names})
    # chronological insertion into sorted tracks of every size 0..9 (powers of two and their neighbours), duplicates included
    for n in range(0, 10):
        for dup in (False, True):
            times = [10 * (k + 1) for k in range(n)]
            if dup and n >= 2:
                times[n // 2] = times[n // 2 - 1]
            elif dup:
                continue
            inst = sorted(set([5] + times + [tm + 5 for tm in times]))
            for x in inst:
                src = mk(times)
                new = O(500, x)
                ok, res = attempt('insertObsInChronoOrder', 'insertObsInChronoOrder', lambda: src.call('insertObsInChronoOrder', new))
                if not ok:
                    fail('insertObsInChronoOrder', 'fails', 'the operation does not fail', {'sorted track times': times, 'instant inserted': x, 'exception': res})
                    continue
                after = snap(src)
                tg = [a[0] for a in after]
                old = [g for g in tg if g != 500]
                if tg.count(500) != 1 or old != list(range(n)) or any(after[i][1] > after[i + 1][1] for i in range(len(after) - 1)):
                    fail('insertObsInChronoOrder', 'order', 'inserting an observation without an index into a time-sorted track leaves it sorted, with every former observation kept in place order',
                         {'sorted track times': times, 'instant inserted': x, 'track afterwards (tag, time)': [(a[0], a[1]) for a in after]})
    # concatenation of tracks whose feature tables differ (other order, other names): whatever name the result lists, reading it on
    # an observation gives that observation's own value of that feature
    def mk_named(times, names, first):
        t = mk(times, first=first)
        dk = [k for k in t.fields if 'analyticalFeaturesDico' in k][0]
        t.fields[dk] = {nm: j for j, nm in enumerate(names)}
        for o in t.fields['_Track__POINTS']:
            o.fields['features'] = [(nm, o.fields['k']) for nm in names]
        return t
    for n1, n2 in ((['f', 'g'], ['g', 'f']), (['f', 'g'], ['f', 'g']), (['f', 'g', 'h'], ['h', 'f', 'g']), (['f'], ['g']), (['f', 'g'], ['f']), (['f'], ['f', 'g'])):
        src, other = mk_named([1, 2, 3], n1, 0), mk_named([4, 5], n2, 100)
        ok, res = attempt('t1 + t2', '__add__', lambda: src.call('__add__', other))
        if not ok:
            fail('t1 + t2', 'fails', 'the operation does not fail', {'features of the operands': [n1, n2], 'exception': res})
            continue
        got = snap(res)
        if got is None or [g[0] for g in got] != [0, 1, 2, 100, 101]:
            fail('t1 + t2', 'selection', 'the result holds exactly the designated observations, in the original order', {'features of the operands': [n1, n2], 'result': None if got is None else [g[0] for g in got]})
            continue
        ok, names = attempt('t1 + t2', '__add__', lambda: res.call('getListAnalyticalFeatures'))
        wrong = None
        for nm in (names if ok and isinstance(names, list) else []):
            for i, g in enumerate(got):
                ok2, v = attempt('t1 + t2', '__add__', lambda: res.call('getObsAnalyticalFeature', nm, i))
                if ok2 and v != (nm, g[0]) and wrong is None:
                    wrong = {'feature read': nm, 'observation': g[0], 'value read (feature it belongs to, observation)': list(v) if isinstance(v, tuple) else repr(v)}
        if wrong is not None:
            fail('t1 + t2', 'own-values', 'each observation of the result carries its own feature values: a feature the result lists reads, on every observation, that observation\'s value of THAT feature',
                 dict(wrong, **{'features of the left operand (column order)': n1, 'features of the right operand (column order)': n2, 'features listed by the result': names}))
    fT = ctx.prog.cls(TRACK)
    anchors = {'t > n': '__gt__', 't < n': '__lt__', 't % n': '__mod__', 't % pattern': '__mod__', 'extract': 'extract', 'extractSpanTime': 'extractSpanTime',
               'removeObsList': 'removeObsList', 'sort': 'sort', 't1 + t2': '__add__', 'insertObsInChronoOrder': 'insertObsInChronoOrder'}
    for (op, key), (desc, wit) in sorted(found.items()):
        f = ctx.prog.func(TRACK + '.' + anchors[op])
        ctx.violation('C04.G', f, '%s: %s' % (op, desc), wit, node=f.node, key='%s:%s' % (op, key))
    for op, fq in anchors.items():
        if not any(o_ == op for o_, _ in found):
            f = ctx.prog.func(TRACK + '.' + fq)
            ctx.ok('C04.G', f, '%s agrees with the list model on %d interpreted cases (source untouched, own values, feature table carried as a copy)' % (op, counts.get(op, 0)), node=f.node)
    ctx.extra['C04.G cases'] = sum(counts.values())


def rule_O(ctx):
    """C04.O the order of timestamps that sort(), chronological insertion and extractSpanTime rely on: the repository's ObsTime comparison
    operators interpreted on every field-wise ordering of two instants (milliseconds included) and on the carry cases"""
    from . import c03
    c03.rule_C(ctx, rid='C04.O')


RULES = [
    ('C04.G', rule_G, 'quick'),
    ('C04.O', rule_O, 'quick'),
    ('C04.X', rule_X, 'quick'),
    ('C04.F', rule_F, 'quick'),
]
MIN_OBLIGATIONS = 12
