"""C13 - tracks and networks written to file are read back unchanged (io/*, ObsTime formats)."""
import ast
import re

from ..alg import Rat
from ..loader import shape_error, anchor_error
from ..sx import Walker, State
from .. import orders
from ..util import body_nodocstring, names_stored, unparse, const_list

TW = 'tracklib.io.track_writer.TrackWriter'
TR = 'tracklib.io.track_reader.TrackReader'
TF = 'tracklib.io.track_format.TrackFormat'
NW = 'tracklib.io.network_writer.NetworkWriter'
NR = 'tracklib.io.network_reader'
OT = 'tracklib.core.obs_time.ObsTime'
TRACK = 'tracklib.core.track.Track'
EDGE = 'tracklib.core.network.Edge'

EXPLANATION = (
    "Static comparison of writers with their readers (two programs, one table each): coordinate precision per "
    "coordinate system; the writer's column-slot table against the order in which the data list is built, for the "
    "four presence cases, and the reader's field extraction by the same four indices with presence tests that treat "
    "column 0 as present; format attributes read by writer and reader are attributes TrackFormat defines and the "
    "header option reaches the header test; default print and read timestamp formats agree, the precompiled read "
    "table equals the offsets implied by the format string, the print substitution list is aligned with the code "
    "table; GPX attribute order vs the reader's positional split, tags, precision, and the print format restored on "
    "every exit; network CSV column order vs a named network format, orientation written/validated over the three "
    "constants, exact header skip; WKT writer/parser separators.")
ASSUMPTIONS = ["values containing the separator or the no-data sentinel are value-level cases, not decided"]
TECHNIQUE = "writer/reader table agreement (F5), index/slot pairing over presence cases (F3), constant-domain evaluation (F4), must-restore path rule (F6)"


def vr(v):
    if isinstance(v, Rat):
        a = v.single_atom()
        return a if a is not None else repr(v)
    return repr(v)


def _find(ctx, prefix, suffix):
    for q, fi in ctx.prog.functions.items():
        if q.startswith(prefix + '.') and fi.name.endswith(suffix):
            return fi
    raise anchor_error('%s.*%s not found' % (prefix, suffix), prefix)


def rule_P(ctx):
    """C13.P precision of written coordinates"""
    f = ctx.prog.func(TW + '.writeToFile')
    fm = {}
    for n in ast.walk(f.node):
        if isinstance(n, ast.If) and 'getSRID().upper()' in unparse(n.test):
            m = re.search(r"== '(\w+)'", unparse(n.test))
            for s in n.body:
                if isinstance(s, ast.Assign) and isinstance(s.value, ast.Constant) and isinstance(s.value.value, str) and m:
                    mm = re.match(r'^\{:\d*\.(\d+)f\}$', s.value.value)
                    if mm:
                        fm[m.group(1)] = int(mm.group(1))
    need = {'ENU': 3, 'ECEF': 3, 'GEO': 8}
    bad = {k: fm.get(k) for k, v in need.items() if fm.get(k) is None or fm.get(k) < v}
    ctx.check(not bad, 'C13.P', f, 'CSV coordinates are written with >= 3 decimals (metric) and >= 8 decimals (geographic)',
              witness={'decimals per system': fm, 'insufficient': bad}, node=f.node, key='csv-precision')
    g = ctx.prog.func(TW + '.writeToGpx')
    decs = [int(m) for n in ast.walk(g.node) if isinstance(n, ast.Constant) and isinstance(n.value, str)
            for m in re.findall(r'^\{:\d*\.(\d+)f\}$', n.value)]
    ctx.check(len(decs) >= 3 and min(decs) >= 8, 'C13.P', g, 'GPX coordinates are written with >= 8 decimals', witness={'decimals': decs}, node=g.node, key='gpx-precision')


def rule_O(ctx):
    """C13.O column order"""
    f = ctx.prog.func(TW + '.writeToFile')
    w = Walker(f, loop_mode='skip')
    # slot table O on the four presence cases
    body = body_nodocstring(f)
    start = None
    for k, s in enumerate(body):
        if isinstance(s, ast.Assign) and unparse(s.targets[0]) == 'O':
            start = k
    if start is None:
        raise shape_error('writeToFile: slot table O not found', f.loc())
    end = start
    while end < len(body) and not (isinstance(body[end], ast.Expr) and 'O.sort' in unparse(body[end])):
        end += 1
    if end == len(body):
        raise shape_error('writeToFile: O.sort(...) not found', f.loc())
    for hasU in (True, False):
        for hasT in (True, False):
            env = {'fmt.id_E': Rat.atom('cE'), 'fmt.id_N': Rat.atom('cN'),
                   'fmt.id_U': Rat.atom('cU') if hasU else Rat.const(-1),
                   'fmt.id_T': Rat.atom('cT') if hasT else Rat.const(-1), 'af_names': []}
            outs = [o for o in w.run(body[start:end], State(dict(env))) if o.kind == 'fall']
            feas = []
            for o in outs:
                ok = True
                for c, _ in o.state.conds:
                    t = repr(c)
                    if hasU and t in ('cU == -1',) or (not hasU and False):
                        ok = False
                    if hasT and t in ('cT == -1',):
                        ok = False
                    if hasU and 'cU == -1' == t:
                        ok = False
                if ok:
                    feas.append(o)
            # symbolic column atoms are never -1: drop paths that assume so
            feas = [o for o in outs if not any(repr(c) in ('cU == -1', 'cT == -1') for c, _ in o.state.conds)]
            if len(feas) != 1:
                raise shape_error('slot table: %d feasible paths for U=%s T=%s' % (len(feas), hasU, hasT), f.loc())
            O = feas[0].state.env.get('O')
            want = [('cE', 0), ('cN', 1)]
            if hasU:
                want.append(('cU', 2))
            if hasT:
                want.append(('cT', 3 if hasU else 2))
            got = [(vr(p[0]), int(p[1].constval())) for p in O] if isinstance(O, list) and all(
                isinstance(p, tuple) and len(p) == 2 and isinstance(p[1], Rat) and p[1].isconst() for p in O) else None
            ctx.check(got == want, 'C13.O', f,
                      'slot table pairs each column index with the position of that datum in the data list [E, N%s%s]'
                      % (', U' if hasU else '', ', T' if hasT else ''), witness={'table': got, 'expected': want}, node=body[start], key='slots:%s%s' % (hasU, hasT))
    ctx.recognise('O.sort(key=TrackWriter.__takeFirst)' in unparse(f.node), 'C13.O', f, 'slots are sorted by column index (first component)', witness={}, node=f.node, key='sort')
    tk = _find(ctx, TW, '__takeFirst')
    ctx.recognise('return elem[0]' in unparse(tk.node), 'C13.O', tk, 'the sort key is the column index', witness={}, node=tk.node, key='key')
    # __printInOrder: D built [E, N, (U), (T)], printed D[O[k][1]] for k = 0, 1, 2, 3 in this order
    p = _find(ctx, TW, '__printInOrder')
    pb = body_nodocstring(p)
    for hasU in (True, False):
        for hasT in (True, False):
            seq = []

            def walk(stmts):
                for s in stmts:
                    if isinstance(s, ast.If):
                        t = unparse(s.test)
                        if t == 'U is not None':
                            walk(s.body if hasU else s.orelse)
                        elif t == 'T is not None':
                            walk(s.body if hasT else s.orelse)
                        else:
                            raise shape_error('__printInOrder: unexpected test %s' % t, p.loc(s))
                    else:
                        for n in ast.walk(s):
                            if isinstance(n, ast.Subscript) and unparse(n.value) == 'D':
                                m = re.match(r'^O\[(\d+)\]\[1\]$', unparse(n.slice))
                                if m:
                                    seq.append(int(m.group(1)))
                        if isinstance(s, ast.Expr) and 'D.append' in unparse(s):
                            seq.append('append:' + unparse(s.value.args[0]))
            walk(pb)
            apps = [x for x in seq if isinstance(x, str)]
            cols = [x for x in seq if isinstance(x, int)]
            n = 2 + hasU + hasT
            wantapps = (['append:U'] if hasU else []) + (['append:T'] if hasT else [])
            ctx.check(apps == wantapps and cols == list(range(n)), 'C13.O', p,
                      'the k-th printed column is the datum of the k-th smallest column index (k = 0..%d), data list = [E, N%s%s]'
                      % (n - 1, ', U' if hasU else '', ', T' if hasT else ''),
                      witness={'data list growth': apps, 'columns printed (slot numbers)': cols}, node=p.node, key='print:%s%s' % (hasU, hasT))
    ctx.recognise("D = [E, N]" in unparse(p.node), 'C13.O', p, 'the data list starts with [E, N]', witness={}, node=p.node, key='D0')
    # reader: fields[fmt.id_X] for the same four names
    r = _find(ctx, TR, '__readFromCsv')
    t = unparse(r.node)
    okr = 'E = float(fields[fmt.id_E])' in t and 'N = float(fields[fmt.id_N])' in t and 'U = float(fields[fmt.id_U])' in t and \
        "T = fields[fmt.id_T].strip().replace('\"', '')" in t
    ctx.recognise(okr, 'C13.O', r, 'the reader takes E, N, U, T from the fields at the same four column indices', witness={}, node=r.node, key='reader-fields')
    ctx.recognise('ENUCoords(E, N, U)' in t and 'GeoCoords(E, N, U)' in t and 'ECEFCoords(E, N, U)' in t, 'C13.O', r,
              'the three coordinates are passed to the coordinate constructors in (E, N, U) order', witness={}, node=r.node, key='ctor-order')
    # presence tests treat column 0 as present
    bad = []
    n_tests = 0
    for fn in (r, f):
        for n in ast.walk(fn.node):
            if isinstance(n, ast.Compare) and len(n.ops) == 1 and re.match(r'^fmt\.id_[UTEN]$', unparse(n.left)) and isinstance(n.comparators[0], (ast.Constant, ast.UnaryOp)):
                n_tests += 1
                try:
                    c = ast.literal_eval(n.comparators[0])
                except Exception:
                    continue
                op = type(n.ops[0])
                present0 = {ast.GtE: 0 >= c, ast.Gt: 0 > c, ast.NotEq: 0 != c, ast.Eq: not (0 == c), ast.Lt: not (0 < c), ast.LtE: not (0 <= c)}.get(op)
                absent_m1 = {ast.GtE: -1 >= c, ast.Gt: -1 > c, ast.NotEq: -1 != c, ast.Eq: not (-1 == c), ast.Lt: not (-1 < c), ast.LtE: not (-1 <= c)}.get(op)
                if present0 is not True or absent_m1 is not False:
                    bad.append({'test': unparse(n), 'in': fn.name, 'column 0 counted as present': present0, '-1 counted as present': absent_m1})
    ctx.check(not bad and n_tests >= 6, 'C13.O', r, 'every test "is this column present?" accepts index 0 and rejects -1 (any permutation of the columns is legal)',
              witness={'inconsistent tests': bad, 'tests examined': n_tests}, node=r.node, key='presence')


def rule_H(ctx):
    """C13.H format attributes, header option, separator safety"""
    tf = ctx.prog.cls(TF)
    init = tf.methods['__init__']
    defined = {n.attr for n in ast.walk(init.node) if isinstance(n, ast.Attribute) and isinstance(n.ctx, ast.Store)
               and isinstance(n.value, ast.Name) and n.value.id == 'self'}
    f = ctx.prog.func(TW + '.writeToFile')
    r = _find(ctx, TR, '__readFromCsv')
    for fn in (f, r):
        read = {n.attr for n in ast.walk(fn.node) if isinstance(n, ast.Attribute) and isinstance(n.ctx, ast.Load)
                and isinstance(n.value, ast.Name) and n.value.id == 'fmt'}
        stored = {n.attr for n in ast.walk(fn.node) if isinstance(n, ast.Attribute) and isinstance(n.ctx, ast.Store)
                  and isinstance(n.value, ast.Name) and n.value.id == 'fmt'}
        undefined = sorted(read - defined - stored)
        dead = sorted(stored - defined - read)
        ctx.check(not undefined and not dead, 'C13.H', fn,
                  '%s reads only format attributes that TrackFormat defines, and sets none that nobody reads' % fn.name,
                  witness={'read but never defined': undefined, 'set but never read (option silently ignored)': dead}, node=fn.node, key='attrs:' + fn.name)
    # the header parameter reaches the header test
    t = unparse(f.node)
    hp = 'h'
    ctx.check('fmt.header = %s' % hp in t and 'if fmt.header > 0:' in t, 'C13.H', f, 'the header option of the writer is the one its header block tests',
              witness={}, node=f.node, key='header-live')
    # header lines are comment lines for the reader
    hdr = [n for n in ast.walk(f.node) if isinstance(n, ast.If) and unparse(n.test) == 'fmt.header > 0']
    ok = bool(hdr)
    if hdr:
        writes = [c for c in ast.walk(hdr[0]) if isinstance(c, ast.Call) and getattr(c.func, 'attr', None) == 'write']
        ok = bool(writes) and all(unparse(c.args[0]).startswith('fmt.cmt +') for c in writes)
    rt = unparse(r.node)
    ctx.recognise(ok and 'line.strip()[0] == fmt.cmt' in rt, 'C13.H', f, 'every header line starts with the comment character the reader skips',
              witness={}, node=f.node, key='header-comment')
    ctx.recognise('for i in range(fmt.header):' in rt, 'C13.H', r, 'the reader skips exactly `header` leading lines', witness={}, node=r.node, key='header-skip')
    ctx.recognise('line.strip().split(fmt.separator)' in rt and 'fmt.separator' in t, 'C13.H', r, 'writer and reader use the same separator attribute', witness={}, node=r.node, key='separator')
    # separator safety: default timestamp print format vs documented separators
    ot = ctx.prog.cls(OT)
    pf = None
    for k, v in ot.consts.items():
        if k.endswith('PRINT_FMT') and isinstance(v, ast.Constant):
            pf = v.value
    doc = tf.node.body[0].value.value if isinstance(tf.node.body[0], ast.Expr) and isinstance(tf.node.body[0].value, ast.Constant) else ''
    seps = set()
    m = re.search(r'sep:\s+separating characters.*?Can be (.*?)\n', doc, re.S)
    if m:
        if 'comma' in m.group(1):
            seps.add(',')
        if 'blankspace' in m.group(1):
            seps.add(' ')
        if 'semi' in m.group(1):
            seps.add(';')
    if pf is None or not seps:
        raise shape_error('default print format / documented separators not found')
    clash = sorted(seps & set(pf))
    ctx.check(not clash, 'C13.H', ctx.prog.func(TW + '.writeToFile'),
              'no documented separator occurs inside a timestamp printed with the default format',
              witness={'default print format': pf, 'documented separators': sorted(seps), 'clash': clash,
                       'why': 'the reader splits the line on the separator: the timestamp falls into two fields and is read as 01/01/1970'},
              node=None, key='sep-clash:' + ''.join(clash))


def rule_T(ctx):
    """C13.T timestamp print/read formats"""
    ot = ctx.prog.cls(OT)
    c = {}
    for k, v in ot.consts.items():
        c[k.lstrip('_')] = v
    rf, pf = c.get('READ_FMT'), c.get('PRINT_FMT')
    if not (isinstance(rf, ast.Constant) and isinstance(pf, ast.Constant)):
        raise anchor_error('ObsTime default formats not found', OT)
    f0 = ot.methods['__str__']
    ctx.check(rf.value == pf.value, 'C13.T', f0, 'default print format == default read format', witness={'print': pf.value, 'read': rf.value}, node=pf, key='defaults')
    codes = const_list(c.get('codes'))
    pre = c.get('PRECOMPILED_READ_FMT')
    try:
        pre_v = ast.literal_eval(pre)
    except Exception:
        raise shape_error('precompiled read table is not a literal')
    # recompute offsets from the format string
    fmt = rf.value
    found = sorted(((fmt.find(code), code) for code in codes if fmt.find(code) >= 0))
    shift = 0
    exp = []
    for pos, code in found:
        exp.append((code, pos + shift))
        shift += int(code[0]) - 2
    ctx.check(exp == list(pre_v), 'C13.T', f0, 'the precompiled read table equals the offsets implied by the default read format',
              witness={'table': pre_v, 'implied': exp}, node=pre, key='precompiled')
    # __str__: substitution list aligned with the codes
    s = f0
    sub = None
    for n in ast.walk(s.node):
        if isinstance(n, ast.Assign) and unparse(n.targets[0]) == 'subst' and isinstance(n.value, ast.List):
            sub = n.value
    if sub is None or codes is None:
        raise shape_error('__str__: substitution list not found', s.loc())
    field_of = {'D': 'self.day', 'M': 'self.month', 'Y': 'self.year', 'h': 'self.hour', 'm': 'self.min', 's': 'self.sec', 'z': 'self.ms'}
    bad = []
    for code, e in zip(codes, sub.elts):
        if field_of[code[1]] not in unparse(e):
            bad.append({'code': code, 'substituted by': unparse(e)})
    ctx.check(len(codes) == len(sub.elts) and not bad, 'C13.T', s, 'print: entry i of the substitution list is the field named by code i',
              witness={'misaligned': bad}, node=sub, key='subst')
    fm = _find(ctx, OT, '__fillMember')
    t = unparse(fm.node)
    handled = {l for l in 'DMhmsz' if "code[1] == '%s'" % l in t} | ({'Y'} if "code == '4Y'" in t and "code == '2Y'" in t else set())
    ctx.check(handled == set('DMYhmsz'), 'C13.T', fm, 'read: every code letter fills its field', witness={'handled': sorted(handled)}, node=fm.node, key='fill')
    pairs = {'D': 'day', 'M': 'month', 'h': 'hour', 'm': 'min', 's': 'sec'}
    bad = []
    for n in ast.walk(fm.node):
        if isinstance(n, ast.If):
            m = re.match(r"^code\[1\] == '(\w)'$", unparse(n.test))
            if m and m.group(1) in pairs:
                tgt = [unparse(x.targets[0]) for x in n.body if isinstance(x, ast.Assign)]
                if tgt != ['self.' + pairs[m.group(1)]]:
                    bad.append({'code letter': m.group(1), 'fills': tgt})
    ctx.check(not bad, 'C13.T', fm, 'read: each code letter fills the field of the same name', witness={'wrong': bad}, node=fm.node, key='fill-pairs')
    rt = ot.methods['readTimestamp']
    t = unparse(rt.node)
    ctx.recognise('timeAsString[index:index + int(PCL[i][0][0])], PCL[i][0]' in t, 'C13.T', rt,
              'read: each field is cut at its precompiled offset with the width given by its code', witness={}, node=rt.node, key='cut')


def rule_G(ctx):
    """C13.G GPX writer vs reader"""
    g = ctx.prog.func(TW + '.writeToGpx')
    r = _find(ctx, TR, '__readFromGpx')
    gt, rtxt = unparse(g.node), unparse(r.node)
    # writer: the quoted attribute values of the <trkpt ...> line, in order; reader: which split piece feeds X and Y
    def flat(n):
        if isinstance(n, ast.BinOp) and isinstance(n.op, ast.Add):
            return flat(n.left) + flat(n.right)
        return [n]
    wr = None
    for c in ast.walk(g.node):
        if isinstance(c, ast.Call) and getattr(c.func, 'attr', None) == 'write' and c.args and '<trkpt' in unparse(c.args[0]):
            wr = c
    if wr is None:
        raise shape_error('writeToGpx: the <trkpt ...> line is not written by a single write call', g.loc())
    toks = flat(wr.args[0])
    text = ''
    names_at = {}          # index of the piece in line.split('"') -> variable written there
    for tk in toks:
        if isinstance(tk, ast.Constant) and isinstance(tk.value, str):
            text += tk.value
        elif isinstance(tk, ast.Name):
            names_at[text.count('"')] = tk.id
            text += '<%s>' % tk.id
        else:
            raise shape_error('writeToGpx: <trkpt> line contains %s' % unparse(tk), g.loc(wr))
    attr_of = {}
    for idx, var in names_at.items():
        m = re.search(r'(\w+)="$', text.split('<%s>' % var)[0])
        attr_of[var] = m.group(1) if m else None
    # which getter fills each variable
    getter = {}
    for n_ in ast.walk(g.node):
        if isinstance(n_, ast.Assign) and isinstance(n_.targets[0], ast.Name) and n_.targets[0].id in names_at.values():
            m = re.search(r'position\.(get[XYZ])\(\)', unparse(n_.value))
            if m:
                getter[n_.targets[0].id] = m.group(1)
    mk = None
    for c in ast.walk(r.node):
        if isinstance(c, ast.Call) and getattr(c.func, 'id', None) == 'makeCoords' and 'splits' in unparse(c) and mk is None:
            mk = c
    if mk is None:
        raise shape_error('__readFromGpx: makeCoords(float(splits[..]), ...) not found', r.loc())
    def piece(a):
        m = re.search(r'splits\[(\d+)\]', unparse(a))
        return int(m.group(1)) if m else None
    px, py = piece(mk.args[0]), piece(mk.args[1])
    wx, wy = names_at.get(px), names_at.get(py)
    okll = getter.get(wx) == 'getX' and getter.get(wy) == 'getY' and attr_of.get(wx) == 'lon' and attr_of.get(wy) == 'lat'
    ctx.check(okll, 'C13.G', g,
              'the value the reader takes as X is the one written from getX() under lon=, the value taken as Y is the one written from getY() under lat=',
              witness={'written line': text.strip(), 'reader takes X from piece': px, 'which holds': '%s (%s, attribute %s)' % (wx, getter.get(wx), attr_of.get(wx)),
                       'reader takes Y from piece': py, 'which holds ': '%s (%s, attribute %s)' % (wy, getter.get(wy), attr_of.get(wy))}, node=wr, key='latlon')
    tags = all(tg in gt for tg in ('<trk>', '<trkpt ', '<ele>', '<time>', '</trkpt>', '</trk>'))
    rtags = "'<' + fmt.type + '>'" in rtxt and "'<' + fmt.type + 'pt '" in rtxt and "'<ele>'" in rtxt and "'<time>'" in rtxt and "'</' + fmt.type + 'pt>'" in rtxt
    ctx.recognise(tags and rtags, 'C13.G', g, 'tags written (<trk>, <trkpt, <ele>, <time>) are the tags searched by the reader', witness={}, node=g.node, key='tags')
    # the temporary print format is restored on every normal exit
    params = g.params
    onef = params[3] if len(params) > 3 else 'oneFile'
    n_bad = []
    n_paths = 0
    for val in (1, 0):
        w = Walker(g, loop_mode='once')
        outs = [o for o in w.run(body_nodocstring(g), State({onef: Rat.const(val), params[2]: Rat.const(0)})) if o.kind in ('fall', 'return')]
        for o in outs:
            sets = [e for e in o.state.events if e.kind == 'call' and e.name == 'setPrintFormat']
            if not sets:
                continue
            n_paths += 1
            first, last = sets[0], sets[-1]
            restored = last is not first and isinstance(last.args[0], Rat) and last.args[0].single_atom() == 'ObsTime.getPrintFormat()'
            if not restored:
                n_bad.append({'oneFile': bool(val), 'last format installed': vr(last.args[0])})
    if n_paths == 0:
        raise shape_error('writeToGpx: no exit installs a print format', g.loc())
    ctx.check(not n_bad, 'C13.G', g,
              'the timestamp print format changed for GPX output is restored on every exit (one file or many)',
              witness={'exits that leave the GPX format installed': n_bad[:4],
                       'why': 'every later CSV export then prints GPX-style timestamps that the CSV reader cannot parse (read back as 01/01/1970)'},
              node=g.node, key='restore')
    tz = ctx.prog.cls(OT).methods['timeWithZone']
    ctx.recognise("ObsTime.setPrintFormat('4Y-2M-2DT2h:2m:2s')" in gt, 'C13.G', g, 'GPX timestamps use the ISO code format 4Y-2M-2DT2h:2m:2s', witness={}, node=g.node, key='iso')


def rule_N(ctx):
    """C13.N network CSV"""
    wfun = ctx.prog.func(NW + '.writeToCsv')
    t = unparse(wfun.node)
    order = []
    for n in ast.walk(wfun.node):
        if isinstance(n, ast.For) and 'network.EDGES' in unparse(n.iter):
            for s in n.body:
                if isinstance(s, ast.AugAssign) and unparse(s.target) == 'output':
                    order.append(unparse(s.value))
    cols = []
    for e in order:
        if 'edge.id' in e and 'source' not in e and 'target' not in e:
            cols.append('edge_id')
        elif 'edge.source.id' in e:
            cols.append('source')
        elif 'edge.target.id' in e:
            cols.append('target')
        elif 'edge.orientation' in e:
            cols.append('direction')
        elif 'toWKT()' in e:
            cols.append('wkt')
    ctx.check(cols == ['edge_id', 'source', 'target', 'direction', 'wkt'], 'C13.N', wfun, 'network CSV columns: id, source, target, direction, wkt',
              witness={'columns written': cols}, node=wfun.node, key='cols')
    # a named format reads exactly this layout
    import os
    path = os.path.join(ctx.prog.root, 'resources', 'network_file_format')
    fmts = {}
    try:
        for line in open(path, encoding='utf-8'):
            if line.strip() and not line.startswith('#'):
                tab = [x.strip() for x in line.split(',')]
                fmts[tab[0]] = tab
    except OSError:
        raise anchor_error('resources/network_file_format not readable')
    match = [k for k, tb in fmts.items() if tb[1:5] == ['0', '1', '2', '4'] and tb[6] == '3' and tb[7] == 'c' and tb[8] == '1']
    ctx.check(bool(match), 'C13.N', wfun, 'a named network format (edge_id 0, source 1, target 2, direction 3, wkt 4, comma, 1 header row) reads this layout',
              witness={'matching formats': match}, node=wfun.node, key='format')
    nf = ctx.prog.func('tracklib.io.network_format.NetworkFormat.createFromFile')
    tt = unparse(nf.node)
    ok = all(s in tt for s in ('self.pos_edge_id = int(FIELDS[1].strip())', 'self.pos_source = int(FIELDS[2].strip())', 'self.pos_target = int(FIELDS[3].strip())',
                               'self.pos_wkt = int(FIELDS[4].strip())', 'self.pos_direction = int(FIELDS[6].strip())', 'self.header = int(FIELDS[8].strip())'))
    ctx.recognise(ok, 'C13.N', nf, 'format fields are bound to the columns documented in the resource file', witness={}, node=nf.node, key='fields')
    # header rows: exactly fmt.header are skipped; writer writes 1 when h == 1
    rf = ctx.prog.func(NR + '.NetworkReader.readFromFile')
    rt = unparse(rf.node)
    hdr_ok = None
    for n in ast.walk(rf.node):
        if isinstance(n, ast.For) and unparse(n.iter) == 'range(fmt.header)' and len(n.body) == 1 and 'next(' in unparse(n.body[0]):
            hdr_ok = True
        if isinstance(n, ast.For) and isinstance(n.iter, ast.Name) and any(isinstance(b, ast.Break) for b in ast.walk(n)) and \
                'fmt.header' in unparse(n):
            hdr_ok = False
            ctx.violation('C13.N', rf, 'the network reader skips exactly `header` rows',
                          {'loop': unparse(n)[:160], 'header': 0, 'rows consumed': 1,
                           'why': 'a for-loop over the reader consumes a row before its counter is tested: a file written without header loses its first edge'},
                          node=n, key='header')
    if hdr_ok is None:
        ctx.recognise(False, 'C13.N', rf, 'the network reader skips exactly `header` rows')
    elif hdr_ok:
        ctx.ok('C13.N', rf, 'the network reader skips exactly `header` rows (range(header) x next)', node=rf.node)
    # orientation: written with str, validated against the three constants
    rl = ctx.prog.func(NR + '.readLineAndAddToNetwork')
    ifs = [n for n in ast.walk(rl.node) if isinstance(n, ast.If) and 'orientation' in unparse(n.test) and
           any(isinstance(s, ast.Assign) and unparse(s.targets[0]) == 'orientation' for s in n.body)]
    if len(ifs) != 1:
        raise shape_error('readLineAndAddToNetwork: orientation validity test not found', rl.loc())
    ec = ctx.prog.cls(EDGE)
    consts = {}
    for k in ('DOUBLE_SENS', 'SENS_DIRECT', 'SENS_INVERSE'):
        consts['Edge.' + k] = ast.literal_eval(ec.consts[k])
    bad = []
    for name, val in consts.items():
        env = dict(consts)
        env['orientation'] = val
        try:
            invalid = bool(orders.ev(ifs[0].test, env))
        except orders.Unsupported as e:
            raise shape_error('orientation validity test not interpretable: %s' % e, rl.loc(ifs[0]))
        if invalid:
            bad.append({'orientation written': name, 'value': val, 'reader': 'rejects it and substitutes %s' % unparse(ifs[0].body[0].value)})
    for val in (2, -2, 7):
        env = dict(consts)
        env['orientation'] = val
        if not bool(orders.ev(ifs[0].test, env)):
            bad.append({'orientation': val, 'reader': 'accepts a value that is none of the three constants'})
    ctx.check(not bad, 'C13.N', rl, 'each of the three orientation constants written by the writer is accepted unchanged by the reader (and nothing else is)',
              witness={'wrong cases': bad}, node=ifs[0], key='orientation')
    ctx.recognise('str(edge.orientation)' in t and 'orientation = int(row[fmt.pos_direction])' in unparse(rl.node), 'C13.N', rl,
              'orientation is written with str() and read back with int()', witness={}, node=rl.node, key='orient-io')
    ctx.recognise("'\"' + edge.geom.toWKT() + '\"'" in t and 'TAB_OBS = wktLineStringToObs(geom, fmt.srid.upper())' in unparse(rl.node) and 'doublequote=True' in rt,
              'C13.N', rl, 'geometry is written as quoted WKT and parsed back by wktLineStringToObs', witness={}, node=rl.node, key='geom')
    ctx.recognise('source = str(row[fmt.pos_source])' in unparse(rl.node) and 'target = str(row[fmt.pos_target])' in unparse(rl.node) and
              'edge_id = str(row[fmt.pos_edge_id])' in unparse(rl.node), 'C13.N', rl, 'edge id, source and target are read from their columns', witness={}, node=rl.node, key='ids')


def rule_W(ctx):
    """C13.W WKT text round trip"""
    f = ctx.prog.func(TRACK + '.toWKT')
    t = unparse(f.node)
    ok = "output = 'LINESTRING('" in t and "str(self.__POINTS[i].position.E) + ' '" in t and 'str(self.__POINTS[i].position.N)' in t and \
        "output += ','" in t and "output += ')'" in t and 'if i != self.size() - 1' in t
    ctx.recognise(ok, 'C13.W', f, 'toWKT writes LINESTRING(x y,x y,...) with str(float) (shortest exact representation), x before y', witness={}, node=f.node, key='towkt')
    p = ctx.prog.func(TR + '.parseWkt')
    pt = unparse(p.node)
    ok = "wkt.split('(')[1].split(')')[0]" in pt and "wkt.split(',')" in pt and "sl = s.strip().split(' ')" in pt and 'x = float(sl[0])' in pt and 'y = float(sl[1])' in pt \
        and "makeCoords(x, y, z, 'ENU')" in pt
    ctx.recognise(ok, 'C13.W', p, 'parseWkt splits on the same ( ) , and blank and takes the first two numbers as x, y', witness={}, node=p.node, key='parsewkt')
    g = ctx.prog.func(NR + '.wktLineStringToObs')
    gt = unparse(g.node)
    ok = "coords_string.split(',')" in gt and "coords[i].strip().split(' ')" in gt and 'x = float(sl[0])' in gt and 'y = float(sl[1])' in gt and \
        'for i in range(0, len(coords))' in gt
    ctx.recognise(ok, 'C13.W', g, 'wktLineStringToObs reads every vertex, x then y', witness={}, node=g.node, key='wkt2obs')


RULES = [
    ('C13.P', rule_P, 'quick'),
    ('C13.O', rule_O, 'quick'),
    ('C13.H', rule_H, 'quick'),
    ('C13.T', rule_T, 'quick'),
    ('C13.G', rule_G, 'quick'),
    ('C13.N', rule_N, 'quick'),
    ('C13.W', rule_W, 'quick'),
]
MIN_OBLIGATIONS = 30
