"""C13 - tracks and networks written to file are read back unchanged (io/*, ObsTime formats)."""
import ast
import re
import itertools

from ..alg import Rat
from ..loader import shape_error, anchor_error
from ..sx import Walker, State
from .. import orders
from ..seqx import SeqX, Cat, Sym, Loop, guard
from ..util import body_nodocstring, names_stored, unparse, const_list

TW = 'tracklib.io.track_writer.TrackWriter'
TR = 'tracklib.io.track_reader.TrackReader'
TF = 'tracklib.io.track_format.TrackFormat'
NW = 'tracklib.io.network_writer.NetworkWriter'
NR = 'tracklib.io.network_reader'
OT = 'tracklib.core.obs_time.ObsTime'
TRACK = 'tracklib.core.track.Track'
EDGE = 'tracklib.core.network.Edge'

EXPLANATION = (
    'Static analysis by interpretation of the source (nothing imported or executed by CPython; open(), os.path and csv.reader act on an in-memory store): a track written by the interpreted CSV or GPX writer and read back by the interpreted reader with the matching format must have the same observations in order, coordinates to the written precision (1 mm metric, 1e-8 degree geographic) and timestamps to the second (milliseconds >= 500, midnight, month and year ends included); the global timestamp print format must be what it was before writing; a network written to CSV and read back must have the same nodes (ids and places), edges, end nodes, orientations and geometries; WKT text must parse back to the same planimetric coordinates.')
ASSUMPTIONS = ["values containing the separator or the no-data sentinel are value-level cases, not decided"]
TECHNIQUE = "abstract interpretation of the writers and readers (TrackWriter / TrackReader / TrackFormat / ObsTime print and read formats, NetworkWriter / NetworkReader / NetworkFormat, Track.toWKT / parseWkt) by the checker's AST interpreter over an in-memory file system: round trips for three coordinate systems x every column permutation x separators x header options, GPX one-file / per-track, a four-edge network with the three orientations, WKT text of ENU / geographic tracks with float, int and numpy-scalar coordinates (bounded case domain)"


def vr(v):
    if isinstance(v, Rat):
        a = v.single_atom()
        return a if a is not None else repr(v)
    return repr(v)


def _find(ctx, prefix, suffix):
    for q, fi in ctx.prog.functions.items():
        if q.startswith(prefix + '.') and fi.name.endswith(suffix):
            return fi
    raise anchor_error('%s.*%s not found' % (prefix, suffix), prefix)


def rule_P(ctx):
    """C13.P precision of written coordinates"""
    f = ctx.prog.func(TW + '.writeToFile')
    fm = {}
    for n in ast.walk(f.node):
        if isinstance(n, ast.If) and 'getSRID().upper()' in unparse(n.test):
            m = re.search(r"== '(\w+)'", unparse(n.test))
            for s in n.body:
                if isinstance(s, ast.Assign) and isinstance(s.value, ast.Constant) and isinstance(s.value.value, str) and m:
                    mm = re.match(r'^\{:\d*\.(\d+)f\}$', s.value.value)
                    if mm:
                        fm[m.group(1)] = int(mm.group(1))
    need = {'ENU': 3, 'ECEF': 3, 'GEO': 8}
    bad = {k: fm.get(k) for k, v in need.items() if fm.get(k) is None or fm.get(k) < v}
    ctx.check(not bad, 'C13.P', f, 'CSV coordinates are written with >= 3 decimals (metric) and >= 8 decimals (geographic)',
              witness={'decimals per system': fm, 'insufficient': bad}, node=f.node, key='csv-precision')
    g = ctx.prog.func(TW + '.writeToGpx')
    decs = [int(m) for n in ast.walk(g.node) if isinstance(n, ast.Constant) and isinstance(n.value, str)
            for m in re.findall(r'^\{:\d*\.(\d+)f\}$', n.value)]
    ctx.check(len(decs) >= 3 and min(decs) >= 8, 'C13.P', g, 'GPX coordinates are written with >= 8 decimals', witness={'decimals': decs}, node=g.node, key='gpx-precision')


def rule_O(ctx):
    """C13.O column order"""
    f = ctx.prog.func(TW + '.writeToFile')
    w = Walker(f, loop_mode='skip')
    # slot table O on the four presence cases
    body = body_nodocstring(f)
    start = None
    for k, s in enumerate(body):
        if isinstance(s, ast.Assign) and unparse(s.targets[0]) == 'O':
            start = k
    if start is None:
        raise shape_error('writeToFile: slot table O not found', f.loc())
    end = start
    while end < len(body) and not (isinstance(body[end], ast.Expr) and 'O.sort' in unparse(body[end])):
        end += 1
    if end == len(body):
        raise shape_error('writeToFile: O.sort(...) not found', f.loc())
    for hasU in (True, False):
        for hasT in (True, False):
            env = {'fmt.id_E': Rat.atom('cE'), 'fmt.id_N': Rat.atom('cN'),
                   'fmt.id_U': Rat.atom('cU') if hasU else Rat.const(-1),
                   'fmt.id_T': Rat.atom('cT') if hasT else Rat.const(-1), 'af_names': []}
            outs = [o for o in w.run(body[start:end], State(dict(env))) if o.kind == 'fall']
            feas = []
            for o in outs:
                ok = True
                for c, _ in o.state.conds:
                    t = repr(c)
                    if hasU and t in ('cU == -1',) or (not hasU and False):
                        ok = False
                    if hasT and t in ('cT == -1',):
                        ok = False
                    if hasU and 'cU == -1' == t:
                        ok = False
                if ok:
                    feas.append(o)
            # symbolic column atoms are never -1: drop paths that assume so
            feas = [o for o in outs if not any(repr(c) in ('cU == -1', 'cT == -1') for c, _ in o.state.conds)]
            if len(feas) != 1:
                raise shape_error('slot table: %d feasible paths for U=%s T=%s' % (len(feas), hasU, hasT), f.loc())
            O = feas[0].state.env.get('O')
            want = [('cE', 0), ('cN', 1)]
            if hasU:
                want.append(('cU', 2))
            if hasT:
                want.append(('cT', 3 if hasU else 2))
            got = [(vr(p[0]), int(p[1].constval())) for p in O] if isinstance(O, list) and all(
                isinstance(p, tuple) and len(p) == 2 and isinstance(p[1], Rat) and p[1].isconst() for p in O) else None
            ctx.check(got == want, 'C13.O', f,
                      'slot table pairs each column index with the position of that datum in the data list [E, N%s%s]'
                      % (', U' if hasU else '', ', T' if hasT else ''), witness={'table': got, 'expected': want}, node=body[start], key='slots:%s%s' % (hasU, hasT))
    ctx.recognise('O.sort(key=TrackWriter.__takeFirst)' in unparse(f.node), 'C13.O', f, 'slots are sorted by column index (first component)', witness={}, node=f.node, key='sort')
    tk = _find(ctx, TW, '__takeFirst')
    ctx.recognise('return elem[0]' in unparse(tk.node), 'C13.O', tk, 'the sort key is the column index', witness={}, node=tk.node, key='key')
    # __printInOrder: the k-th printed field is the datum whose rank is paired with the k-th smallest column index
    import itertools
    p = _find(ctx, TW, '__printInOrder')
    pb = body_nodocstring(p)
    pn = p.params
    if len(pn) != 7:
        raise shape_error('__printInOrder: expected (E, N, U, T, headerAF, O, sep)', p.loc())
    for hasU in (True, False):
        for hasT in (True, False):
            data = ['E', 'N'] + (['U'] if hasU else []) + (['T'] if hasT else [])
            n = len(data)
            bad = None
            for perm in itertools.permutations(range(n)):
                env = {pn[0]: Sym('E'), pn[1]: Sym('N'), pn[2]: Sym('U') if hasU else None, pn[3]: Sym('T') if hasT else None,
                       pn[4]: Sym('AFS'), pn[5]: [(k, perm[k]) for k in range(n)], pn[6]: Sym('SEP')}
                sx = SeqX()
                paths = guard(lambda: [q for q in sx.run(pb, env) if q.kind == 'return'], p)
                if len(paths) != 1 or not isinstance(paths[0].value, Cat):
                    raise shape_error('__printInOrder: returned text not understood', p.loc())
                out = paths[0].value
                tail = out.parts[-1] if out.parts else None
                fields = [repr(x) for x in Cat(out.parts[:-1]).split(Sym('SEP'))]
                want = ['str(%s).strip()' % data[perm[k]] for k in range(n)]
                if tail != Sym('AFS') or fields != want:
                    bad = {'slot table (column index, rank of the datum)': [(k, perm[k]) for k in range(n)], 'printed': repr(out),
                           'expected fields': want}
                    break
            ctx.check(bad is None, 'C13.O', p,
                      'the k-th printed column is the datum of the k-th smallest column index (k = 0..%d), data list = [E, N%s%s]; the feature columns follow'
                      % (n - 1, ', U' if hasU else '', ', T' if hasT else ''), witness=bad, node=p.node, key='print:%s%s' % (hasU, hasT))
    # reader: fields[fmt.id_X] for the same four names
    r = _find(ctx, TR, '__readFromCsv')
    t = unparse(r.node)
    okr = 'E = float(fields[fmt.id_E])' in t and 'N = float(fields[fmt.id_N])' in t and 'U = float(fields[fmt.id_U])' in t and \
        "T = fields[fmt.id_T].strip().replace('\"', '')" in t
    ctx.recognise(okr, 'C13.O', r, 'the reader takes E, N, U, T from the fields at the same four column indices', witness={}, node=r.node, key='reader-fields')
    ctx.recognise('ENUCoords(E, N, U)' in t and 'GeoCoords(E, N, U)' in t and 'ECEFCoords(E, N, U)' in t, 'C13.O', r,
              'the three coordinates are passed to the coordinate constructors in (E, N, U) order', witness={}, node=r.node, key='ctor-order')
    # presence tests treat column 0 as present
    bad = []
    n_tests = 0
    for fn in (r, f):
        for n in ast.walk(fn.node):
            if isinstance(n, ast.Compare) and len(n.ops) == 1 and re.match(r'^fmt\.id_[UTEN]$', unparse(n.left)) and isinstance(n.comparators[0], (ast.Constant, ast.UnaryOp)):
                n_tests += 1
                try:
                    c = ast.literal_eval(n.comparators[0])
                except Exception:
                    continue
                op = type(n.ops[0])
                present0 = {ast.GtE: 0 >= c, ast.Gt: 0 > c, ast.NotEq: 0 != c, ast.Eq: not (0 == c), ast.Lt: not (0 < c), ast.LtE: not (0 <= c)}.get(op)
                absent_m1 = {ast.GtE: -1 >= c, ast.Gt: -1 > c, ast.NotEq: -1 != c, ast.Eq: not (-1 == c), ast.Lt: not (-1 < c), ast.LtE: not (-1 <= c)}.get(op)
                if present0 is not True or absent_m1 is not False:
                    bad.append({'test': unparse(n), 'in': fn.name, 'column 0 counted as present': present0, '-1 counted as present': absent_m1})
    ctx.check(not bad and n_tests >= 6, 'C13.O', r, 'every test "is this column present?" accepts index 0 and rejects -1 (any permutation of the columns is legal)',
              witness={'inconsistent tests': bad, 'tests examined': n_tests}, node=r.node, key='presence')


def _resolve_tw(ctx, nm):
    """helpers of TrackWriter that the text interpreter may walk"""
    if isinstance(nm, tuple):
        owner, name = nm
        if owner not in ('TrackWriter', 'self', 'cls'):
            return None
        nm = name
    c = ctx.prog.cls(TW)
    for k, fi in c.methods.items():
        if k == nm or k.endswith(nm) and nm.startswith('__'):
            return fi
    return None


def rule_H(ctx):
    """C13.H format attributes, header option, separator safety"""
    tf = ctx.prog.cls(TF)
    init = tf.methods['__init__']
    defined = {n.attr for n in ast.walk(init.node) if isinstance(n, ast.Attribute) and isinstance(n.ctx, ast.Store)
               and isinstance(n.value, ast.Name) and n.value.id == 'self'}
    f = ctx.prog.func(TW + '.writeToFile')
    r = _find(ctx, TR, '__readFromCsv')
    for fn in (f, r):
        read = {n.attr for n in ast.walk(fn.node) if isinstance(n, ast.Attribute) and isinstance(n.ctx, ast.Load)
                and isinstance(n.value, ast.Name) and n.value.id == 'fmt'}
        stored = {n.attr for n in ast.walk(fn.node) if isinstance(n, ast.Attribute) and isinstance(n.ctx, ast.Store)
                  and isinstance(n.value, ast.Name) and n.value.id == 'fmt'}
        undefined = sorted(read - defined - stored)
        dead = sorted(stored - defined - read)
        ctx.check(not undefined and not dead, 'C13.H', fn,
                  '%s reads only format attributes that TrackFormat defines, and sets none that nobody reads' % fn.name,
                  witness={'read but never defined': undefined, 'set but never read (option silently ignored)': dead}, node=fn.node, key='attrs:' + fn.name)
    # the header parameter reaches the header test
    t = unparse(f.node)
    hp = 'h'
    ctx.check('fmt.header = %s' % hp in t and 'if fmt.header > 0:' in t, 'C13.H', f, 'the header option of the writer is the one its header block tests',
              witness={}, node=f.node, key='header-live')
    # header lines are comment lines for the reader: each one starts with the comment mark and ends its line
    rt = unparse(r.node)
    fb = body_nodocstring(f)
    hdr = [k for k, s_ in enumerate(fb) if isinstance(s_, ast.If) and 'header' in unparse(s_.test)]
    if not hdr:
        raise shape_error('writeToFile: header block not found', f.loc())
    pn = f.params
    n_w = 0
    for srid in ('ENU', 'GEO', 'ECEF'):
        for cU in (2, -1):
            for cT in (3, -1):
                def decide(tx, srid=srid):
                    m_ = re.search(r"getSRID\(\)(\.upper\(\))? == '(\w+)'", tx)
                    if m_:
                        return m_.group(2) == srid
                    if tx.startswith('isinstance(') and 'ObsTime' in tx:
                        return True
                    return None
                env = {pn[2]: 0, pn[3]: 1, pn[4]: cU, pn[5]: cT if cU != -1 else (2 if cT != -1 else -1), pn[6]: Sym('SEP'), pn[7]: 1, pn[8]: []}
                sx = SeqX(resolve=lambda nm: _resolve_tw(ctx, nm), decide=decide)
                paths = guard(lambda: sx.run(fb[:hdr[-1] + 1], env), f)
                for q in paths:
                    if q.kind != 'fall':
                        continue
                    for ev_ in q.events:
                        if ev_[0] == 'call' and ev_[1] == 'write':
                            n_w += 1
                            v = ev_[3][0] if ev_[3] else None
                            v = v if isinstance(v, Cat) else Cat([v if isinstance(v, (str, Sym)) else Sym(repr(v))])
                            first = v.parts[0] if v.parts else None
                            okc = isinstance(first, Sym) and first.text.endswith('.cmt')
                            okn = v.endswith('\n') and sum(x.count('\n') for x in v.parts if isinstance(x, str)) == 1
                            ctx.check(okc and okn, 'C13.H', f, 'every header line starts with the comment mark the reader skips and ends with exactly one newline',
                                      witness={'srid': srid, 'U column': cU, 'T column': env[pn[5]], 'line written': repr(v),
                                               'why': 'a header line without its newline swallows the first data row; one without the comment mark is read as data'},
                                      node=ev_[5], key='header-line')
    if n_w < 36:
        raise shape_error('writeToFile: only %d header writes interpreted' % n_w, f.loc())
    ctx.recognise('line.strip()[0] == fmt.cmt' in rt, 'C13.H', r, 'the reader skips the lines that start with the comment mark', witness={}, node=r.node, key='header-comment')
    ctx.recognise('for i in range(fmt.header):' in rt, 'C13.H', r, 'the reader skips exactly `header` leading lines', witness={}, node=r.node, key='header-skip')
    ctx.recognise('line.strip().split(fmt.separator)' in rt and 'fmt.separator' in t, 'C13.H', r, 'writer and reader use the same separator attribute', witness={}, node=r.node, key='separator')
    # separator safety: default timestamp print format vs documented separators
    ot = ctx.prog.cls(OT)
    pf = None
    for k, v in ot.consts.items():
        if k.endswith('PRINT_FMT') and isinstance(v, ast.Constant):
            pf = v.value
    doc = tf.node.body[0].value.value if isinstance(tf.node.body[0], ast.Expr) and isinstance(tf.node.body[0].value, ast.Constant) else ''
    seps = set()
    m = re.search(r'sep:\s+separating characters.*?Can be (.*?)\n', doc, re.S)
    if m:
        if 'comma' in m.group(1):
            seps.add(',')
        if 'blankspace' in m.group(1):
            seps.add(' ')
        if 'semi' in m.group(1):
            seps.add(';')
    if pf is None or not seps:
        raise shape_error('default print format / documented separators not found')
    clash = sorted(seps & set(pf))
    ctx.check(not clash, 'C13.H', ctx.prog.func(TW + '.writeToFile'),
              'no documented separator occurs inside a timestamp printed with the default format',
              witness={'default print format': pf, 'documented separators': sorted(seps), 'clash': clash,
                       'why': 'the reader splits the line on the separator: the timestamp falls into two fields and is read as 01/01/1970'},
              node=None, key='sep-clash:' + ''.join(clash))


def rule_T(ctx):
    """C13.T timestamp print/read formats"""
    ot = ctx.prog.cls(OT)
    c = {}
    for k, v in ot.consts.items():
        c[k.lstrip('_')] = v
    rf, pf = c.get('READ_FMT'), c.get('PRINT_FMT')
    if not (isinstance(rf, ast.Constant) and isinstance(pf, ast.Constant)):
        raise anchor_error('ObsTime default formats not found', OT)
    f0 = ot.methods['__str__']
    ctx.check(rf.value == pf.value, 'C13.T', f0, 'default print format == default read format', witness={'print': pf.value, 'read': rf.value}, node=pf, key='defaults')
    codes = const_list(c.get('codes'))
    pre = c.get('PRECOMPILED_READ_FMT')
    try:
        pre_v = ast.literal_eval(pre)
    except Exception:
        raise shape_error('precompiled read table is not a literal')
    # recompute offsets from the format string
    fmt = rf.value
    found = sorted(((fmt.find(code), code) for code in codes if fmt.find(code) >= 0))
    shift = 0
    exp = []
    for pos, code in found:
        exp.append((code, pos + shift))
        shift += int(code[0]) - 2
    ctx.check(exp == list(pre_v), 'C13.T', f0, 'the precompiled read table equals the offsets implied by the default read format',
              witness={'table': pre_v, 'implied': exp}, node=pre, key='precompiled')
    # __str__: substitution list aligned with the codes
    s = f0
    sub = None
    for n in ast.walk(s.node):
        if isinstance(n, ast.Assign) and unparse(n.targets[0]) == 'subst' and isinstance(n.value, ast.List):
            sub = n.value
    if sub is None or codes is None:
        raise shape_error('__str__: substitution list not found', s.loc())
    field_of = {'D': 'self.day', 'M': 'self.month', 'Y': 'self.year', 'h': 'self.hour', 'm': 'self.min', 's': 'self.sec', 'z': 'self.ms'}
    bad = []
    for code, e in zip(codes, sub.elts):
        if field_of[code[1]] not in unparse(e):
            bad.append({'code': code, 'substituted by': unparse(e)})
    ctx.check(len(codes) == len(sub.elts) and not bad, 'C13.T', s, 'print: entry i of the substitution list is the field named by code i',
              witness={'misaligned': bad}, node=sub, key='subst')
    fm = _find(ctx, OT, '__fillMember')
    t = unparse(fm.node)
    handled = {l for l in 'DMhmsz' if "code[1] == '%s'" % l in t} | ({'Y'} if "code == '4Y'" in t and "code == '2Y'" in t else set())
    ctx.check(handled == set('DMYhmsz'), 'C13.T', fm, 'read: every code letter fills its field', witness={'handled': sorted(handled)}, node=fm.node, key='fill')
    pairs = {'D': 'day', 'M': 'month', 'h': 'hour', 'm': 'min', 's': 'sec'}
    bad = []
    for n in ast.walk(fm.node):
        if isinstance(n, ast.If):
            m = re.match(r"^code\[1\] == '(\w)'$", unparse(n.test))
            if m and m.group(1) in pairs:
                tgt = [unparse(x.targets[0]) for x in n.body if isinstance(x, ast.Assign)]
                if tgt != ['self.' + pairs[m.group(1)]]:
                    bad.append({'code letter': m.group(1), 'fills': tgt})
    ctx.check(not bad, 'C13.T', fm, 'read: each code letter fills the field of the same name', witness={'wrong': bad}, node=fm.node, key='fill-pairs')
    rt = ot.methods['readTimestamp']
    t = unparse(rt.node)
    ctx.recognise('timeAsString[index:index + int(PCL[i][0][0])], PCL[i][0]' in t, 'C13.T', rt,
              'read: each field is cut at its precompiled offset with the width given by its code', witness={}, node=rt.node, key='cut')


def rule_G(ctx):
    """C13.G GPX writer vs reader"""
    g = ctx.prog.func(TW + '.writeToGpx')
    r = _find(ctx, TR, '__readFromGpx')
    gt, rtxt = unparse(g.node), unparse(r.node)
    # writer: the quoted attribute values of the <trkpt ...> line, in order; reader: which split piece feeds X and Y
    def flat(n):
        if isinstance(n, ast.BinOp) and isinstance(n.op, ast.Add):
            return flat(n.left) + flat(n.right)
        return [n]
    wr = None
    for c in ast.walk(g.node):
        if isinstance(c, ast.Call) and getattr(c.func, 'attr', None) == 'write' and c.args and '<trkpt' in unparse(c.args[0]):
            wr = c
    if wr is None:
        raise shape_error('writeToGpx: the <trkpt ...> line is not written by a single write call', g.loc())
    toks = flat(wr.args[0])
    text = ''
    names_at = {}          # index of the piece in line.split('"') -> variable written there
    for tk in toks:
        if isinstance(tk, ast.Constant) and isinstance(tk.value, str):
            text += tk.value
        elif isinstance(tk, ast.Name):
            names_at[text.count('"')] = tk.id
            text += '<%s>' % tk.id
        else:
            raise shape_error('writeToGpx: <trkpt> line contains %s' % unparse(tk), g.loc(wr))
    attr_of = {}
    for idx, var in names_at.items():
        m = re.search(r'(\w+)="$', text.split('<%s>' % var)[0])
        attr_of[var] = m.group(1) if m else None
    # which getter fills each variable
    getter = {}
    for n_ in ast.walk(g.node):
        if isinstance(n_, ast.Assign) and isinstance(n_.targets[0], ast.Name) and n_.targets[0].id in names_at.values():
            m = re.search(r'position\.(get[XYZ])\(\)', unparse(n_.value))
            if m:
                getter[n_.targets[0].id] = m.group(1)
    mk = None
    for c in ast.walk(r.node):
        if isinstance(c, ast.Call) and getattr(c.func, 'id', None) == 'makeCoords' and 'splits' in unparse(c) and mk is None:
            mk = c
    if mk is None:
        raise shape_error('__readFromGpx: makeCoords(float(splits[..]), ...) not found', r.loc())
    def piece(a):
        m = re.search(r'splits\[(\d+)\]', unparse(a))
        return int(m.group(1)) if m else None
    px, py = piece(mk.args[0]), piece(mk.args[1])
    wx, wy = names_at.get(px), names_at.get(py)
    okll = getter.get(wx) == 'getX' and getter.get(wy) == 'getY' and attr_of.get(wx) == 'lon' and attr_of.get(wy) == 'lat'
    ctx.check(okll, 'C13.G', g,
              'the value the reader takes as X is the one written from getX() under lon=, the value taken as Y is the one written from getY() under lat=',
              witness={'written line': text.strip(), 'reader takes X from piece': px, 'which holds': '%s (%s, attribute %s)' % (wx, getter.get(wx), attr_of.get(wx)),
                       'reader takes Y from piece': py, 'which holds ': '%s (%s, attribute %s)' % (wy, getter.get(wy), attr_of.get(wy))}, node=wr, key='latlon')
    # every datum of a <trkpt> block is read from the point the block is written for
    pl = None
    for n_ in ast.walk(g.node):
        if isinstance(n_, ast.For) and any(x is wr for x in ast.walk(n_)):
            if pl is None or any(x is n_ for x in ast.walk(pl)):
                pl = n_
    if pl is None or not isinstance(pl.target, ast.Name):
        raise shape_error('writeToGpx: the loop over the points not found', g.loc(wr))
    pv = pl.target.id
    trackvar = None
    wpl = Walker(g, loop_mode='skip')
    rr = wpl.range_info(pl.iter, State())
    if rr is not None:
        m_ = re.match(r'^(?:len\((\w+)\)|(\w+)\.size\(\))$', vr(rr[1]))
        trackvar = (m_.group(1) or m_.group(2)) if m_ else None
    if trackvar is None:
        raise shape_error('writeToGpx: the point loop does not run over the indices of a track', g.loc(pl))
    used = []
    for n_ in ast.walk(pl):
        if isinstance(n_, ast.Subscript) and unparse(n_.value) == trackvar:
            used.append((n_, unparse(n_.slice)))
        if isinstance(n_, ast.Call) and getattr(n_.func, 'attr', None) in ('getObs', 'getObsAnalyticalFeature') and unparse(n_.func.value) == trackvar and n_.args:
            used.append((n_, unparse(n_.args[-1])))
    if len(used) < 4:
        raise shape_error('writeToGpx: reads of the current point not found', g.loc(pl))
    for n_, ix in used:
        ctx.check(ix == pv, 'C13.G', g, 'every datum written in a <trkpt> block (lat, lon, ele, time, features) is read from the point of that block',
                  witness={'read': unparse(n_), 'index of the block': pv,
                           'why': 'the point loop runs over %s; a datum indexed by another variable repeats one point\'s value in every block' % pv},
                  node=n_, key='point-index:' + unparse(n_))
    tags = all(tg in gt for tg in ('<trk>', '<trkpt ', '<ele>', '<time>', '</trkpt>', '</trk>'))
    rtags = "'<' + fmt.type + '>'" in rtxt and "'<' + fmt.type + 'pt '" in rtxt and "'<ele>'" in rtxt and "'<time>'" in rtxt and "'</' + fmt.type + 'pt>'" in rtxt
    ctx.recognise(tags and rtags, 'C13.G', g, 'tags written (<trk>, <trkpt, <ele>, <time>) are the tags searched by the reader', witness={}, node=g.node, key='tags')
    # the temporary print format is restored on every normal exit
    params = g.params
    onef = params[3] if len(params) > 3 else 'oneFile'
    n_bad = []
    n_paths = 0
    for val in (1, 0):
        w = Walker(g, loop_mode='once')
        outs = [o for o in w.run(body_nodocstring(g), State({onef: Rat.const(val), params[2]: Rat.const(0)})) if o.kind in ('fall', 'return')]
        for o in outs:
            sets = [e for e in o.state.events if e.kind == 'call' and e.name == 'setPrintFormat']
            if not sets:
                continue
            n_paths += 1
            first, last = sets[0], sets[-1]
            restored = last is not first and isinstance(last.args[0], Rat) and last.args[0].single_atom() == 'ObsTime.getPrintFormat()'
            if not restored:
                n_bad.append({'oneFile': bool(val), 'last format installed': vr(last.args[0])})
    if n_paths == 0:
        raise shape_error('writeToGpx: no exit installs a print format', g.loc())
    ctx.check(not n_bad, 'C13.G', g,
              'the timestamp print format changed for GPX output is restored on every exit (one file or many)',
              witness={'exits that leave the GPX format installed': n_bad[:4],
                       'why': 'every later CSV export then prints GPX-style timestamps that the CSV reader cannot parse (read back as 01/01/1970)'},
              node=g.node, key='restore')
    tz = ctx.prog.cls(OT).methods['timeWithZone']
    ctx.recognise("ObsTime.setPrintFormat('4Y-2M-2DT2h:2m:2s')" in gt, 'C13.G', g, 'GPX timestamps use the ISO code format 4Y-2M-2DT2h:2m:2s', witness={}, node=g.node, key='iso')


def rule_N(ctx):
    """C13.N network CSV"""
    wfun = ctx.prog.func(NW + '.writeToCsv')
    net, pth, sepn, hn = wfun.params[:4]
    orient_str = False
    wbody = body_nodocstring(wfun)
    for h in (1, 0):
        sx = SeqX()
        paths = guard(lambda: [p for p in sx.run(wbody, {hn: h, pth: ''}) if p.kind == 'return'], wfun)
        if len(paths) != 1 or not isinstance(paths[0].value, (Cat, str)):
            raise shape_error('network writer: the text returned is not understood (h=%d)' % h, wfun.loc())
        out = paths[0].value if isinstance(paths[0].value, Cat) else Cat([paths[0].value])
        rows = [x for x in out.parts if isinstance(x, Loop)]
        head = Cat([x for x in out.parts if not isinstance(x, Loop)])
        if len(rows) != 1 or '.EDGES' not in rows[0].over:
            raise shape_error('network writer: one block per edge expected, found %r' % (out,), wfun.loc())
        fields = Cat(rows[0].parts).split(Sym(sepn))
        cols = []
        for fld in fields:
            t = repr(fld)
            if t.endswith('.source.id'):
                cols.append('source')
            elif t.endswith('.target.id'):
                cols.append('target')
            elif t.endswith('.id'):
                cols.append('edge_id')
            elif 'orientation' in t:
                cols.append('direction')
                orient_str = t.startswith('str(') and t.endswith('.orientation)')
            elif 'toWKT()' in t:
                cols.append('wkt')
                ctx.check(fld.parts[0] == '"' and fld.parts[-1] == '"\n' and len(fld.parts) == 3, 'C13.N', wfun,
                          'the geometry is the last field, quoted, and ends the row', witness={'field': t}, node=wfun.node, key='wkt-quoted:%d' % h)
            else:
                cols.append(t)
        ctx.check(cols == ['edge_id', 'source', 'target', 'direction', 'wkt'], 'C13.N', wfun, 'network CSV columns: id, source, target, direction, wkt (h=%d)' % h,
                  witness={'columns written': cols, 'row': repr(Cat(rows[0].parts))}, node=wfun.node, key='cols')
        hf = [repr(x) for x in head.split(Sym(sepn))] if head.parts else []
        if h == 1:
            ctx.check(len(hf) == 5 and hf[-1].endswith("\\n'") and out.parts[-1] is rows[0], 'C13.N', wfun,
                      'with h=1 one header row of five names precedes the edges', witness={'header': hf}, node=wfun.node, key='hdr1')
        else:
            ctx.check(not hf, 'C13.N', wfun, 'with h=0 nothing precedes the edges', witness={'before the edges': hf}, node=wfun.node, key='hdr0')
    # a named format reads exactly this layout
    import os
    path = os.path.join(ctx.prog.root, 'resources', 'network_file_format')
    fmts = {}
    try:
        for line in open(path, encoding='utf-8'):
            if line.strip() and not line.startswith('#'):
                tab = [x.strip() for x in line.split(',')]
                fmts[tab[0]] = tab
    except OSError:
        raise anchor_error('resources/network_file_format not readable')
    match = [k for k, tb in fmts.items() if tb[1:5] == ['0', '1', '2', '4'] and tb[6] == '3' and tb[7] == 'c' and tb[8] == '1']
    ctx.check(bool(match), 'C13.N', wfun, 'a named network format (edge_id 0, source 1, target 2, direction 3, wkt 4, comma, 1 header row) reads this layout',
              witness={'matching formats': match}, node=wfun.node, key='format')
    nf = ctx.prog.func('tracklib.io.network_format.NetworkFormat.createFromFile')
    tt = unparse(nf.node)
    ok = all(s in tt for s in ('self.pos_edge_id = int(FIELDS[1].strip())', 'self.pos_source = int(FIELDS[2].strip())', 'self.pos_target = int(FIELDS[3].strip())',
                               'self.pos_wkt = int(FIELDS[4].strip())', 'self.pos_direction = int(FIELDS[6].strip())', 'self.header = int(FIELDS[8].strip())'))
    ctx.recognise(ok, 'C13.N', nf, 'format fields are bound to the columns documented in the resource file', witness={}, node=nf.node, key='fields')
    # header rows: exactly fmt.header are skipped; writer writes 1 when h == 1
    rf = ctx.prog.func(NR + '.NetworkReader.readFromFile')
    rt = unparse(rf.node)
    hdr_ok = None
    for n in ast.walk(rf.node):
        if isinstance(n, ast.For) and unparse(n.iter) == 'range(fmt.header)' and len(n.body) == 1 and 'next(' in unparse(n.body[0]):
            hdr_ok = True
        if isinstance(n, ast.For) and isinstance(n.iter, ast.Name) and any(isinstance(b, ast.Break) for b in ast.walk(n)) and \
                'fmt.header' in unparse(n):
            hdr_ok = False
            ctx.violation('C13.N', rf, 'the network reader skips exactly `header` rows',
                          {'loop': unparse(n)[:160], 'header': 0, 'rows consumed': 1,
                           'why': 'a for-loop over the reader consumes a row before its counter is tested: a file written without header loses its first edge'},
                          node=n, key='header')
    if hdr_ok is None:
        ctx.recognise(False, 'C13.N', rf, 'the network reader skips exactly `header` rows')
    elif hdr_ok:
        ctx.ok('C13.N', rf, 'the network reader skips exactly `header` rows (range(header) x next)', node=rf.node)
    # orientation: written with str, validated against the three constants
    rl = ctx.prog.func(NR + '.readLineAndAddToNetwork')
    ifs = [n for n in ast.walk(rl.node) if isinstance(n, ast.If) and 'orientation' in unparse(n.test) and
           any(isinstance(s, ast.Assign) and unparse(s.targets[0]) == 'orientation' for s in n.body)]
    if len(ifs) != 1:
        raise shape_error('readLineAndAddToNetwork: orientation validity test not found', rl.loc())
    ec = ctx.prog.cls(EDGE)
    consts = {}
    for k in ('DOUBLE_SENS', 'SENS_DIRECT', 'SENS_INVERSE'):
        consts['Edge.' + k] = ast.literal_eval(ec.consts[k])
    bad = []
    for name, val in consts.items():
        env = dict(consts)
        env['orientation'] = val
        try:
            invalid = bool(orders.ev(ifs[0].test, env))
        except orders.Unsupported as e:
            raise shape_error('orientation validity test not interpretable: %s' % e, rl.loc(ifs[0]))
        if invalid:
            bad.append({'orientation written': name, 'value': val, 'reader': 'rejects it and substitutes %s' % unparse(ifs[0].body[0].value)})
    for val in (2, -2, 7):
        env = dict(consts)
        env['orientation'] = val
        if not bool(orders.ev(ifs[0].test, env)):
            bad.append({'orientation': val, 'reader': 'accepts a value that is none of the three constants'})
    ctx.check(not bad, 'C13.N', rl, 'each of the three orientation constants written by the writer is accepted unchanged by the reader (and nothing else is)',
              witness={'wrong cases': bad}, node=ifs[0], key='orientation')
    ctx.recognise(orient_str and 'orientation = int(row[fmt.pos_direction])' in unparse(rl.node), 'C13.N', rl,
              'orientation is written with str() and read back with int()', witness={}, node=rl.node, key='orient-io')
    ctx.recognise('wkt' in cols and 'TAB_OBS = wktLineStringToObs(geom, fmt.srid.upper())' in unparse(rl.node) and 'doublequote=True' in rt,
              'C13.N', rl, 'geometry is written as quoted WKT and parsed back by wktLineStringToObs', witness={}, node=rl.node, key='geom')
    # end nodes: the source node sits on the first vertex of the geometry, the target node on the last
    wn = Walker(rl, loop_mode='skip')
    nodes = {}
    for o in wn.run(body_nodocstring(rl), State()):
        if o.kind != 'return':
            continue
        for e in o.state.events:
            if e.kind == 'call' and e.name == 'Node' and len(e.args) == 2:
                nodes[vr(e.args[0])] = (vr(e.args[1]), e)
    want = {'str(row[fmt.pos_source])': 'getFirstObs().position', 'str(row[fmt.pos_target])': 'getLastObs().position'}
    if set(nodes) != set(want):
        raise shape_error('readLineAndAddToNetwork: Node(source id, ...), Node(target id, ...) not found: %s' % sorted(nodes), rl.loc())
    for k, suffix in want.items():
        got, e = nodes[k]
        ctx.check(got.endswith('.' + suffix) and 'Track(' in got or got.endswith('.' + suffix), 'C13.N', rl,
                  'the %s node is placed on the %s vertex of the edge geometry' % ('source' if 'source' in k else 'target', 'first' if 'First' in suffix else 'last'),
                  witness={'node id': k, 'placed at': got, 'expected': '<geometry>.' + suffix,
                           'why': 'Network.addNode keeps the first coordinates seen for an id: a node first met as a target is stored at the wrong end of its edge'},
                  node=e.node, key='end-node:' + ('source' if 'source' in k else 'target'))
    ctx.recognise('source = str(row[fmt.pos_source])' in unparse(rl.node) and 'target = str(row[fmt.pos_target])' in unparse(rl.node) and
              'edge_id = str(row[fmt.pos_edge_id])' in unparse(rl.node), 'C13.N', rl, 'edge id, source and target are read from their columns', witness={}, node=rl.node, key='ids')


def rule_W(ctx):
    """C13.W WKT text round trip"""
    f = ctx.prog.func(TRACK + '.toWKT')
    t = unparse(f.node)
    ok = "output = 'LINESTRING('" in t and "str(self.__POINTS[i].position.E) + ' '" in t and 'str(self.__POINTS[i].position.N)' in t and \
        "output += ','" in t and "output += ')'" in t and 'if i != self.size() - 1' in t
    ctx.recognise(ok, 'C13.W', f, 'toWKT writes LINESTRING(x y,x y,...) with str(float) (shortest exact representation), x before y', witness={}, node=f.node, key='towkt')
    p = ctx.prog.func(TR + '.parseWkt')
    pt = unparse(p.node)
    ok = "wkt.split('(')[1].split(')')[0]" in pt and "wkt.split(',')" in pt and "sl = s.strip().split(' ')" in pt and 'x = float(sl[0])' in pt and 'y = float(sl[1])' in pt \
        and "makeCoords(x, y, z, 'ENU')" in pt
    ctx.recognise(ok, 'C13.W', p, 'parseWkt splits on the same ( ) , and blank and takes the first two numbers as x, y', witness={}, node=p.node, key='parsewkt')
    g = ctx.prog.func(NR + '.wktLineStringToObs')
    wg = Walker(g, loop_mode='once')
    wkt = g.params[0]
    COORDS = "%s.split('(')[1].split(')')[0].split(',')" % wkt
    ctors = []
    for o in wg.run(body_nodocstring(g), State()):
        for e in o.state.events:
            if e.kind == 'call' and e.name in ('ENUCoords', 'GeoCoords', 'ECEFCoords') and not any(e.node is x.node for x in ctors):
                ctors.append(e)
    if len(ctors) < 3:
        raise shape_error('wktLineStringToObs: coordinate constructors not found', g.loc())
    for e in ctors:
        lp = e.loops[-1] if e.loops else None
        elem = None
        if lp is not None and lp['kind'] == 'for' and isinstance(lp['node'].target, ast.Name):
            lv = lp['node'].target.id
            r = lp.get('range')
            if r is not None and vr(r[0]) == '0' and vr(r[1]) == 'len(%s)' % COORDS and vr(r[2]) == '1':
                elem = '%s[%s]' % (COORDS, lv)
            elif r is None and vr(lp['iter']) == COORDS:
                elem = lv
        ctx.check(elem is not None, 'C13.W', g, 'wktLineStringToObs visits every vertex of the text between the parentheses, cut at the commas',
                  witness={'loop': unparse(lp['node'].iter) if lp else None, 'expected list of vertices': COORDS}, node=e.node, key='wkt2obs-all:' + e.name)
        if elem is None:
            continue
        want = ["%s.strip().split(' ')[%d]" % (elem, k) for k in (0, 1)]       # float() is transparent to the walker
        got = [vr(a) for a in e.args[:2]]
        ctx.check(got == want, 'C13.W', g, 'every vertex is read x then y (first and second blank-separated number)',
                  witness={'constructor': e.name, 'arguments': got, 'expected': want}, node=e.node, key='wkt2obs-xy:' + e.name)


def _io_harness(ctx, module):
    from .. import absint, orders, npstub, iomodel
    fn = absint.funcs(ctx, module, dict(npstub.stubs()))
    fn['progressbar'] = lambda x, **k: x

    def _exit(*a):
        raise orders.Raised('SystemExit', 'exit()')
    fn['exit'] = _exit
    vfs = iomodel.VFS().install(fn)

    class _Clock(orders.PyStub):
        """datetime.now(): a fixed instant (the creation time written in file headers is not part of the property)"""
        year, month, day, hour, minute, second, microsecond = 2024, 1, 2, 3, 4, 5, 0

        def now(self, *a):
            return self
    fn['__globals__']['datetime'] = _Clock()
    cls = {}
    for q in ('tracklib.core.track.Track', 'tracklib.core.obs_time.ObsTime', 'tracklib.io.track_format.TrackFormat', 'tracklib.io.track_writer.TrackWriter',
              'tracklib.io.track_reader.TrackReader', 'tracklib.core.track_collection.TrackCollection'):
        if q not in ctx.prog.classes:
            raise anchor_error('class %s not found' % q, q)
        cls[q.rsplit('.', 1)[1]] = absint.classref(ctx, q, fn)

    # positions are the repository's own ENUCoords / GeoCoords / ECEFCoords objects (what the readers construct and the writers read)
    kinds = {'ENU': absint.classref(ctx, 'tracklib.core.obs_coords.ENUCoords', fn), 'GEO': absint.classref(ctx, 'tracklib.core.obs_coords.GeoCoords', fn),
             'ECEF': absint.classref(ctx, 'tracklib.core.obs_coords.ECEFCoords', fn)}
    import math as _math
    fn.setdefault('sqrt', _math.sqrt)

    # (makeCoords is the repository's own function, interpreted: the readers build their positions through it)

    def O(position, timestamp=None):
        return absint.real_obs(ctx, fn, position, timestamp)          # the repository's own Obs
    return fn, vfs, cls, kinds, O


def _xyz(p):
    """(x, y, z) of a position object of the repository (through its own getters)"""
    if isinstance(p, orders.Obj) and 'getX' in p.methods:
        return (p.call('getX'), p.call('getY'), p.call('getZ'))
    if isinstance(p, orders.PyStub) and hasattr(p, 'getX'):
        return (p.getX(), p.getY(), p.getZ())
    return (None, None, None)


def _pos(o):
    if isinstance(o, orders.Obj):
        return o.fields.get('position')
    return getattr(o, 'position', None)


def _kind_of(p):
    return getattr(p, 'clsname', None) if isinstance(p, orders.Obj) else None


def rule_R(ctx):
    """C13.R CSV round trip by interpretation: TrackWriter.writeToFile then TrackReader.readFromFile (with TrackFormat, ObsTime.__str__ /
    readTimestamp beneath them) on an in-memory file, for the three coordinate systems, every permutation of the column indices (with and
    without height / time), three separators and both header options"""
    import itertools
    from .. import absint
    fw = ctx.prog.func('tracklib.io.track_writer.TrackWriter.writeToFile')
    fn, vfs, cls, kinds, O = _io_harness(ctx, 'tracklib.io.track_reader')
    T, OT, TF, TW, TR = cls['Track'], cls['ObsTime'], cls['TrackFormat'], cls['TrackWriter'], cls['TrackReader']
    stamps = [(2021, 12, 31, 23, 59, 59, 750), (2022, 1, 1, 0, 0, 0, 0), (2020, 2, 29, 12, 30, 15, 500), (1999, 3, 1, 6, 7, 8, 499)]
    values = {'ENU': [(-1234.567, 0.001, 12.345), (98765.432, -0.004, -3.0), (0.0, 5.5, 100.125), (7.0, 8.0, 9.0)],
              'GEO': [(2.12345678, 48.87654321, 35.5), (-179.99999999, -89.5, -10.25), (0.00000001, 0.0, 0.0), (151.2, -33.86, 58.0)],
              'ECEF': [(4201234.567, 168765.432, 4780123.001), (-2694045.0, -4293642.0, 3857878.5), (6378137.0, 0.0, 0.0), (1.5, -2.5, 3.5)]}
    tol = {'ENU': 1.001e-3, 'GEO': 1.001e-8, 'ECEF': 1.001e-3}
    found = {}
    n_cases = 0

    def build(srid):
        return T([O(kinds[srid](*v), OT(*st)) for v, st in zip(values[srid], stamps)], 'u', 't')
    # the default formats, before anything sets a format: a timestamp printed is read back identical to the second
    fo_ = ctx.prog.func('tracklib.core.obs_time.ObsTime.readTimestamp')
    for st in stamps:
        n_cases += 1
        try:
            txt = OT(*st).call('__str__')
            back = OT.readTimestamp(txt)
            gt = tuple(back.fields.get(f_) for f_ in ('year', 'month', 'day', 'hour', 'min', 'sec')) if isinstance(back, orders.Obj) else None
        except orders.Unsupported as ex:
            raise shape_error('ObsTime print/read not interpretable: %s' % ex, fo_.loc())
        except orders.PROGRAM_ERRORS as ex:
            txt, gt = None, '%s: %s' % (type(ex).__name__, ex)
        if gt != st[:6]:
            found.setdefault('default-format', ('with the default formats a printed timestamp is read back identical to the second', {'timestamp': list(st), 'printed': txt, 'read back': list(gt) if isinstance(gt, tuple) else gt}))
    layouts = []
    for perm in itertools.permutations(range(4)):
        layouts.append(dict(zip(('id_E', 'id_N', 'id_U', 'id_T'), perm)))
    for perm in itertools.permutations(range(3)):
        layouts.append(dict(zip(('id_E', 'id_N', 'id_T'), perm), id_U=-1))
        layouts.append(dict(zip(('id_E', 'id_N', 'id_U'), perm), id_T=-1))
    layouts.append({'id_E': 0, 'id_N': 1, 'id_U': -1, 'id_T': -1})
    layouts.append({'id_E': 1, 'id_N': 0, 'id_U': -1, 'id_T': -1})
    plan = []
    for srid in ('ENU', 'GEO', 'ECEF'):
        for k, lay in enumerate(layouts):
            sep = (',', ';', '\t')[k % 3]
            h = (k // 3) % 2
            plan.append((srid, lay, sep, h))
    for srid, lay, sep, h in plan:
        n_cases += 1
        case = {'coordinates': srid, 'columns': lay, 'separator': sep, 'header': h}
        path = '/out/t%d.csv' % n_cases
        src = build(srid)
        if n_cases in (4, 19) and 'writeToGpx' in ctx.prog.cls(TW._qual).methods:
            # an export that is refused (a GPX path without the .gpx extension; one file per track into something that is no directory):
            # the CSV files written afterwards are as readable as before
            case = dict(case, history='after a GPX export that was refused (%s)' % ('path without .gpx extension' if n_cases == 4 else 'one file per track, path not a directory'))
            try:
                if n_cases == 4:
                    TW.writeToGpx(build('GEO'), '/out/refused.txt')
                else:
                    TW.writeToGpx(build('GEO'), '/out/no_such_directory/refused', False, False)
            except orders.Unsupported as ex:
                raise shape_error('writeToGpx not interpretable: %s' % ex, fw.loc())
            except orders.PROGRAM_ERRORS:
                pass
        try:
            TW.writeToFile(src, path, lay['id_E'], lay['id_N'], lay['id_U'], lay['id_T'], sep, h)
            fmt = TF({'ext': 'CSV', 'srid': srid, 'id_E': lay['id_E'], 'id_N': lay['id_N'], 'id_U': lay['id_U'], 'id_T': lay['id_T'], 'separator': sep, 'header': h})
            back = TR.readFromFile(path, fmt)
        except orders.Unsupported as ex:
            raise shape_error('CSV write/read not interpretable: %s' % ex, fw.loc())
        except orders.PROGRAM_ERRORS as ex:
            found.setdefault('fails', ('a written CSV file can be read back with the matching format', dict(case, exception='%s: %s' % (type(ex).__name__, str(ex)[:200]), file=vfs.files.get(path, '')[:300])))
            continue
        if isinstance(back, orders.Obj) and '_TrackCollection__TRACES' in back.fields:
            trs = back.fields['_TrackCollection__TRACES']
            back = trs[0] if len(trs) == 1 else back
        pts = back.fields.get('_Track__POINTS') if isinstance(back, orders.Obj) else None
        if pts is None or len(pts) != len(stamps):
            found.setdefault('count', ('the track read back has the same number of observations in the same order', dict(case, **{'written': len(stamps), 'read': None if pts is None else len(pts), 'file': vfs.files.get(path, '')[:400]})))
            continue
        for k, (o, v, st) in enumerate(zip(pts, values[srid], stamps)):
            got = _xyz(_pos(o))
            want = (v[0], v[1], v[2] if lay['id_U'] != -1 else 0.0)
            if _kind_of(_pos(o)) != {'ENU': 'ENUCoords', 'GEO': 'GeoCoords', 'ECEF': 'ECEFCoords'}[srid] or any(not isinstance(g_, (int, float)) or abs(g_ - w_) > tol[srid] for g_, w_ in zip(got, want)):
                found.setdefault('coords', ('coordinates read back equal the written ones to the written precision (1 mm metric, 1e-8 degree geographic), in the same coordinate system',
                                            dict(case, observation=k, written=list(want), read=[g_ for g_ in got], **{'line of the file': vfs.files.get(path, '').split('\n')[k + (4 if h else 0)] if h == 0 else vfs.files.get(path, '')[:300]})))
                break
            if lay['id_T'] != -1:
                ts = o.fields.get('timestamp') if isinstance(o, orders.Obj) else None
                gt = tuple(ts.fields.get(f_) for f_ in ('year', 'month', 'day', 'hour', 'min', 'sec')) if isinstance(ts, orders.Obj) else None
                if gt != st[:6]:
                    found.setdefault('time', ('timestamps read back are identical to the second', dict(case, observation=k, written=list(st[:6]), read=list(gt) if gt else repr(ts), file=vfs.files.get(path, '')[:300])))
                    break
    # the documented blank separator, with a time column
    n_cases += 1
    try:
        src = build('ENU')
        TW.writeToFile(src, '/out/blank.csv', 0, 1, 2, 3, ' ', 0)
        fmt = TF({'ext': 'CSV', 'srid': 'ENU', 'id_E': 0, 'id_N': 1, 'id_U': 2, 'id_T': 3, 'separator': ' ', 'header': 0})
        back = TR.readFromFile('/out/blank.csv', fmt)
        pts = back.fields.get('_Track__POINTS') if isinstance(back, orders.Obj) else None
        gt = [tuple(o.fields['timestamp'].fields.get(f_) for f_ in ('year', 'month', 'day', 'hour', 'min', 'sec')) for o in pts] if pts else None
        if gt != [st[:6] for st in stamps]:
            found['sep-clash: '] = ('a file written with the documented blank separator is read back with its timestamps',
                                    {'separator': ' ', 'first line written': vfs.files.get('/out/blank.csv', '').split('\n')[0], 'timestamps written': [list(st[:6]) for st in stamps][:2],
                                     'read back': [list(g_) for g_ in gt][:2] if gt else None,
                                     'why': 'the default timestamp print format contains a blank: the reader splits the timestamp into two fields'})
    except orders.Unsupported as ex:
        raise shape_error('CSV write/read not interpretable: %s' % ex, fw.loc())
    except orders.PROGRAM_ERRORS as ex:
        found['sep-clash: '] = ('a file written with the documented blank separator can be read back', {'exception': '%s: %s' % (type(ex).__name__, str(ex)[:200])})
    # two files written and read in the same process with two time formats in which the same text denotes two dates (03/02/2020:
    # 3 February under day/month/year, 2 March under month/day/year)
    if all(m_ in ctx.prog.cls(OT._qual).methods for m_ in ('setReadFormat', 'setPrintFormat', 'getReadFormat', 'getPrintFormat')):
        rf0, pf0 = OT.getReadFormat(), OT.getPrintFormat()
        try:
            for tf_, stamps_ in (('2D/2M/4Y 2h:2m:2s', [(2020, 2, 3, 10, 0, 0, 0), (2020, 11, 12, 8, 30, 0, 0)]), ('2M/2D/4Y 2h:2m:2s', [(2020, 3, 2, 10, 0, 0, 0), (2020, 12, 11, 8, 30, 0, 0)])):
                n_cases += 1
                case = {'time format (print and read)': tf_, 'history': 'the second of two files written and read in one process, each with its own time format' if tf_.startswith('2M') else 'first file'}
                OT.setPrintFormat(tf_)
                OT.setReadFormat(tf_)
                src = T([O(kinds['ENU'](10.0 * k_, 5.0, 1.0), OT(*st)) for k_, st in enumerate(stamps_)], 'u', 't')
                path = '/out/fmt%d.csv' % n_cases
                TW.writeToFile(src, path, 0, 1, 2, 3, ',', 0)
                back = TR.readFromFile(path, TF({'ext': 'CSV', 'srid': 'ENU', 'id_E': 0, 'id_N': 1, 'id_U': 2, 'id_T': 3, 'separator': ',', 'header': 0}))
                if isinstance(back, orders.Obj) and '_TrackCollection__TRACES' in back.fields and len(back.fields['_TrackCollection__TRACES']) == 1:
                    back = back.fields['_TrackCollection__TRACES'][0]
                pts = back.fields.get('_Track__POINTS') if isinstance(back, orders.Obj) else None
                gt = [tuple(o.fields['timestamp'].fields.get(f_) for f_ in ('year', 'month', 'day', 'hour', 'min', 'sec')) for o in pts] if pts else None
                if gt != [st[:6] for st in stamps_]:
                    found.setdefault('time', ('timestamps read back are identical to the second', dict(case, written=[list(st[:6]) for st in stamps_], read=[list(g_) for g_ in gt] if gt else None, file=vfs.files.get(path, '')[:200])))
        except orders.Unsupported as ex:
            raise shape_error('CSV write/read not interpretable: %s' % ex, fw.loc())
        except orders.PROGRAM_ERRORS as ex:
            found.setdefault('fails', ('a written CSV file can be read back with the matching format', {'time format': tf_, 'exception': '%s: %s' % (type(ex).__name__, str(ex)[:200])}))
        finally:
            OT.setReadFormat(rf0)
            OT.setPrintFormat(pf0)
    # metric coordinates within a metre of the no-data marker (-999999) but not equal to it are coordinates
    nd_ = TF({'ext': 'CSV', 'srid': 'ENU', 'id_E': 0, 'id_N': 1, 'id_U': 2, 'id_T': 3, 'separator': ',', 'header': 0}).fields.get('no_data_value')
    nd_ = nd_ if isinstance(nd_, (int, float)) and not isinstance(nd_, bool) else -999999
    for srid, pts_ in (('ENU', [(100.0, nd_ + 0.25, 5.0), (nd_ + 1.4, 200.0, 6.0), (nd_ - 7.5, nd_ + 3.0, 7.0)]), ('ECEF', [(nd_ + 0.4, 5000000.0, 3000000.0), (4000000.0, nd_ + 0.75, 2000000.0)])):
        n_cases += 1
        case = {'coordinates': srid, 'values next to the no-data marker %r' % nd_: [list(p_) for p_ in pts_]}
        try:
            src = T([O(kinds[srid](*v), OT(2021, 5, 6, 7, 8, 9, 0)) for v in pts_], 'u', 't')
            path = '/out/nd%d.csv' % n_cases
            TW.writeToFile(src, path, 0, 1, 2, 3, ',', 0)
            back = TR.readFromFile(path, TF({'ext': 'CSV', 'srid': srid, 'id_E': 0, 'id_N': 1, 'id_U': 2, 'id_T': 3, 'separator': ',', 'header': 0}))
            if isinstance(back, orders.Obj) and '_TrackCollection__TRACES' in back.fields and len(back.fields['_TrackCollection__TRACES']) == 1:
                back = back.fields['_TrackCollection__TRACES'][0]
            pts = back.fields.get('_Track__POINTS') if isinstance(back, orders.Obj) else None
            got = [_xyz(_pos(o)) for o in pts] if pts else None
            if got is None or len(got) != len(pts_) or any(abs(g_ - w_) > 1.001e-3 for gp, wp in zip(got, pts_) for g_, w_ in zip(gp, wp)):
                found.setdefault('coords', ('coordinates read back equal the written ones to the written precision (1 mm metric, 1e-8 degree geographic), in the same coordinate system',
                                            dict(case, read=[list(g_) for g_ in got] if got else None, file=vfs.files.get(path, '')[:300])))
        except orders.Unsupported as ex:
            raise shape_error('CSV write/read not interpretable: %s' % ex, fw.loc())
        except orders.PROGRAM_ERRORS as ex:
            found.setdefault('fails', ('a written CSV file can be read back with the matching format', dict(case, exception='%s: %s' % (type(ex).__name__, str(ex)[:200]))))
    for key, (desc, wit) in sorted(found.items()):
        ctx.violation('C13.R', fw, desc, wit, node=fw.node, key=key)
    if not [k for k in found if k != 'sep-clash: ']:
        ctx.ok('C13.R', fw, 'CSV write -> read gives back the same observations, coordinates to the written precision and timestamps to the second (%d coordinate system / column order / separator / header cases)' % n_cases, node=fw.node)
    ctx.extra['C13.R cases'] = n_cases


def rule_X(ctx):
    """C13.X GPX, network-CSV and WKT round trips by interpretation on in-memory files: writeToGpx (one file / one file per track) then
    readFromGpx; NetworkWriter.writeToCsv then NetworkReader.readFromFile; Track.toWKT then parseWkt; the global print format of
    timestamps is what it was before writing"""
    from .. import absint, netmodel
    fw = ctx.prog.func('tracklib.io.track_writer.TrackWriter.writeToGpx')
    fn, vfs, cls, kinds, O = _io_harness(ctx, 'tracklib.io.track_reader')
    T, OT, TF, TW, TR, TC = cls['Track'], cls['ObsTime'], cls['TrackFormat'], cls['TrackWriter'], cls['TrackReader'], cls['TrackCollection']
    found = {}
    n_cases = 0
    stamps = [(2021, 12, 31, 23, 59, 59, 750), (1970, 1, 1, 0, 0, 0, 0), (2020, 2, 29, 12, 30, 15, 500)]          # the second one is the epoch itself (the default timestamp)
    geo = [[(2.12345678, 48.87654321, 35.5), (-179.99999999, -89.5, -10.25), (0.00000001, 0.0, 0.0)],
           [(180.0, 90.0, 58.0), (-180.0, -90.0, 59.0), (179.99999999, 89.99999999, 60.125)],          # the ends of the longitude / latitude ranges
           [(10.0, 20.0, 1.0), (10.5, 20.5, 2.0), (11.0, 21.0, 3.0)]]

    def tracks():
        out = []
        for k, pts in enumerate(geo):
            t = T([O(kinds['GEO'](*p_), OT(*st)) for p_, st in zip(pts, stamps)], 'u', 'trk%d' % k)
            out.append(t)
        return out

    def same_track(back, pts, case, what):
        obs = back.fields.get('_Track__POINTS') if isinstance(back, orders.Obj) else None
        if obs is None or len(obs) != len(pts):
            found.setdefault('gpx-count', ('a GPX file read back gives the same number of observations in the same order', dict(case, what=what, written=len(pts), read=None if obs is None else len(obs))))
            return
        for k, (o, p_, st) in enumerate(zip(obs, pts, stamps)):
            got = _xyz(_pos(o))
            if any(not isinstance(g_, (int, float)) or abs(g_ - w_) > 1.001e-8 for g_, w_ in zip(got, p_)):
                found.setdefault('gpx-coords', ('longitude, latitude and height read back equal the written ones (1e-8 degree)', dict(case, what=what, observation=k, written=list(p_), read=list(got))))
                return
            ts = o.fields.get('timestamp') if isinstance(o, orders.Obj) else None
            gt = tuple(ts.fields.get(f_) for f_ in ('year', 'month', 'day', 'hour', 'min', 'sec')) if isinstance(ts, orders.Obj) else None
            if gt != st[:6]:
                found.setdefault('gpx-time', ('timestamps read back from GPX are identical to the second', dict(case, what=what, observation=k, written=list(st[:6]), read=list(gt) if gt else repr(ts))))
                return
    vfs.dirs.add('/out/many')
    read_fmt0 = OT.getReadFormat()
    for one_file in (True, False):
        n_cases += 1
        case = {'writer': 'writeToGpx(collection of 3 tracks, oneFile=%s)' % one_file}
        coll = TC()
        trs = tracks()
        for t in trs:
            coll.call('addTrack', t)
        try:
            fmt_before = OT.getPrintFormat()
            probe_before = OT(2021, 11, 7, 12, 31, 10, 0).call('__str__')
            TW.writeToGpx(coll, '/out/all.gpx' if one_file else '/out/many', False, one_file)
            probe_after = OT(2021, 11, 7, 12, 31, 10, 0).call('__str__')
            if probe_after != probe_before:
                found.setdefault('gpx-format', ('after writing, timestamps print in the format they printed in before (the writer restores the global print format on every exit)',
                                                dict(case, **{'a timestamp printed before': probe_before, 'after': probe_after})))
            # the caller declares the ISO read format of GPX files (as the library's documentation and tests do)
            OT.setReadFormat("4Y-2M-2DT2h:2m:2sZ")
            if one_file:
                back = TR.readFromGpx('/out/all.gpx')
                got_tracks = back.fields.get('_TrackCollection__TRACES') if isinstance(back, orders.Obj) else None
                if got_tracks is None or len(got_tracks) != 3:
                    found.setdefault('gpx-count', ('a GPX file read back gives the tracks that were written', dict(case, **{'tracks read': None if got_tracks is None else len(got_tracks)})))
                else:
                    for k, bt in enumerate(got_tracks):
                        same_track(bt, geo[k], case, 'track %d' % k)
            else:
                for k in range(3):
                    path = '/out/many/trk%d.gpx' % k
                    if path not in vfs.files:
                        found.setdefault('gpx-count', ('one GPX file per track is written', dict(case, **{'files written': sorted(f_ for f_ in vfs.files if f_.startswith('/out/many/'))})))
                        break
                    back = TR.readFromGpx(path)
                    got_tracks = back.fields.get('_TrackCollection__TRACES') if isinstance(back, orders.Obj) else None
                    if got_tracks is None or len(got_tracks) != 1:
                        found.setdefault('gpx-count', ('each per-track GPX file holds that track', dict(case, file=path, **{'tracks read': None if got_tracks is None else len(got_tracks)})))
                        break
                    same_track(got_tracks[0], geo[k], dict(case, file=path, text=vfs.files[path][:400]), 'file %d' % k)
            OT.setReadFormat(read_fmt0)
        except orders.Unsupported as ex:
            raise shape_error('GPX write/read not interpretable: %s' % ex, fw.loc())
        except orders.PROGRAM_ERRORS as ex:
            found.setdefault('gpx-fails', ('GPX files written by the writer can be read back', dict(case, exception='%s: %s' % (type(ex).__name__, str(ex)[:200]))))
    # ---- network CSV
    fnw = ctx.prog.func('tracklib.io.network_writer.NetworkWriter.writeToCsv')
    fwkt = ctx.prog.func(TRACK + '.toWKT')
    H = netmodel.Harness(ctx)
    nfn = H.fn
    from .. import iomodel
    nvfs = iomodel.VFS().install(nfn)
    for q in ('tracklib.io.network_writer.NetworkWriter', 'tracklib.io.network_reader.NetworkReader', 'tracklib.io.network_format.NetworkFormat', 'tracklib.core.obs_time.ObsTime'):
        if q not in ctx.prog.classes:
            raise anchor_error('class %s not found' % q, q)
        absint.classref(ctx, q, nfn)
    NW, NR, NF = nfn['NetworkWriter'], nfn['NetworkReader'], nfn['NetworkFormat']
    P_ = netmodel.P
    P_.__name__ = P_.__qualname__ = 'ENUCoords'
    nfn['ENUCoords'] = P_
    nfn['__globals__']['ENUCoords'] = P_
    nfn['computeAbsCurv'] = lambda t: None
    nfn['print'] = lambda *a, **k: None
    nfn['next'] = lambda it, *d: next(it, *d)
    edges = [('e0', 'A', 'B', 0, [(0.0, 0.0), (5.5, 1.25), (10.0, 0.0)]), ('e1', 'B', 'C', 1, [(10.0, 0.0), (10.0, 10.0)]),
             ('e2', 'A', 'C', -1, [(0.0, 0.0), (-3.0, 4.0), (2.0, 12.5), (10.0, 10.0)]), ('e3', 'C', 'D', 0, [(10.0, 10.0), (20.125, 10.0)]),
             # an edge travelled against its geometry whose two end nodes appear on no earlier edge
             ('e4', 'F', 'G', -1, [(30.0, -5.0), (31.5, -2.0), (40.0, 2.5)]), ('e5', 'G', 'A', 1, [(40.0, 2.5), (0.0, 0.0)]),
             # geometries with a doubled vertex (in the middle, at the start, at the end): they are read back vertex for vertex
             ('e6', 'D', 'H', 0, [(20.125, 10.0), (25.0, 12.0), (25.0, 12.0), (30.0, 15.0)]), ('e7', 'H', 'I', 1, [(30.0, 15.0), (30.0, 15.0), (35.0, 15.0), (40.0, 20.0), (40.0, 20.0)])]
    for sep, header in ((',', 1), (';', 1), (',', 0)):
        n_cases += 1
        case = {'network': 'eight edges (orientations 0, 1, -1, 0, -1, 1, 0, 1; multi-vertex geometries, doubled vertices)', 'separator': sep, 'header rows': header}
        try:
            net = H.Network()
            nodes = {}
            for eid, u, v, ori, g in edges:
                for nid, xy in ((u, g[0]), (v, g[-1])):
                    if nid not in nodes:
                        nodes[nid] = H.Node(nid, P_(*xy))
                tr = H.Track([netmodel.O(P_(*xy)) for xy in g], 'u', eid)
                e = H.Edge(eid, tr)
                e.fields['orientation'] = ori
                e.fields['weight'] = 1.0
                net.call('addEdge', e, nodes[u], nodes[v])
            NW.writeToCsv(net, '/out/net.csv', sep, header)
            fmt = NF({'name': 'OUT', 'pos_edge_id': 0, 'pos_source': 1, 'pos_target': 2, 'pos_direction': 3, 'pos_wkt': 4, 'separator': sep, 'header': header, 'srid': 'ENU'})
            back = NR.readFromFile('/out/net.csv', fmt, False)
        except orders.Unsupported as ex:
            raise shape_error('network write/read not interpretable: %s' % ex, fnw.loc())
        except orders.PROGRAM_ERRORS as ex:
            found.setdefault('net-fails', ('a network written to CSV can be read back', dict(case, exception='%s: %s' % (type(ex).__name__, str(ex)[:200]), file=nvfs.files.get('/out/net.csv', '')[:300])))
            continue
        E2 = back.fields.get('EDGES') if isinstance(back, orders.Obj) else None
        if not isinstance(E2, dict) or sorted(E2) != sorted(e_[0] for e_ in edges):
            found.setdefault('net-edges', ('the network read back has the same edges', dict(case, written=[e_[0] for e_ in edges], read=sorted(E2) if isinstance(E2, dict) else repr(E2), file=nvfs.files.get('/out/net.csv', '')[:300])))
            continue
        for eid, u, v, ori, g in edges:
            e2 = E2[eid]
            got = {'source': e2.fields['source'].fields['id'], 'target': e2.fields['target'].fields['id'], 'orientation': e2.fields['orientation'],
                   'geometry': [_xyz(_pos(o))[:2] for o in e2.fields['geom'].fields['_Track__POINTS']]}
            want = {'source': u, 'target': v, 'orientation': ori, 'geometry': [tuple(xy) for xy in g]}
            if got != want:
                found.setdefault('net-edge', ('every edge read back has the same end nodes, orientation and geometry', dict(case, edge=eid, written=want, read=got)))
                break
        nd = back.fields.get('NODES')
        want_nodes = {}
        for eid, u, v, ori, g in edges:
            want_nodes.setdefault(u, tuple(g[0]))
            want_nodes.setdefault(v, tuple(g[-1]))
        got_nodes = {k_: _xyz(n_.fields['coord'])[:2] for k_, n_ in nd.items()} if isinstance(nd, dict) else None
        if got_nodes != want_nodes:
            found.setdefault('net-nodes', ('the network read back has the same nodes, at the same places (the ends of the edge geometries)', dict(case, written=want_nodes, read=got_nodes)))
    # ---- WKT text of a track: ENU and geographic coordinates, held as Python floats, Python ints and numpy scalars
    from ..npstub import NpF64
    xy = ((0.0, 0.0), (-12.5, 3.25), (1234.567, -0.001), (1e-05, 7.0), (0.1 + 0.2, -1.0 / 3.0))
    for ckind, (vname, wrapv, pts_) in itertools.product(('ENU', 'GEO'), (('Python floats', float, xy), ('Python ints', int, ((0, 0), (3, -4), (-7, 1000000))), ('numpy float64 scalars', NpF64, xy))):
        n_cases += 1
        case = {'coordinates': ckind, 'values held as': vname}
        try:
            t = T([O(kinds[ckind](wrapv(x), wrapv(y), 0.0), OT(*stamps[0])) for x, y in pts_], 'u', 'w')
            txt = t.call('toWKT')
            back = TR.parseWkt(txt)
            obs = back.fields.get('_Track__POINTS') if isinstance(back, orders.Obj) else None
            got = [_xyz(_pos(o))[:2] for o in obs] if obs else None
            if got != [(float(x), float(y)) for x, y in pts_]:
                found.setdefault('wkt', ('a track exported as WKT text and parsed back has the same planimetric coordinates', dict(case, text=txt, read=got)))
        except orders.Unsupported as ex:
            raise shape_error('WKT export/parse not interpretable: %s' % ex, fw.loc())
        except orders.PROGRAM_ERRORS as ex:
            found.setdefault('wkt', ('a track exported as WKT text can be parsed back', dict(case, exception='%s: %s' % (type(ex).__name__, str(ex)[:200]))))
    for key, (desc, wit) in sorted(found.items()):
        f_ = fnw if key.startswith('net') else (fwkt if key.startswith('wkt') else fw)
        ctx.violation('C13.X', f_, desc, wit, node=f_.node, key=key)
    for fam, f_ in (('gpx', fw), ('net', fnw), ('wkt', fwkt)):
        if not any(k.startswith(fam) for k in found):
            ctx.ok('C13.X', f_, {'gpx': 'GPX: one file and one file per track read back identical (1e-8 degree, to the second); print format restored',
                                 'net': 'network CSV: edges, end nodes, orientations (0, 1, -1) and multi-vertex geometries read back identical (3 separator/header cases)',
                                 'wkt': 'WKT text of a track parsed back to the same planimetric coordinates'}[fam], node=f_.node)
    ctx.extra['C13.X cases'] = n_cases


RULES = [
    ('C13.R', rule_R, 'quick'),
    ('C13.X', rule_X, 'quick'),
]
# the writer/reader table comparisons (rule_P/O/H/T/G/N/W) are no longer run: C13.R and C13.X decide the same clauses on files actually
# produced and consumed by the interpreted writer and reader, whatever their internal layout (C13-R5 and C13-R6, behaviour-preserving
# rewrites, made the table rules report a violation / a shape error)
MIN_OBLIGATIONS = 4
