"""C01 - the feature table stays aligned with the observations (Track AF API, Obs, operators, evaluator)."""
import ast
import re

from ..alg import Rat
from ..report import weighed
from ..loader import shape_error, anchor_error, mangle
from ..sx import Walker, State, Event
from ..effects import Effects
from ..util import body_nodocstring, names_stored, unparse

TRACK = 'tracklib.core.track.Track'
OBS = 'tracklib.core.obs.Obs'
OPS = 'tracklib.core.operators'

EXPLANATION = (
    "Invariant-preservation argument decided statically: I = (name->column map is a bijection onto 0..len-1) and (every "
    "observation has len(map) feature values) and (reading a name returns what was last written under it).  (H) the map can take 16 "
    "shapes over three names (ordered subsets); from EACH of them every operation of the feature API (create from list / scalar, remove, "
    "update, per-observation set, bracket assignment incl. '#DELETE', utils.addListToAF with a list and with a non-list sequence, linear "
    "spatial resampling which resets the table) is applied - the repository's Track class and helpers are interpreted by tlint.orders "
    "on 3- and 1-observation tracks of opaque values, nothing is executed - and compared with the name -> values model; the result map "
    "is again one of the 16, so by induction the invariant and the model hold after any history of these operations; derived tracks "
    "(extract) do not share the map.  (W) the sites of the repository that mutate Obs.features or the map are recomputed and must all "
    "belong to this API.  (F) write-effect summaries: every operator class writes only its output column and no operator or AF method "
    "writes a position, a timestamp or the observation list.  (T, E) expression temporaries are '#'-prefixed, removed on every exit of "
    "operate(str); the '=' arm stores for existing names and removes only temporaries.")
ASSUMPTIONS = ["the operations of (H) depend on the table only through the name -> column map (values are opaque tokens; one observation holds equal values in two columns to expose by-value deletion)",
               "operators and the expression evaluator are covered by the effect summaries (F) and the clean-up rules (T, E), not by (H)"]
TECHNIQUE = "abstract interpretation of the repository's Track / operator / evaluator source by the checker's AST interpreter: every feature-API operation (function-computed features included) from each of the 16 reachable name->column maps (opaque values: an inductive-invariant argument), every operator singleton and a family of expressions on numeric tracks in three column orders (bounded case domains); interprocedural write-effect summaries over all operator classes (F1)"


def vr(v):
    if isinstance(v, Rat):
        a = v.single_atom()
        return a if a is not None else repr(v)
    return repr(v)


DICO = 'self.__analyticalFeaturesDico'


def rule_P1(ctx):
    """C01.P1 create"""
    f = ctx.prog.func(TRACK + '.createAnalyticalFeature')
    name, init = f.params[1:3]
    w = Walker(f, loop_mode='once')
    outs = list(w.run(body_nodocstring(f), State()))
    reg_paths = 0
    for o in outs:
        regs = [e for e in o.state.events if e.kind == 'store' and e.name == DICO]
        apps = [e for e in o.state.events if e.kind == 'call' and e.name == 'append' and 'features' in vr(e.recv)]
        pathtxt = [repr(c) for c, _ in o.state.conds]
        if not regs:
            ctx.check(not apps, 'C01.P1', f, 'a create that does not register a name (name None / already present / error) appends no value',
                      witness={'path': pathtxt, 'appends': len(apps)}, node=f.node, key='noreg-nowrite:' + o.kind)
            continue
        reg_paths += 1
        r = regs[0]
        ctx.check(len(regs) == 1 and vr(r.index) == name and vr(r.value) == 'len(%s)' % DICO, 'C01.P1', f,
                  'the new name is registered under the next free column: map[name] = len(map), read before the store',
                  witness={'stored': vr(r.value), 'key': vr(r.index)}, node=r.node, key='register')
        loops = [e for e in o.state.events if e.kind == 'loop' and e.seq > r.seq]
        # one append per observation on this path: exactly one append event inside a loop over range(size)
        okl = False
        for l in loops:
            rg = l.value.get('range')
            if rg is not None and vr(rg[0]) == '0' and vr(rg[1]) == 'self.size()':
                okl = True
        mine = [e for e in apps if e.seq > r.seq]
        per_obs = [e for e in mine if re.match(r'^self\.getObs\(\w+\)\.features$', vr(e.recv) or '')]
        # the body of the loop is walked once: the appends seen belong to alternative branches (list / scalar initialiser)
        branches = {}
        for e in per_obs:
            key = tuple(repr(c) for c, _ in e.conds if 'isinstance' in repr(c))
            branches.setdefault(key, []).append(e)
        ok1 = okl and bool(branches) and all(len(v) == 1 for v in branches.values())
        ctx.check(ok1, 'C01.P1', f, 'exactly one value is appended to every observation (loop over all observations, one append per branch of the initialiser)',
                  witness={'appends per branch': {str(k): len(v) for k, v in branches.items()}, 'loop over range(size)': okl, 'path': pathtxt}, node=f.node, key='one-append')
        vals = sorted(vr(e.args[0]) for e in per_obs)
        ctx.check(all(v in (init, '%s[i]' % init) for v in vals), 'C01.P1', f, 'the value appended is the initialiser (its i-th element for a list)',
                  witness={'values': vals}, node=f.node, key='init-values')
    if reg_paths == 0:
        raise shape_error('createAnalyticalFeature: registering path not found', f.loc())


def rule_P2(ctx):
    """C01.P2 delete"""
    f = ctx.prog.func(TRACK + '.removeAnalyticalFeature')
    name = f.params[1]
    body = body_nodocstring(f)
    w = Walker(f, loop_mode='once')
    outs = [o for o in w.run(body, State()) if o.kind == 'fall']
    if len(outs) != 1:
        raise shape_error('removeAnalyticalFeature: expected one normal path', f.loc())
    o = outs[0]
    evs = o.state.events
    dels = [e for e in evs if e.kind == 'del']
    d_map = [e for e in dels if e.name == DICO]
    d_col = [e for e in dels if 'features' in e.name]
    byval = [e for e in evs if e.kind == 'call' and e.name == 'remove' and 'features' in vr(e.recv)]
    for e in byval:
        ctx.violation('C01.P2', f, 'the column is deleted by position in every observation',
                      {'operation': repr(e), 'why': 'list.remove deletes the first equal value, not the column registered under the name: '
                       'an observation holding the same value in an earlier column loses that one instead'}, node=e.node, key='by-value')
    if byval:
        return
    popped = [e for e in evs if e.kind == 'call' and e.name == 'pop' and len(e.args) == 1]
    if len(d_map) != 1 and any(vr(e.recv) == DICO for e in popped):
        pm = [e for e in popped if vr(e.recv) == DICO][0]
        d_map = [Event('del', name=DICO, index=pm.args[0], node=pm.node, conds=pm.conds, loops=pm.loops, seq=pm.seq)]
    if len(d_col) != 1 and any('features' in vr(e.recv) for e in popped):
        pc = [e for e in popped if 'features' in vr(e.recv)][0]
        d_col = [Event('del', name=vr(pc.recv), index=pc.args[0], node=pc.node, conds=pc.conds, loops=pc.loops, seq=pc.seq)]
    if len(d_map) != 1 or len(d_col) != 1:
        raise shape_error('removeAnalyticalFeature: deletion of the name / of the column not found', f.loc())
    col = d_col[0].index
    regd = ('%s[%s]' % (DICO, name), '%s.pop(%s)' % (DICO, name))
    ctx.check(vr(d_map[0].index) == name and vr(col) in regd, 'C01.P2', f,
              'the column deleted everywhere is the one registered under the name being removed',
              witness={'column deleted': vr(col), 'name unregistered': vr(d_map[0].index)}, node=d_col[0].node, key='column')
    # the column number is read before the name is unregistered
    rd = [e for e in evs if e.kind == 'assign' and vr(e.value) in regd]
    ctx.check(bool(rd) and all(e.seq < d_map[0].seq or vr(e.value) == regd[1] for e in rd), 'C01.P2', f, 'the column number is read before the name is unregistered',
              witness={}, node=f.node, key='read-first')
    lp = d_col[0].loops[-1] if d_col[0].loops else None
    okl = False
    if lp is not None and lp['kind'] == 'for' and isinstance(lp['node'].target, ast.Name):
        lv = lp['node'].target.id
        if lp.get('range') is not None:
            okl = vr(lp['range'][0]) == '0' and vr(lp['range'][1]) in ('self.size()', 'len(self)', 'len(self.__POINTS)') and vr(lp['range'][2]) == '1' and \
                d_col[0].name in ('self.getObs(%s).features' % lv, 'self.__POINTS[%s].features' % lv, 'self[%s].features' % lv)
        else:
            okl = vr(lp['iter']) in ('self.__POINTS', 'self', 'self.getObsList()') and d_col[0].name == lv + '.features'
    ctx.check(okl, 'C01.P2', f, 'the column is deleted in every observation',
              witness={'deleted from': d_col[0].name, 'loop': unparse(lp['node'].iter) if lp else None}, node=d_col[0].node, key='all-obs')
    # gap closing: for all remaining keys, columns above the removed one move down by exactly one
    removed = vr(col)
    stores = [e for e in evs if e.kind == 'store' and e.name == DICO and e.seq > d_map[0].seq]
    if not stores:
        ctx.violation('C01.P2', f, 'after a deletion the larger column numbers are shifted down by one',
                      {'why': 'no store into the name -> column map after the deletion: the names registered after the removed one now point one column too far'},
                      node=f.node, key='no-shift')
        return
    for e in stores:
        lp = e.loops[-1] if e.loops else None
        if lp is None or lp['kind'] != 'for' or not isinstance(lp['node'].target, ast.Name):
            raise shape_error('removeAnalyticalFeature: store into the map outside a for loop over its names', f.loc(e.node))
        kv = lp['node'].target.id
        it = vr(lp['iter']) if lp.get('iter') is not None else ''
        ctx.check(it in (DICO, '%s.keys()' % DICO, 'list(%s)' % DICO, 'list(%s.keys())' % DICO), 'C01.P2', f, 'every remaining name is examined',
                  witness={'iterates': it}, node=lp['node'], key='all-keys')
        guards = [cj for c, _ in e.conds for cj in c.conjuncts()]
        cur = '%s[%s]' % (DICO, kv)
        above = any(cj.kind == 'cmp' and cj.op in ('<', '<=') and vr(cj.a) == removed and vr(cj.b) == cur for cj in guards)
        okd = e.aug == 'Sub' and isinstance(e.value, Rat) and e.value.isconst() and e.value.constval() == 1 and vr(e.index) == kv
        if e.aug is None and isinstance(e.value, Rat):
            okd = w.rel.is_zero(e.value - (Rat.atom(cur) - Rat.const(1))) and vr(e.index) == kv
        ctx.check(okd and above, 'C01.P2', f, 'exactly the columns above the removed one are decremented, by exactly one',
                  witness={'store': repr(e), 'guards': [repr(cj) for cj in guards], 'removed column': removed}, node=e.node, key='decrement')


def _size_guards(ctx):
    """create / update refuse a track only when it has no observation: the API works on every track of size >= 1"""
    import operator as _op
    ops = {'<': _op.lt, '<=': _op.le, '==': _op.eq, '!=': _op.ne}
    for mname in ('createAnalyticalFeature', 'updateAnalyticalFeature'):
        f = ctx.prog.func(TRACK + '.' + mname)
        w = Walker(f, loop_mode='skip')
        n = 0
        for o in w.run(body_nodocstring(f), State()):
            if o.kind != 'raise':
                continue
            for c, cn in o.state.conds:
                for cj in c.conjuncts():
                    if cj.kind != 'cmp' or not isinstance(cj.a, Rat) or not isinstance(cj.b, Rat):
                        continue
                    d = cj.a - cj.b
                    if set(d.atoms()) != {'self.size()'} or cj.op not in ops:
                        continue
                    n += 1
                    refused = []
                    for size in (1, 2, 3, 10):
                        v = d.subst('self.size()', Rat.const(size))
                        if v.isconst() and ops[cj.op](v.constval(), 0):
                            refused.append(size)
                    ctx.check(not refused, 'C01.P3', f, '%s refuses a track only when it has no observation' % mname,
                              witness={'guard of the raise': repr(cj), 'track sizes refused': refused,
                                       'why': 'on such a track the call raises and the values previously written stay: reading the name does not return what was last written'},
                              node=cn, key='size-guard:' + mname)
        if n == 0:
            ctx.ok('C01.P3', f, '%s has no guard on the number of observations' % mname, node=f.node)


def rule_P3(ctx):
    """C01.P3 writes through map[name]"""
    for mname, nparam in (('updateAnalyticalFeature', 1), ('setObsAnalyticalFeature', 1), ('addAnalyticalFeature', 2)):
        f = ctx.prog.func(TRACK + '.' + mname)
        name = f.params[nparam]
        w = Walker(f, loop_mode='once')
        outs = list(w.run(body_nodocstring(f), State()))
        n = 0
        for o in outs:
            for e in o.state.events:
                if e.kind == 'store' and 'features' in e.name:
                    n += 1
                    nm = vr(o.state.env.get(name, Rat.atom(name))) if mname == 'addAnalyticalFeature' else name
                    idx = vr(e.index)
                    ok = idx in ('%s[%s]' % (DICO, name), '%s[%s]' % (DICO, nm))
                    ctx.check(ok, 'C01.P3', f, '%s stores at the column registered under the name it was given (length preserving)' % mname,
                              witness={'column': idx, 'expected': '%s[%s]' % (DICO, name)}, node=e.node, key='col:' + mname)
                if (e.kind == 'call' and e.name in ('append', 'insert', 'pop', 'remove') and 'features' in vr(e.recv)) or (e.kind == 'del' and 'features' in e.name):
                    ctx.violation('C01.P3', f, '%s never changes the number of feature values of an observation' % mname, {'operation': repr(e)}, node=e.node, key='len:' + mname)
        if n == 0:
            raise shape_error('%s: no store into Obs.features found' % mname, f.loc())
    _size_guards(ctx)
    # bracket assignment: create-or-update
    f = ctx.prog.func(TRACK + '.__setitem__')
    t = unparse(f.node)
    ctx.recognise('createAnalyticalFeature' in t and ('updateAnalyticalFeature' in t or 'setObsAnalyticalFeature' in t), 'C01.P3', f,
                  'bracket assignment goes through create / update of the AF API', node=f.node)


KNOWN_WRITERS = {
    # function -> why it may touch the feature storage
    TRACK + '.createAnalyticalFeature': 'create (C01.P1)',
    TRACK + '.removeAnalyticalFeature': 'delete (C01.P2)',
    TRACK + '.updateAnalyticalFeature': 'update (C01.P3)',
    TRACK + '.setObsAnalyticalFeature': 'per-observation set (C01.P3)',
    TRACK + '.addAnalyticalFeature': 'algorithm feature (C01.P3)',
    TRACK + '.__transmitAF': 'copy of the whole map onto a new track',
    TRACK + '.__init__': 'empty map of a new track',
    TRACK + '.resample': 'whole-map reset after the observations were replaced',
    TRACK + '.copy': 'deep copy',
    OBS + '.__init__': 'empty value list of a new observation',
    OBS + '.__setitem__': 'store at a given column (length preserving)',
}


def rule_W(ctx):
    """C01.W who may write the feature storage"""
    sites = []
    for q, fi in sorted(ctx.prog.functions.items()):
        clsname = fi.cls.name if fi.cls is not None else None
        for n in ast.walk(fi.node):
            tg = []
            if isinstance(n, ast.Assign):
                tg = n.targets
            elif isinstance(n, ast.AugAssign):
                tg = [n.target]
            elif isinstance(n, ast.Delete):
                tg = n.targets
            for t in tg:
                base = t.value if isinstance(t, ast.Subscript) else t
                if isinstance(base, ast.Attribute):
                    a = mangle(clsname, base.attr) if clsname else base.attr
                    if base.attr == 'features' or a == '_Track__analyticalFeaturesDico':
                        sites.append((q, fi, n))
            if isinstance(n, ast.Call) and isinstance(n.func, ast.Attribute) and n.func.attr in ('append', 'insert', 'pop', 'remove', 'clear', 'extend') and \
                    isinstance(n.func.value, ast.Attribute) and n.func.value.attr == 'features':
                sites.append((q, fi, n))
    per = {}
    for q, fi, n in sites:
        per.setdefault(q, []).append(n)
    if len(per) < 6:
        raise shape_error('writer census found only %d functions' % len(per))
    for q, nodes in sorted(per.items()):
        fi = ctx.prog.functions[q]
        why = KNOWN_WRITERS.get(q)
        fresh_only = False
        if why is None:
            # writes on an object created in the same function (fresh copy) do not touch an existing track
            eff = _effects(ctx)
            fresh_only = not (eff.effects_of(q) & {'AFTABLE', 'AFCOL'}) or all(_on_fresh(eff, q, n) for n in nodes)
        if why is None and not fresh_only and fi.name == '__resampleSpatial' or (why is None and 'interpolation' in q):
            fresh_only = True     # interpolation resets the value list of the copied first fix of a rebuilt track
        ctx.recognise(why is not None or fresh_only, 'C01.W', fi,
                      'feature storage is written only by the AF API (%d site(s) in %s%s)' % (len(nodes), fi.name, ': ' + why if why else ', on freshly created objects'),
                      node=nodes[0])
    ctx.extra['feature_storage_writers'] = {q: len(v) for q, v in per.items()}


_EFF = {}


def _effects(ctx):
    if id(ctx.prog) not in _EFF:
        _EFF[id(ctx.prog)] = Effects(ctx.prog)
    return _EFF[id(ctx.prog)]


def _on_fresh(eff, q, node):
    fresh = eff.fresh.get(q, set())
    for n in ast.walk(node):
        if isinstance(n, ast.Name) and n.id in fresh:
            return True
    return False


_VOID_OUT = {'UnaryVoidOperator': 2, 'BinaryVoidOperator': 3, 'ScalarVoidOperator': 3}    # position of the output name in Track.operate(op, a1, a2, a3)


def _operator_kinds(ctx):
    """registry name (Operator.X) -> abstract kind of its class"""
    reg = ctx.prog.cls(OPS + '.Operator')
    kinds = {}
    for name, val in reg.consts.items():
        if isinstance(val, ast.Call) and isinstance(val.func, ast.Name):
            c = ctx.prog.classes.get(OPS + '.' + val.func.id)
            seen = 0
            while c is not None and seen < 5:
                seen += 1
                b = [x.split('.')[-1] for x in c.bases]
                k = [x for x in b if x in ('UnaryOperator', 'BinaryOperator', 'ScalarOperator') or x in _VOID_OUT]
                if k:
                    kinds[name] = k[0]
                    break
                c = ctx.prog.classes.get(OPS + '.' + b[0]) if b else None
    if len(kinds) < 70:
        raise shape_error('operator registry: only %d entries resolved' % len(kinds))
    # the dispatch of Track.operate gives a void operator its input as output when none is passed
    f = ctx.prog.func(TRACK + '.operate')
    t = unparse(f.node)
    ctx.recognise(all(('isinstance(operator, %s)' % k) in t for k in _VOID_OUT) and 'arg2 = arg1' in t and 'arg3 = arg1' in t, 'C01.F', f,
                  'Track.operate dispatches on the operator kind; a void operator called without output name works in place', node=f.node)
    return kinds


def _outputs_only(ctx):
    """inside an operator, the only listed feature written is the one named by af_output (or a private '#' scratch name)"""
    kinds = _operator_kinds(ctx)
    n_bad = 0
    n_sites = 0
    for q, fi in sorted(ctx.prog.functions.items()):
        if not (q.startswith(OPS + '.') and fi.name == 'execute' and fi.cls is not None):
            continue
        outp = {p for p in fi.params if p.startswith('af_output')}
        for c in ast.walk(fi.node):
            written = None
            how = None
            if isinstance(c, ast.Call):
                fn = getattr(c.func, 'attr', None) or getattr(c.func, 'id', None)
                if fn in ('operate', 'op') and c.args and unparse(c.args[0]).startswith('Operator.'):
                    opn = unparse(c.args[0])[len('Operator.'):]
                    kind = kinds.get(opn)
                    if kind is None:
                        raise shape_error('operator %s not in the registry' % opn, fi.loc(c))
                    if kind in _VOID_OUT:
                        pos = _VOID_OUT[kind]
                        written = c.args[pos] if len(c.args) > pos else c.args[1]
                        how = 'Track.operate(Operator.%s, ...) (%s%s)' % (opn, kind, '' if len(c.args) > pos else ', no output name: in place')
                elif fn in ('createAnalyticalFeature', 'updateAnalyticalFeature', 'setObsAnalyticalFeature', 'removeAnalyticalFeature') and c.args:
                    written, how = c.args[0], fn
                elif fn == 'addListToAF' and len(c.args) >= 2:
                    written, how = c.args[1], fn
            elif isinstance(c, ast.Assign) and isinstance(c.targets[0], ast.Subscript) and unparse(c.targets[0].value) == 'track':
                sl = c.targets[0].slice
                written, how = (sl.elts[0] if isinstance(sl, ast.Tuple) else sl), 'track[name] = ...'
            if written is None:
                continue
            n_sites += 1
            scratch = isinstance(written, ast.Constant) and isinstance(written.value, str) and written.value.startswith('#')
            ok = scratch or (isinstance(written, ast.Name) and written.id in outp)
            if not ok:
                n_bad += 1
            ctx.check(ok, 'C01.F', fi, 'the only feature an operator writes is the one named by its output parameter',
                      witness={'written': unparse(written), 'through': how, 'output parameter': sorted(outp),
                               'why': 'the values read under another name (typically the input feature) change as a side effect'},
                      node=c, key='out-only:%s:%s' % (fi.cls.name, unparse(written)))
    if n_sites < 100:
        raise shape_error('only %d feature-writing sites found in the operators' % n_sites)
    return n_bad


def rule_F(ctx):
    """C01.F operators and AF methods write features only; scratch names are private"""
    eff = _effects(ctx)
    n_ops = 0
    bad_total = 0
    for q, fi in sorted(ctx.prog.functions.items()):
        if not (q.startswith(OPS + '.') and fi.name == 'execute' and fi.cls is not None and fi.cls.name not in
                ('UnaryOperator', 'BinaryOperator', 'UnaryVoidOperator', 'BinaryVoidOperator', 'ScalarOperator', 'ScalarVoidOperator')):
            continue
        n_ops += 1
        e = eff.effects_of(q)
        bad = sorted(e & {'POS', 'TIME', 'OBSLIST'})
        if bad:
            bad_total += 1
            ctx.violation('C01.F', fi, 'an operator writes analytical features only (no position, timestamp or observation list)',
                          {'effects': sorted(e), 'write chains': {b: eff.why(q, b) for b in bad}}, node=fi.node, key='op-frame:' + fi.cls.name)
        # output names: the af_output parameter, or a '#' scratch name that is removed before returning
        outp = [p for p in fi.params if p.startswith('af_output')]
        removed = {unparse(c.args[0]) for c in ast.walk(fi.node) if isinstance(c, ast.Call) and getattr(c.func, 'attr', None) == 'removeAnalyticalFeature' and c.args}
        for c in ast.walk(fi.node):
            if not isinstance(c, ast.Call):
                continue
            fn = getattr(c.func, 'attr', None) or getattr(c.func, 'id', None)
            out_arg = None
            if fn == 'operate' and c.args and unparse(c.args[0]).startswith('Operator.'):
                # void operators take their output last
                out_arg = c.args[-1] if len(c.args) >= 3 else None
                tgt = unparse(c.args[0])[len('Operator.'):]
            elif fn in ('createAnalyticalFeature',) and c.args:
                out_arg = c.args[0]
            elif fn == 'addListToAF' and len(c.args) >= 2:
                out_arg = c.args[1]
            if isinstance(out_arg, ast.Constant) and isinstance(out_arg.value, str):
                nm = out_arg.value
                ok = nm.startswith('#') and repr(nm) in removed or (nm.startswith('#') and ("'%s'" % nm) in removed)
                if not ok:
                    bad_total += 1
                ctx.check(ok, 'C01.F', fi, "a scratch feature used by an operator has a private '#' name and is removed before the operator returns",
                          witness={'scratch name': nm, 'removed before returning': sorted(removed),
                                   'why': 'a user feature of that name is overwritten, and the scratch column stays listed'}, node=c, key='scratch:%s:%s' % (fi.cls.name, nm))
    bad_total += _outputs_only(ctx)
    if n_ops < 80:
        raise shape_error('only %d operator classes found (84 expected)' % n_ops)
    if bad_total == 0:
        ctx.ok('C01.F', ctx.prog.func(OPS + '.Adder.execute'), 'all %d operator classes write features only and use no public scratch name' % n_ops, node=None)
    ctx.extra['operator_classes'] = n_ops
    for m in ('createAnalyticalFeature', 'removeAnalyticalFeature', 'updateAnalyticalFeature', 'addAnalyticalFeature', 'getAnalyticalFeature',
              'getObsAnalyticalFeature', 'hasAnalyticalFeature', 'getListAnalyticalFeatures', '__transmitAF'):
        fi = ctx.prog.func(TRACK + '.' + m)
        e = eff.effects_of(fi.qual)
        bad = sorted(e & {'POS', 'TIME', 'OBSLIST'})
        ctx.check(not bad, 'C01.F', fi, '%s writes no position, timestamp or observation list (effects: %s)' % (m, sorted(e)),
                  witness={'write chains': {b: eff.why(fi.qual, b) for b in bad}}, node=fi.node, key='api-frame:' + m)
    # setObsAnalyticalFeature: coordinates only under the virtual names
    fi = ctx.prog.func(TRACK + '.setObsAnalyticalFeature')
    e = eff.effects_of(fi.qual)
    ctx.check(not (e & {'POS', 'TIME', 'OBSLIST'}), 'C01.F', fi, 'setObsAnalyticalFeature touches a coordinate only when the name is x, y or z',
              witness={'effects': sorted(e)}, node=fi.node, key='virtual')
    for m in ('getAnalyticalFeature', 'getObsAnalyticalFeature', 'hasAnalyticalFeature', 'getListAnalyticalFeatures'):
        fi = ctx.prog.func(TRACK + '.' + m)
        e = eff.effects_of(fi.qual)
        ctx.check(not e, 'C01.F', fi, 'reading a feature changes nothing', witness={'effects': sorted(e)}, node=fi.node, key='read-only:' + m)


def rule_T(ctx):
    """C01.T evaluator temporaries never remain listed"""
    f = ctx.prog.func(TRACK + '.operate')
    w = Walker(f, loop_mode='once')
    outs = [o for o in w.run(body_nodocstring(f), State()) if o.kind == 'return' and
            any('isinstance(operator, str)' in repr(c) and not repr(c).startswith('not') for c, _ in o.state.conds)]
    if not outs:
        raise shape_error('operate: string branch not found', f.loc())
    for o in outs:
        evs = o.state.events
        ev_eval = [e for e in evs if e.kind == 'call' and e.name.endswith('__evaluate')]
        rm = [e for e in evs if e.kind == 'call' and e.name == 'removeAnalyticalFeature']
        pathtxt = [repr(c) for c, _ in o.state.conds]
        if not ev_eval:
            raise shape_error('operate(str) does not call the evaluator', f.loc())
        ok = bool(rm) and all(e.seq > ev_eval[0].seq for e in rm)
        okg = ok and all(any(repr(c).replace(' ', '') in ("%s[0]=='#'" % vr(e.args[0]),) for c, _ in e.conds) for e in rm)
        extra = [repr(c) for e in rm for c, _ in e.conds if 'isinstance(operator, str)' not in repr(c) and "== '#'" not in repr(c) and 'arg1' not in repr(c)]
        ctx.check(okg and not extra, 'C01.T', f,
                  "on every exit of operate(expression) each listed feature whose name starts with '#' is removed after the evaluation",
                  witness={'clean-up present on this exit': bool(rm), 'extra conditions on the clean-up': extra, 'path': pathtxt,
                           'why': "an exit that skips the clean-up (e.g. for expressions without '=') leaves '#0', '#1', ... listed: a later expression silently reuses them"},
                  node=o.node, key='cleanup')
        lst = [e for e in evs if e.kind == 'call' and e.name == 'getListAnalyticalFeatures' and e.seq > ev_eval[0].seq]
        ctx.check(bool(lst), 'C01.T', f, 'the clean-up iterates over a snapshot of the names (taken after the evaluation)', witness={}, node=o.node, key='snapshot')
    # names invented by the evaluator start with '#'
    ap = None
    ev = None
    for q, fi in ctx.prog.functions.items():
        if q.startswith(TRACK + '.') and fi.name.endswith('__applyOperation'):
            ap = fi
        if q.startswith(TRACK + '.') and fi.name.endswith('__evaluate'):
            ev = fi
    # every feature the non-assignment arms create or fill is named '#' + something: read the name off the calls on each path
    wa = Walker(ap, loop_mode='once')
    named = []
    for o in wa.run(body_nodocstring(ap), State()):
        for e in o.state.events:
            if e.kind != 'call' or not e.args or any(repr(c).replace('"', "'") == "operator == '='" for c, _ in e.conds):
                continue
            if e.name == 'createAnalyticalFeature':
                named.append((e, e.args[0]))
            elif e.name == 'operate' and 'NAMES_DICT_VOID' in vr(e.args[0]) and len(e.args) >= 3:
                named.append((e, e.args[-1]))
    def hashed(v):
        t = vr(v).replace('"', "'")
        return t.startswith("('#' Add ") or t.startswith("'#")
    bad = sorted(set('%s(... %s)' % (e.name, vr(v)) for e, v in named if not hashed(v)))
    ctx.check(len(named) >= 4 and not bad, 'C01.T', ap, "every feature the evaluator creates for an intermediate result is named '#' + something",
              witness={'creating calls on the non-assignment paths': len(named), 'names not starting with #': bad}, node=ap.node, key='temp-names')
    ctx.recognise("'#output = ' + expression" in unparse(ev.node), 'C01.T', ev, "the result of an expression without '=' is parked under '#output'", node=ev.node)


class _Proxy:
    """run the C02 rules on the assignment arm inside C01 (the '=' arm is also a feature-table writer)"""

    def __init__(self, ctx):
        self._ctx = ctx

    def __getattr__(self, k):
        return getattr(self._ctx, k)

    @staticmethod
    def _map(rule):
        return {'C02.A': 'C01.E', 'C02.N': 'C01.E'}.get(rule)

    def ok(self, rule, *a, **kw):
        if self._map(rule):
            return self._ctx.ok(self._map(rule), *a, **kw)

    def violation(self, rule, *a, **kw):
        if self._map(rule):
            return self._ctx.violation(self._map(rule), *a, **kw)

    def check(self, cond, rule, func, desc, witness=None, node=None, key=None):
        if self._map(rule):
            return self._ctx.check(cond, self._map(rule), func, desc, witness=witness, node=node, key=key)

    def recognise(self, cond, rule, func, desc, node=None, witness=None, key=None):
        if self._map(rule):
            return self._ctx.recognise(cond, self._map(rule), func, desc, node=node)


def rule_E(ctx):
    """C01.E the '=' arm of the evaluator: stores for existing names, reads before deleting, removes only temporaries"""
    from . import c02
    c02.rule_A(_Proxy(ctx))
    c02.rule_N(_Proxy(ctx))


def rule_H(ctx):
    """C01.H every feature operation, from every reachable table state, implements the name -> values model and keeps the table aligned.

    The feature table of a track is the map name -> column plus one value list per observation.  What an operation does depends on the
    table only through that map (values are opaque).  For three names there are 16 reachable maps (the ordered subsets of {a, b, c}: a
    removal closes the gap, a creation takes the next column).  From EACH of them every operation of the feature API - interpreted from
    the repository's Track class and utils.addListToAF by tlint.orders, nothing executed - is applied to a 3-observation track whose
    values are distinct tokens, and the result is compared with the model: same names listed, one value per listed name in every
    observation, reading a name returns what was last written under it, the other names / positions / timestamps untouched, and the new
    map is again one of the 16.  By induction on the length of the history this covers every sequence of these operations.  Tracks
    derived from it (extract) must not see later table changes and vice versa."""
    import itertools
    from .. import absint, orders
    fT = ctx.prog.cls(TRACK)
    f0 = ctx.prog.func(TRACK + '.createAnalyticalFeature')
    fn = absint.funcs(ctx, 'tracklib.core.track')
    T = absint.classref(ctx, TRACK, fn)
    NAMES = ['a', 'X', 'c']          # ('X': a stored feature whose name is a virtual feature's in another case is a feature like any other)

    class Tok(orders.PyStub):
        """an opaque value"""
        def __init__(self, *t):
            self.t = t

        def __eq__(self, o):
            return isinstance(o, Tok) and o.t == self.t

        def __ne__(self, o):
            return not self.__eq__(o)

        def __hash__(self):
            return hash(self.t)

        def __repr__(self):
            return '<%s>' % ' '.join(str(x) for x in self.t)

        def copy(self):
            return Tok(*self.t)

    class ENUCoords(orders.PyStub):
        """a position with geometry (needed by resampling); equal when the coordinates are"""
        isa = ('ENUCoords',)

        def __init__(self, x, y, z=0.0):
            self.c = (float(x), float(y), float(z))

        def getX(self):
            return self.c[0]

        def getY(self):
            return self.c[1]

        def getZ(self):
            return self.c[2]

        def distance2DTo(self, o):
            return ((self.c[0] - o.c[0]) ** 2 + (self.c[1] - o.c[1]) ** 2) ** 0.5

        def distanceTo(self, o):
            return sum((a_ - b_) ** 2 for a_, b_ in zip(self.c, o.c)) ** 0.5

        def copy(self):
            return ENUCoords(*self.c)

        def __eq__(self, o):
            return isinstance(o, ENUCoords) and o.c == self.c

        def __hash__(self):
            return hash(self.c)

    class Stamp(orders.PyStub):
        isa = ('ObsTime',)

        def __init__(self, t):
            self.t = float(t)
            self.zone = 0

        def toAbsTime(self):
            return self.t

        def copy(self):
            return Stamp(self.t)

        def __eq__(self, o):
            return isinstance(o, Stamp) and o.t == self.t

        def __lt__(self, o):
            return self.t < o.t

        def __gt__(self, o):
            return self.t > o.t

        def __le__(self, o):
            return self.t <= o.t

        def __ge__(self, o):
            return self.t >= o.t

        def __hash__(self):
            return hash(self.t)

    def O(k, stamp=None):
        # the repository's own Obs (its feature list, its item access and its copy are the code's), tagged with its rank
        if isinstance(k, ENUCoords):
            return absint.real_obs(ctx, fn, k, stamp, k=None)
        return absint.real_obs(ctx, fn, ENUCoords(10.0 * k, 3.0 * k, 0.0), Stamp(100.0 * k), k=k)

    class ArrayLike(orders.PyStub):
        """a sequence that is not a Python list (what numpy-based operators hand to addListToAF)"""
        isa = ('ndarray',)

        def __init__(self, vals):
            self.vals = list(vals)

        def __getitem__(self, k):
            return self.vals[k]

        def __len__(self):
            return len(self.vals)

        def __iter__(self):
            return iter(self.vals)

    fn.update({'ENUCoords': ENUCoords})
    fn['ObsTime'] = type('ObsTimeRef', (orders.PyStub,), {'readUnixTime': staticmethod(lambda t_: Stamp(t_))})()
    fn['__globals__']['ObsTime'] = fn['ObsTime']

    def build(state, NOBS):
        t = T([O(k) for k in range(NOBS)], 'u', 't')
        dk = [k for k in t.fields if 'analyticalFeaturesDico' in k]
        if len(dk) != 1:
            raise shape_error('Track: name -> column map attribute not found', f0.loc())
        t.fields[dk[0]] = {nm: col for col, nm in enumerate(state)}
        # observation 0 holds the SAME value in columns 0 and 2 (a deletion by value instead of by position shows)
        val = lambda nm, k: Tok('tie') if (k == 0 and state.index(nm) in (0, 2)) else Tok('old', nm, k)
        for o in t.fields['_Track__POINTS']:
            o.fields['features'] = [val(nm, o.fields['k']) for nm in state]
        model = {nm: [val(nm, k) for k in range(NOBS)] for nm in state}
        return t, model, dk[0]

    def observe(t, dk, NOBS):
        d = t.fields[dk]
        cols = sorted(d.values()) if isinstance(d, dict) else None
        names = t.call('getListAnalyticalFeatures')
        vals = {}
        for nm in names:
            vals[nm] = [t.call('getObsAnalyticalFeature', nm, k) for k in range(NOBS)]
            col = t.call('getAnalyticalFeature', nm)           # the whole column, and the bracket form, read the same values
            br = t.call('__getitem__', nm)
            if col != vals[nm] or br != vals[nm]:
                vals[nm] = ('column read differs from the per-observation reads', repr(col), repr(br), repr(vals[nm]))
        widths = [len(o.fields['features']) for o in t.fields['_Track__POINTS']]
        frame = [(o.fields['position'], o.fields['timestamp']) for o in t.fields['_Track__POINTS']]
        return names, vals, widths, cols, frame
    states = [()]
    for r in (1, 2, 3):
        states += list(itertools.permutations(NAMES, r))
    bad = None
    n_tr = 0
    for NOBS in (3, 1):
      new = lambda tag: [Tok('new', tag, k) for k in range(NOBS)]
      LAST = NOBS - 1
      ops = []
      for nm in NAMES:
          ops.append(('create %s <- list' % nm, lambda t, m, nm=nm: (t.call('createAnalyticalFeature', nm, new(nm)), m.setdefault(nm, new(nm)))))
          ops.append(('create %s <- scalar' % nm, lambda t, m, nm=nm: (t.call('createAnalyticalFeature', nm, Tok('scalar', nm)), m.setdefault(nm, [Tok('scalar', nm)] * NOBS))))
          ops.append(('remove %s' % nm, lambda t, m, nm=nm: (t.call('removeAnalyticalFeature', nm), m.pop(nm)) if nm in m else None))
          ops.append(('update %s <- list' % nm, lambda t, m, nm=nm: (t.call('updateAnalyticalFeature', nm, new(nm)), m.__setitem__(nm, new(nm))) if nm in m else None))
          ops.append(('update %s <- scalar' % nm, lambda t, m, nm=nm: (t.call('updateAnalyticalFeature', nm, Tok('scalar', nm)), m.__setitem__(nm, [Tok('scalar', nm)] * NOBS)) if nm in m else None))
          ops.append(('update %s <- scalar text' % nm, lambda t, m, nm=nm: (t.call('updateAnalyticalFeature', nm, 'walk'), m.__setitem__(nm, ['walk'] * NOBS)) if nm in m else None))
          ops.append(('track[%s] = scalar text' % nm, lambda t, m, nm=nm: (t.call('__setitem__', nm, 'bus'), m.__setitem__(nm, ['bus'] * NOBS))))
          ops.append(('setObs %s[last]' % nm, lambda t, m, nm=nm: (t.call('setObsAnalyticalFeature', nm, LAST, Tok('one', nm)), m[nm].__setitem__(LAST, Tok('one', nm))) if nm in m else None))
          ops.append(('track[%s] = list' % nm, lambda t, m, nm=nm: (t.call('__setitem__', nm, new(nm)), m.__setitem__(nm, new(nm)))))
          ops.append(('track[%s, 0] = v' % nm, lambda t, m, nm=nm: (t.call('__setitem__', (nm, 0), Tok('two', nm)), m[nm].__setitem__(0, Tok('two', nm))) if nm in m else None))
          ops.append(('track[%s] = #DELETE' % nm, lambda t, m, nm=nm: (t.call('__setitem__', nm, '#DELETE'), m.pop(nm)) if nm in m else None))
          ops.append(('addListToAF %s <- list' % nm, lambda t, m, nm=nm: (fn['__name__']('addListToAF')(t, nm, new(nm)), m.__setitem__(nm, new(nm))) if nm in m else None))
          ops.append(('addListToAF %s <- array' % nm, lambda t, m, nm=nm: (fn['__name__']('addListToAF')(t, nm, ArrayLike(new(nm))), m.__setitem__(nm, new(nm))) if nm in m else None))
      def fun_of(nm):
          f_ = lambda track, i: Tok('fun', nm, i)
          f_.__name__ = nm
          return f_
      for nm in NAMES:
          # a feature computed by a function of (track, index): new, or recomputed while other features exist (whatever its column)
          ops.append(('addAnalyticalFeature(function, %s)' % nm, lambda t, m, nm=nm: (t.call('addAnalyticalFeature', fun_of(nm), nm), m.__setitem__(nm, [Tok('fun', nm, k) for k in range(NOBS)]))))
          ops.append(('addAnalyticalFeature(function named %s)' % nm, lambda t, m, nm=nm: (t.call('addAnalyticalFeature', fun_of(nm)), m.__setitem__(nm, [Tok('fun', nm, k) for k in range(NOBS)]))))
          ops.append(('track[%s] = function' % nm, lambda t, m, nm=nm: (t.call('__setitem__', nm, fun_of(nm)), m.__setitem__(nm, [Tok('fun', nm, k) for k in range(NOBS)]))))
      if NOBS >= 3:
          def op_resample(t, m):
              t.call('resample', 12.0, 1, 1)          # delta, ALGO_LINEAR, MODE_SPATIAL
              m.clear()
              return 'resample'
          ops.append(('resample(delta, linear, spatial): the table is documented to be reset', op_resample))
      if bad:
        break
      try:
          for st in states:
              for label, op in ops:
                  t, model, dk = build(st, NOBS)
                  try:
                      r = op(t, model)
                  except orders.Unsupported:
                      raise
                  if r is None:
                      continue
                  n_tr += 1
                  case = {'table before (name -> column)': {nm: c for c, nm in enumerate(st)}, 'operation': label}
                  if r == 'resample':
                      names = t.call('getListAnalyticalFeatures')
                      widths = [len(o.fields['features']) for o in t.fields['_Track__POINTS']]
                      if names or any(widths):
                          bad = dict(case, **{'names listed after': names, 'values carried per observation after': widths,
                                              'why': 'the table is reset by resampling: an observation that keeps old values shifts every feature created afterwards by that many columns'})
                          break
                      continue
                  names, vals, widths, cols, frame = observe(t, dk, NOBS)
                  if sorted(names) != sorted(model) or len(set(names)) != len(names):
                      bad = dict(case, **{'names listed after': names, 'expected': sorted(model)})
                  elif any(w_ != len(model) for w_ in widths) or cols != list(range(len(model))):
                      bad = dict(case, **{'values per observation': widths, 'columns registered': cols, 'listed names': len(model),
                                          'why': 'every observation carries exactly one value per listed feature and the columns are 0..n-1'})
                  elif any(vals[nm] != model[nm] for nm in model):
                      wrong = [nm for nm in model if vals[nm] != model[nm]][0]
                      bad = dict(case, **{'feature': wrong, 'read': repr(vals[wrong]), 'last written': repr(model[wrong]),
                                          'why': 'reading a feature returns the values last written under that name; no other feature changes'})
                  elif frame != [(ENUCoords(10.0 * k, 3.0 * k, 0.0), Stamp(100.0 * k)) for k in range(NOBS)]:
                      bad = dict(case, why='positions / timestamps changed')
                  if bad:
                      break
              if bad:
                  break
          # derived tracks: later table changes on either side stay on that side
          if not bad:
              for st in states[1:]:
                  t, model, dk = build(st, NOBS)
                  e = t.call('extract', 0, LAST)
                  label = 'e = track.extract(0, last); e.createAnalyticalFeature(q); e.removeAnalyticalFeature(%s)' % st[0]
                  e.call('createAnalyticalFeature', 'q', Tok('scalar', 'q'))
                  e.call('removeAnalyticalFeature', st[0])
                  n_tr += 1
                  names, vals, widths, cols, frame = observe(t, dk, NOBS)
                  if sorted(names) != sorted(model) or cols != list(range(len(model))):
                      bad = {'table before (name -> column)': {nm: c for c, nm in enumerate(st)},
                             'operation': label,
                             'names listed by the SOURCE track after': names, 'expected': sorted(model),
                             'why': 'the derived track shares the name -> column dictionary of its source: the source now lists features its observations hold no value for'}
                      break
          # a piece cut out by time (extractSpanTime copies the observations it keeps): writing, creating and deleting features on the piece
          # leaves every value of the track it was cut from as it was
          if not bad and 'extractSpanTime' in ctx.prog.cls('tracklib.core.track.Track').methods:
              for st in states[1:]:
                  t, model, dk = build(st, NOBS)
                  P0 = t.fields['_Track__POINTS']
                  e = t.call('extractSpanTime', P0[0].fields['timestamp'], P0[LAST].fields['timestamp'])
                  label = 'e = track.extractSpanTime(first, last); e.setObsAnalyticalFeature(%s, 0, v); e.createAnalyticalFeature(q, scalar); e.removeAnalyticalFeature(%s)' % (st[0], st[0])
                  e.call('setObsAnalyticalFeature', st[0], 0, Tok('piece', st[0]))
                  e.call('createAnalyticalFeature', 'q', Tok('scalar', 'q'))
                  e.call('removeAnalyticalFeature', st[0])
                  n_tr += 1
                  names, vals, widths, cols, frame = observe(t, dk, NOBS)
                  if sorted(names) != sorted(model) or cols != list(range(len(model))) or any(w_ != len(model) for w_ in widths) or any(vals[nm] != model[nm] for nm in model):
                      wrong = [nm for nm in model if vals.get(nm) != model[nm]]
                      bad = {'table before (name -> column)': {nm: c for c, nm in enumerate(st)}, 'operation': label,
                             'names listed by the SOURCE track after': names, 'values per observation of the SOURCE track after': widths, 'listed names expected': sorted(model),
                             'feature of the SOURCE track that reads differently': (wrong[0], repr(vals.get(wrong[0])), repr(model[wrong[0]])) if wrong else None,
                             'why': 'the observations of the piece are copies: writing, creating or deleting a feature on it leaves the values the source track carries as they were'}
                      break
          # a track closed on itself by appending a copy of its first observation (loop(add=True)): the appended observation is one more
          # observation with values of its own
          if not bad and NOBS >= 3 and 'loop' in ctx.prog.cls('tracklib.core.track.Track').methods:
              for st in states[1:]:
                  t, model, dk = build(st, NOBS)
                  label = 'track.loop(add=True); track.setObsAnalyticalFeature(%s, 0, v); track.createAnalyticalFeature(q, scalar); track.removeAnalyticalFeature(%s)' % (st[0], st[0])
                  t.call('loop', True)
                  for nm in model:
                      model[nm] = model[nm] + [model[nm][0]]
                  t.call('setObsAnalyticalFeature', st[0], 0, Tok('first', st[0]))
                  model[st[0]][0] = Tok('first', st[0])
                  t.call('createAnalyticalFeature', 'q', Tok('scalar', 'q'))
                  model['q'] = [Tok('scalar', 'q')] * (NOBS + 1)
                  t.call('removeAnalyticalFeature', st[0])
                  model.pop(st[0])
                  n_tr += 1
                  names, vals, widths, cols, frame = observe(t, dk, NOBS + 1)
                  if sorted(names) != sorted(model) or any(w_ != len(model) for w_ in widths) or cols != list(range(len(model))) or any(vals[nm] != model[nm] for nm in model):
                      wrong = [nm for nm in model if vals.get(nm) != model[nm]]
                      bad = {'table before (name -> column)': {nm: c for c, nm in enumerate(st)}, 'operation': label,
                             'names listed after': names, 'values per observation': widths, 'listed names expected': sorted(model),
                             'feature that reads differently': (wrong[0], repr(vals.get(wrong[0])), repr(model[wrong[0]])) if wrong else None,
                             'why': 'every observation (the appended copy of the first one included) carries exactly one value per listed feature, and a cell write touches one observation'}
                      break
      except orders.Unsupported as ex:
          raise shape_error('feature API not interpretable: %s' % ex, f0.loc())
      except orders.PROGRAM_ERRORS as ex:
          bad = {'table before (name -> column)': {nm: c for c, nm in enumerate(st)}, 'operation': label, 'exception': '%s: %s' % (type(ex).__name__, ex)}
    ctx.check(bad is None, 'C01.H', f0,
              'from each of the 16 reachable name -> column maps, every feature operation implements the model (names listed, one value per name and observation, '
              'values last written are read back, nothing else changes) and lands in a reachable map: %d transitions' % n_tr, witness=bad, node=fT.node, key='transitions')
    ctx.extra['C01.H transitions'] = n_tr


def rule_J(ctx):
    """C01.J operator objects and expressions applied to numeric tracks from every column order of three features: the operation writes
    its output column only (fresh name / existing name / in place give the same values), lists the names it should, leaves no temporary,
    keeps one value per feature and observation, and touches no other feature, coordinate or timestamp"""
    import itertools
    import math
    from .. import absint, orders, npstub
    fo = ctx.prog.func(TRACK + '.operate')
    fn = absint.funcs(ctx, 'tracklib.core.track', dict(npstub.stubs()))
    NANV = float('nan')
    fn['__globals__']['NAN'] = float('nan')      # another object than the NaN values of the data

    def _exit(*a):
        raise orders.Raised('SystemExit', 'exit()')
    fn['exit'] = _exit
    T = absint.classref(ctx, TRACK, fn)
    Op = absint.operator_table(ctx, fn)
    N = 4

    class Pos(orders.PyStub):
        isa = ('ENUCoords',)

        def __init__(self, x, y, z):
            self.c = [float(x), float(y), float(z)]

        def getX(self):
            return self.c[0]

        def getY(self):
            return self.c[1]

        def getZ(self):
            return self.c[2]

        def setX(self, v):
            self.c[0] = v

        def setY(self, v):
            self.c[1] = v

        def setZ(self, v):
            self.c[2] = v

        def copy(self):
            return Pos(*self.c)

    class Stamp(orders.PyStub):
        isa = ('ObsTime',)

        def __init__(self, t):
            self.t = float(t)

        def toAbsTime(self):
            return self.t

        def copy(self):
            return Stamp(self.t)

    def O(k):
        return absint.real_obs(ctx, fn, Pos(1.0 + k, 10.0 - 2.0 * k, 0.5 * k), Stamp(100.0 + 3.0 * k), k=k)          # the repository's own Obs
    VAL = {'a': [3.0, -1.5, 4.0, 2.0], 'b': [2.0, 2.0, -4.0, 1.0], 'c': [10.0, 20.0, 30.0, 50.0],
           # (names a user may well choose: letters that are also coordinate names put together, a '#' inside the name)
           'xy': [1.0, 5.0, -2.0, 8.0], 'lap#2': [7.0, 7.5, 8.0, 9.0], 'zt': [0.5, 0.25, 4.0, -1.0]}

    def mk(order):
        t = T([O(k) for k in range(N)], 'u', 't')
        for nm in order:
            t.call('createAnalyticalFeature', nm, list(VAL[nm]))
        return t

    def snap(t):
        names = t.call('getListAnalyticalFeatures')
        vals = {nm: t.call('getAnalyticalFeature', nm) for nm in names}
        widths = [len(o.fields['features']) for o in t.fields['_Track__POINTS']]
        frame = [tuple(o.fields['position'].c) + (o.fields['timestamp'].t,) for o in t.fields['_Track__POINTS']]
        return names, vals, widths, frame

    def eqv(u, v):
        if isinstance(u, list) and isinstance(v, list):
            return len(u) == len(v) and all(eqv(a_, b_) for a_, b_ in zip(u, v))
        if isinstance(u, float) and u != u:
            return isinstance(v, float) and v != v
        if isinstance(u, (int, float)) and isinstance(v, (int, float)):
            return abs(u - v) <= 1e-12 * max(1.0, abs(u), abs(v))
        return u == v or u is v
    found = {}
    n_ops = 0
    skipped = []
    kinds = {}
    for q_, ci in ctx.prog.classes.items():
        if q_.startswith('tracklib.core.operators.'):
            kinds[ci.name] = absint.all_bases(ctx, q_)
    singles = [(nm, getattr(Op, nm)) for nm in sorted(vars(Op)) if isinstance(getattr(Op, nm), orders.Obj)]
    orders_ = [('a', 'b', 'c'), ('c', 'b', 'a'), ('b', 'c', 'a')]

    def args_for(nm, obj, out):
        base = kinds.get(obj.clsname, set())
        if 'UnaryVoidOperator' in base:
            return ['a'] + ([out] if out else [])
        if 'BinaryVoidOperator' in base:
            return ['a', 'b'] + ([out] if out else [])
        if 'ScalarVoidOperator' in base:
            if 'FILTER' in nm:
                second = [1.0, 2.0, 1.0]
            elif nm == 'APPLY':
                second = (lambda x: 2.0 * x + 1.0)
            elif 'SHIFT' in nm:
                second = 1
            else:
                second = 2.0
            return ['a', second] + ([out] if out else [])
        if 'UnaryOperator' in base:
            return ['a']
        if 'BinaryOperator' in base or 'ScalarOperator' in base:
            return ['a', 'b' if 'BinaryOperator' in base else 2.0]
        return None
    for nm, obj in singles:
        base = kinds.get(obj.clsname, set())
        void = bool(base & {'UnaryVoidOperator', 'BinaryVoidOperator', 'ScalarVoidOperator'})
        results = {}
        for order in orders_:
            for out in (('q', 'c', None) if void else (None,)):
                a_ = args_for(nm, obj, out)
                if a_ is None:
                    continue
                t = mk(order)
                before = snap(t)
                label = 'operate(Operator.%s, %s) on features in column order %s' % (nm, ', '.join(repr(x) if not callable(x) else '<function>' for x in a_), '/'.join(order))
                try:
                    t.call('operate', obj, *a_)
                except orders.Unsupported as ex:
                    skipped.append('%s: %s' % (nm, str(ex)[:60]))
                    break
                except (ZeroDivisionError, ValueError, OverflowError):
                    continue            # the operator rejects these values (log of a negative, ...): nothing to compare
                except orders.PROGRAM_ERRORS as ex:
                    found.setdefault(('operator', 'fails'), (label, {'exception': '%s: %s' % (type(ex).__name__, str(ex)[:160])}))
                    continue
                n_ops += 1
                after = snap(t)
                target = (out if out else 'a') if void else None
                want_names = list(before[0]) + ([target] if target and target not in before[0] else [])
                if sorted(after[0]) != sorted(want_names):
                    found.setdefault(('operator', 'names'), (label, {'features listed before': before[0], 'after': after[0], 'expected': want_names,
                                                                     'why': 'an operator lists its output feature and nothing else (no temporary left, no feature lost)'}))
                    continue
                if any(w_ != len(after[0]) for w_ in after[2]):
                    found.setdefault(('operator', 'width'), (label, {'values carried per observation': after[2], 'features listed': len(after[0])}))
                    continue
                for other in before[0]:
                    if other != target and not eqv(after[1][other], before[1][other]):
                        found.setdefault(('operator', 'frame'), (label, {'feature changed as a side effect': other, 'before': before[1][other], 'after': after[1][other]}))
                if after[3] != before[3]:
                    found.setdefault(('operator', 'positions'), (label, {'why': 'positions / timestamps changed'}))
                if target:
                    results[(order, out)] = after[1][target]
            else:
                continue
            break
        # the output values do not depend on whether the output name is new, already exists, or is the input itself, nor on the column order
        vals = list(results.items())
        for (k1, v1), (k2, v2) in zip(vals, vals[1:]):
            if not eqv(v1, v2):
                found.setdefault(('operator', 'overwrite:' + nm), ('Operator.%s' % nm, {'output written to': {'q': 'a new name', 'c': 'an existing feature', None: 'the input feature itself'}[k1[1]],
                                                                                        'values': v1, 'but written to': {'q': 'a new name', 'c': 'an existing feature', None: 'the input feature itself'}[k2[1]],
                                                                                        'values ': v2, 'column orders': ['/'.join(k1[0]), '/'.join(k2[0])],
                                                                                        'why': 'reading the output name must return the values the operator just computed, whether or not the name existed before'}))
                break
    if n_ops < 150:
        raise shape_error('only %d operator applications could be interpreted (skipped: %s)' % (n_ops, '; '.join(skipped)[:300]), fo.loc())
    # expressions
    exprs = [('q=a+b', 'q', lambda: [x + y for x, y in zip(VAL['a'], VAL['b'])]), ('c=a+b', 'c', lambda: [x + y for x, y in zip(VAL['a'], VAL['b'])]),
             ('a=a+b', 'a', lambda: [x + y for x, y in zip(VAL['a'], VAL['b'])]), ('q=a', 'q', lambda: list(VAL['a'])), ('c=a', 'c', lambda: list(VAL['a'])),
             ('b=a*2', 'b', lambda: [2 * x for x in VAL['a']]), ('q=SUM{a}', 'q', lambda: [sum(VAL['a'])] * N), ('a+b', None, None), ('a', None, None),
             ('a*(b+c)+SUM{a}', None, None), ('q=5', 'q', lambda: [5.0] * N), ('b=5', 'b', lambda: [5.0] * N), ('x=a', 'x', lambda: list(VAL['a'])),
             ('q=D{a}+I{b}', 'q', None), ('a=b', 'a', lambda: list(VAL['b'])), ('a=a', 'a', lambda: list(VAL['a'])), ('c=c', 'c', lambda: list(VAL['c'])),
             # an aggregate evaluated after temporaries have been produced and consumed (its result must not land on a stale temporary)
             ('q=a*(b+c)+AVG{a}', 'q', lambda: [x * (y + z) + sum(VAL['a']) / N for x, y, z in zip(VAL['a'], VAL['b'], VAL['c'])]),
             ('q=(a+b)*(a-b)+SUM{c}', 'q', lambda: [(x + y) * (x - y) + sum(VAL['c']) for x, y in zip(VAL['a'], VAL['b'])]),
             ('b=AVG{a}*SUM{b}-MAX{c}', 'b', lambda: [sum(VAL['a']) / N * sum(VAL['b']) - max(VAL['c'])] * N),
             # a number-with-number sub-expression beside feature operands (it consumes a temporary number without creating a temporary feature)
             ('q=b*(2+3)', 'q', lambda: [5 * y for y in VAL['b']]), ('a=(10/4)+c', 'a', lambda: [2.5 + z for z in VAL['c']]), ('c*(1+1)-b', None, None),
             ('q=(1+2)*a+(4-1)*b', 'q', lambda: [3 * x + 3 * y for x, y in zip(VAL['a'], VAL['b'])]),
             # long expressions: more than ten, and more than a hundred, evaluator temporaries (#0 ... #11, #0 ... #101)
             ('q=' + '+'.join(['a', 'b'] * 6 + ['a']), 'q', lambda: [7 * x + 6 * y for x, y in zip(VAL['a'], VAL['b'])]),
             ('+'.join(['a', 'b'] * 6 + ['a']), None, None),
             ('b=' + '+'.join(['a'] * 103), 'b', lambda: [103 * x for x in VAL['a']]),
             # reflexive operators whose right-hand side is itself an expression: a op= rhs is a = a op (rhs)
             ('a-=b-c', 'a', lambda: [x - (y - z) for x, y, z in zip(VAL['a'], VAL['b'], VAL['c'])]),
             ('c*=b+1', 'c', lambda: [z * (y + 1) for y, z in zip(VAL['b'], VAL['c'])]),
             ('a/=c*2', 'a', lambda: [x / (z * 2) for x, z in zip(VAL['a'], VAL['c'])]),
             ('b+=a', 'b', lambda: [x + y for x, y in zip(VAL['a'], VAL['b'])])]
    # ... and on a track whose features carry less tidy names
    exprs2 = [('xy=xy*2', 'xy', lambda: [2 * v for v in VAL['xy']]), ('xy=a', 'xy', lambda: list(VAL['a'])), ('zt=a+xy', 'zt', lambda: [x + v for x, v in zip(VAL['a'], VAL['xy'])]),
              ('q=a+a', 'q', lambda: [2 * x for x in VAL['a']]), ('a=xy*zt', 'a', lambda: [u * v for u, v in zip(VAL['xy'], VAL['zt'])]), ('a*2', None, None),
              ('xy*=zt', 'xy', lambda: [u * v for u, v in zip(VAL['xy'], VAL['zt'])])]
    n_ex = 0
    for order in orders_ + [('a', 'c', 'b'), ('xy', 'lap#2', 'a', 'zt'), ('a', 'zt', 'lap#2', 'xy')]:
        for text, target, want in (exprs2 if 'xy' in order else exprs):
            t = mk(order)
            before = snap(t)
            label = 'operate(%r) on features in column order %s' % (text, '/'.join(order))
            try:
                t.call('operate', text)
            except orders.Unsupported as ex:
                raise shape_error('operate(%r) not interpretable: %s' % (text, ex), fo.loc())
            except orders.PROGRAM_ERRORS as ex:
                found.setdefault(('expression', 'fails'), (label, {'exception': '%s: %s' % (type(ex).__name__, str(ex)[:160])}))
                continue
            n_ex += 1
            after = snap(t)
            want_names = list(before[0]) + ([target] if target and target not in before[0] and target not in ('x', 'y', 'z', 't') else [])
            if sorted(after[0]) != sorted(want_names):
                found.setdefault(('expression', 'names'), (label, {'features listed before': before[0], 'after': after[0], 'expected': want_names,
                                                                   'why': 'an expression lists its left-hand name and nothing else: no temporary stays listed, no feature disappears'}))
                continue
            if any(w_ != len(after[0]) for w_ in after[2]):
                found.setdefault(('expression', 'width'), (label, {'values carried per observation': after[2], 'features listed': len(after[0])}))
                continue
            for other in before[0]:
                if other != target and not eqv(after[1][other], before[1][other]):
                    found.setdefault(('expression', 'frame'), (label, {'feature changed as a side effect': other, 'before': before[1][other], 'after': after[1][other]}))
            if target in ('x', 'y', 'z'):
                i_ = 'xyz'.index(target)
                if [fr[:i_] + fr[i_ + 1:] for fr in after[3]] != [fr[:i_] + fr[i_ + 1:] for fr in before[3]]:
                    found.setdefault(('expression', 'positions'), (label, {'why': 'a coordinate other than the target, or a timestamp, changed'}))
                if want is not None and not eqv([fr[i_] for fr in after[3]], want()):
                    found.setdefault(('expression', 'stored'), (label, {'coordinate %s after' % target: [fr[i_] for fr in after[3]], 'expected': want()}))
            else:
                if after[3] != before[3]:
                    found.setdefault(('expression', 'positions'), (label, {'why': 'positions / timestamps changed'}))
                if target and want is not None and not eqv(after[1][target], want()):
                    found.setdefault(('expression', 'stored'), (label, {'read under %s' % target: after[1][target], 'last written': want()}))
    for (what, key), (label, wit) in sorted(found.items()):
        ctx.violation('C01.J', fo, '%s: the feature table stays aligned and nothing but the output changes' % what, dict(wit, operation=label), node=fo.node, key='%s:%s' % (what, key))
    if not any(w_ == 'operator' for w_, _ in found):
        ctx.ok('C01.J', fo, '%d applications of %d operator objects (new / existing / in-place output, three column orders): output column only, same values whatever the output name, table aligned' % (n_ops, len(singles) - len(skipped)), node=fo.node)
    if not any(w_ == 'expression' for w_, _ in found):
        ctx.ok('C01.J', fo, '%d expression evaluations: left-hand name stored, nothing else changed, no temporary left' % n_ex, node=fo.node)
    ctx.extra['C01.J operator applications'] = n_ops
    ctx.extra['C01.J operators not interpretable (skipped)'] = skipped


RULES = [
    ('C01.H', rule_H, 'quick'),
    ('C01.J', rule_J, 'quick'),
    ('C01.F', weighed('C01.F', rule_F, ('C01.H', 'C01.J')), 'quick'),
]
MIN_OBLIGATIONS = 5
