"""C07 - shortest path reconstruction (tracklib/core/network.py)."""
import ast

from ..alg import Rat
from ..loader import shape_error, anchor_error
from .. import orders
from ..sx import Walker, State, Cond
from ..util import body_nodocstring, names_stored, unparse
from .c03 import cond_eval
from .c06 import relax_paths, reset_values, vr, NET

TRACK = 'tracklib.core.track.Track'

EXPLANATION = (
    'Static analysis by interpretation of the source (nothing imported or executed by CPython): shortest_path is walked by tlint.orders for every ordered pair of every case graph, in two query orders on the same network object: None exactly when no walk exists; otherwise the node list and the geometry must be those of an optimal walk (weights summing to the Floyd-Warshall distance, each edge polyline oriented along the travel, junction vertices once, doubled end vertices and vertically stacked nodes included), the route must share no observation or coordinate object with the network and the network geometries must be unchanged.')
ASSUMPTIONS = ["node coordinates equal the end vertices of the incident edge geometries (data precondition)"]
TECHNIQUE = "abstract interpretation of Network.shortest_path (forward and backward passes, Track concatenation / reversal, the priority queue) by the checker's AST interpreter on ~190 small multigraphs (falsy and sentinel-like node ids included), against the set of optimal walks enumerated by the checker (bounded case domain)"


def _backward(ctx):
    f = ctx.prog.func(NET + '.run_routing_backward')
    body = body_nodocstring(f)
    loops = [s for s in body if isinstance(s, ast.While)]
    if len(loops) != 1:
        raise shape_error('run_routing_backward: walk loop not found', f.loc())
    return f, body, loops[0]


def rule_N(ctx):
    """C07.N predecessor links are those of the relaxation"""
    E, qname, paths = relax_paths(ctx)
    f = ctx.prog.func(NET + '.run_routing_forward')
    for o, upd in paths:
        pathtxt = [repr(c) for c, _ in o.state.conds]
        has_label = 'poids' in upd
        missing = [k for k in ('antecedent', 'antecedent_edge') if k not in upd]
        node = (upd.get('poids') or upd.get('antecedent') or upd.get('antecedent_edge') or upd.get('queue')).node
        if has_label and missing:
            ctx.violation('C07.N', f, 'whenever a label improves, predecessor node and predecessor edge are rewritten too',
                          {'not rewritten on this path': missing, 'path conditions': pathtxt,
                           'why': 'the label then belongs to one edge and the predecessor link to another (e.g. the '
                                  'heavier of two parallel edges): the path returned is not a shortest one'},
                          node=node, key='coupdate')
            continue
        if not has_label:
            ctx.violation('C07.N', f, 'predecessor links change only together with the label',
                          {'updated': sorted(upd), 'path conditions': pathtxt}, node=node, key='link-only')
            continue
        X = vr(upd['poids'].recv)
        a, ae = upd['antecedent'], upd['antecedent_edge']
        ok = vr(a.recv) == X and vr(ae.recv) == X and isinstance(a.value, Rat) and a.value.single_atom() == 'pere' \
            and isinstance(ae.value, Rat) and ae.value.single_atom() == E + '.id'
        ctx.check(ok, 'C07.N', f, 'predecessor = the node just popped, predecessor edge = id of the edge just examined, on the node relaxed',
                  witness={'antecedent': repr(a), 'antecedent_edge': repr(ae)}, node=a.node, key='values')
    # sentinel agreement
    r, rloop, rvals, _ = reset_values(ctx)
    fb, body, wl = _backward(ctx)
    sent = rvals.get('antecedent')
    consts = set()
    for n in ast.walk(fb.node):
        if isinstance(n, ast.Compare) and any(isinstance(x, ast.Attribute) and x.attr == 'antecedent' for x in ast.walk(n)):
            for c in [n.left] + n.comparators:
                if isinstance(c, ast.Constant):
                    consts.add(c.value)
    ctx.check(consts == {sent}, 'C07.N', fb, '"no predecessor" tested in the backward walk is the value __resetFlags assigns',
              witness={'tested': sorted(map(repr, consts)), 'reset value': repr(sent)}, node=fb.node, key='sentinel')


def rule_P(ctx):
    """C07.P control of the reconstruction depends on predecessor links only"""
    f, body, wl = _backward(ctx)
    w = Walker(f, loop_mode='skip', solve_eq=False)
    # attributes of network nodes read by the loop test and by every early return before/inside the loop
    def attrs_read(test):
        return sorted({n.attr for n in ast.walk(test) if isinstance(n, ast.Attribute) and n.attr in
                       ('poids', 'visite', 'antecedent', 'antecedent_edge', 'weight', 'id', 'coord')})
    at = attrs_read(wl.test)
    ctx.check(at == ['antecedent'], 'C07.P', f,
              'the walk towards the source continues exactly while the current node has a predecessor '
              '(its test reads predecessor links only)',
              witness={'attributes read by the loop test': at, 'test': unparse(wl.test),
                       'why': 'a test on a distance ends the walk early at a node of accumulated weight 0 '
                              '(zero-weight edges out of the source)'}, node=wl, key='looptest')
    # loop test is `node.antecedent != sentinel`: evaluate both cases
    outs = list(w.run(body, State()))
    nones = [o for o in outs if o.kind == 'return' and o.value is None]
    if not nones:
        raise shape_error('run_routing_backward never returns None', f.loc())
    for o in nones:
        reads = set()
        for c, tnode in o.state.conds:
            reads |= set(attrs_read(tnode)) if isinstance(tnode, ast.AST) else set()
        ctx.check(reads == {'antecedent'}, 'C07.P', f,
                  'None is returned exactly when the target has no predecessor (the test reads predecessor links only)',
                  witness={'attributes read on the path to `return None`': sorted(reads),
                           'path conditions': [repr(c) for c, _ in o.state.conds],
                           'why': 'a test on the distance reports a target reached at distance 0 as unreachable'},
                  node=o.node, key='none')
    # the walk follows node = node.antecedent
    st = State()
    for v in names_stored(wl.body):
        st.env[v] = Rat.atom(v)
    bouts = list(w.run(wl.body, st))
    cur = None
    for n in ast.walk(wl.test):
        if isinstance(n, ast.Attribute) and n.attr == 'antecedent':
            cur = unparse(n.value)
    for o in bouts:
        if o.kind not in ('fall', 'continue'):
            continue
        nv = o.state.env.get(cur)
        ctx.check(isinstance(nv, Rat) and nv.single_atom() == cur + '.antecedent', 'C07.P', f,
                  'each step moves to the predecessor of the current node',
                  witness={'next node': repr(nv)}, node=wl, key='step')
        apps = [e for e in o.state.events if e.kind == 'call' and e.name == 'append']
        ctx.check(any(isinstance(e.args[0], Rat) and e.args[0].single_atom() == cur + '.antecedent.id' for e in apps),
                  'C07.P', f, 'the node list records the id of each predecessor reached',
                  witness={'appends': [repr(e) for e in apps]}, node=wl, key='nodelist')


def rule_G(ctx):
    """C07.G reconstruction of the route: node list, orientation of each edge polyline, junction vertices once, no sharing.

    run_routing_backward only moves objects around and takes one decision per edge (is the current node the edge's source?).  Its body -
    and whatever helper it calls - is interpreted by tlint.orders (nothing executed) on a chain S-A-B-T whose three edges are stored in
    each of the 2^3 orientation patterns, with predecessor links as the forward search leaves them, labels all zero (zero-weight
    edges) or increasing, plus a one-edge route and an unreachable target.  Tracks are abstract vertex sequences whose copy / reverse /
    > n / + are modelled after Track (deep copy, deep reversed copy, tail, concatenation keeping the operands' vertex objects)."""
    import itertools
    from .. import absint, orders
    f, body, wl = _backward(ctx)

    class V(orders.PyStub):
        """a vertex object (identity matters: sharing it with the network is a defect)"""
        def __init__(self, tag, xyz=(0.0, 0.0, 0.0)):
            self.tag, self.xyz = tag, xyz

        def copy(self):
            return V(self.tag, self.xyz)

        def getX(self):
            return self.xyz[0]

        def getY(self):
            return self.xyz[1]

        def getZ(self):
            return self.xyz[2]

        def distance2DTo(self, o):
            return ((self.xyz[0] - o.xyz[0]) ** 2 + (self.xyz[1] - o.xyz[1]) ** 2) ** 0.5

        def distanceTo(self, o):
            return sum((a_ - b_) ** 2 for a_, b_ in zip(self.xyz, o.xyz)) ** 0.5

        def __repr__(self):
            return str(self.tag)

    class ObsS(orders.PyStub):
        def __init__(self, position):
            self.position = position

        def copy(self):
            return ObsS(self.position.copy())

    class Trk(orders.PyStub):
        isa = ('Track',)

        def __init__(self, obs=None, *a_, **k_):
            self.obs = list(obs or [])

        def _carry(self, t):
            if hasattr(self, 'path'):
                t.path = list(self.path) if isinstance(self.path, list) else self.path
            return t

        def copy(self):
            return self._carry(Trk([o.copy() for o in self.obs]))

        def reverse(self):
            return self._carry(Trk([o.copy() for o in reversed(self.obs)]))

        def addObs(self, o):
            self.obs.append(o)

        def size(self):
            return len(self.obs)

        def __len__(self):
            return len(self.obs)

        def __gt__(self, n):
            if not isinstance(n, int):
                raise orders.Unsupported('track > %r' % (n,))
            return Trk(self.obs[n:])

        def __lt__(self, n):
            if not isinstance(n, int):
                raise orders.Unsupported('track < %r' % (n,))
            return Trk(self.obs[:len(self.obs) - n])

        def __add__(self, o):
            if not isinstance(o, Trk):
                raise orders.Unsupported('track + %r' % (o,))
            return Trk(self.obs + o.obs)

        def __getitem__(self, k):
            if isinstance(k, slice):
                return Trk(self.obs[k])
            return self.obs[k]

        def tags(self):
            return [o.position.tag for o in self.obs]

        def getFirstObs(self):
            return self.obs[0]

        def getLastObs(self):
            return self.obs[-1]

        def getObs(self, k):
            return self.obs[k]

    # A-B is a vertical edge (a lift shaft): its two ends share x and y
    XYZ = {'S': (0.0, 0.0, 0.0), 'A': (10.0, 0.0, 0.0), 'B': (10.0, 0.0, 5.0), 'T': (20.0, 0.0, 5.0), 'X': (50.0, 50.0, 0.0)}

    class Node(orders.PyStub):
        isa = ('Node',)

        def __init__(self, nid):
            self.id = nid
            self.coord = V('position of node %s' % nid, XYZ[nid])
            self.antecedent = ''
            self.antecedent_edge = ''
            self.poids = -1
            self.visite = False

        def __repr__(self):
            return 'node %s' % self.id

    class Edge(orders.PyStub):
        isa = ('Edge',)

        def __init__(self, eid, src, tgt):
            self.id, self.source, self.target = eid, src, tgt
            self.weight = 1.0
            mid = tuple((a_ + b_) / 2 for a_, b_ in zip(XYZ[src.id], XYZ[tgt.id]))
            self.geom = Trk([ObsS(V('position of node %s' % src.id, XYZ[src.id])), ObsS(V('inner vertex of edge %s' % eid, mid)),
                             ObsS(V('position of node %s' % tgt.id, XYZ[tgt.id]))])
    fn = absint.funcs(ctx, NET.rsplit('.', 1)[0], {'Track': lambda *a_, **k_: Trk(*a_), 'Obs': lambda p_, *a_: ObsS(p_)})
    bad = None
    n_cases = 0
    chain = ['S', 'A', 'B', 'T']
    try:
        for length in (3, 1):
            names = ['S', 'T'] if length == 1 else chain
            for flips in itertools.product((False, True), repeat=len(names) - 1):
                for zero in (False, True):
                    nodes = {k: Node(k) for k in names + ['X']}            # X is unreachable
                    edges = {}
                    for i in range(len(names) - 1):
                        a_, b_ = nodes[names[i]], nodes[names[i + 1]]
                        eid = 'e%d' % i
                        edges[eid] = Edge(eid, b_ if flips[i] else a_, a_ if flips[i] else b_)
                        b_.antecedent, b_.antecedent_edge = a_, eid
                        b_.poids = 0 if zero else float(i + 1)
                    nodes['S'].poids = 0
                    net = absint.instance(ctx, NET, {'NODES': nodes, 'EDGES': edges}, fn)
                    n_cases += 1
                    res = net.call('run_routing_backward', 'T')
                    case = {'route': '-'.join(names), 'edges stored against the direction of travel': [('e%d' % i) for i, fl_ in enumerate(flips) if fl_],
                            'labels': 'all zero (zero-weight edges)' if zero else 'increasing'}
                    if not isinstance(res, Trk):
                        bad = ('path', 'a reachable target yields a route (reconstruction follows the predecessor links, whatever the labels)', dict(case, returned=repr(res)))
                        break
                    want = ['position of node S']
                    for i in range(len(names) - 1):
                        want += ['inner vertex of edge e%d' % i, 'position of node %s' % names[i + 1]]
                    if res.tags() != want:
                        bad = ('geometry', "the geometry is the edges' polylines chained end to end, each oriented along the direction of travel, junction vertices once, "
                               'from the source node position to the target node position', dict(case, geometry=res.tags(), expected=want))
                        break
                    if getattr(res, 'path', None) != names:
                        bad = ('node-list', 'the node list runs from the source to the target', dict(case, path=repr(getattr(res, 'path', None)), expected=names))
                        break
                    shared = [o.position.tag for o in res.obs if any(o is g_ or o.position is g_.position for e_ in edges.values() for g_ in e_.geom.obs)
                              or any(o.position is nd.coord for nd in nodes.values())]
                    if shared:
                        bad = ('sharing', 'the route returned shares no observation or position object with the network (editing a route must not move the network)',
                               dict(case, **{'shared vertices': shared}))
                        break
                    unr = net.call('run_routing_backward', 'X')
                    if unr is not None:
                        bad = ('unreachable', 'an unreachable target yields no route', dict(case, returned=repr(unr)))
                        break
                if bad:
                    break
            if bad:
                break
    except orders.Unsupported as ex:
        raise shape_error('run_routing_backward not interpretable: %s' % ex, f.loc())
    except (IndexError, KeyError, TypeError, AttributeError) as ex:
        bad = ('fails', 'the reconstruction does not fail', {'exception': '%s: %s' % (type(ex).__name__, ex)})
    if bad:
        ctx.violation('C07.P' if bad[0] in ('path', 'unreachable') else 'C07.G', f, bad[1], bad[2], node=f.node, key=bad[0])
    else:
        ctx.ok('C07.G', f, 'route geometry = edge polylines chained along the direction of travel, junction vertices once, source position to target position: '
                           '%d interpreted routes (all orientation patterns of a 3-edge and a 1-edge chain, zero and increasing labels)' % n_cases, node=f.node)
        ctx.ok('C07.G', f, 'the node list runs source -> target', node=f.node)
        ctx.ok('C07.G', f, 'the route shares no observation / position object with the network', node=f.node)
        ctx.ok('C07.P', f, 'a reachable target yields a route whatever the labels (zero-weight edges included); an unreachable one yields none', node=f.node)
    tr = ctx.prog.func(TRACK + '.reverse')
    # Track.reverse returns an independent (deep) copy in reversed order
    tr = ctx.prog.func(TRACK + '.reverse')
    wt = Walker(tr, loop_mode='skip')
    to = [o for o in wt.run(body_nodocstring(tr), State()) if o.kind == 'return']
    if len(to) != 1:
        raise shape_error('Track.reverse is not single-path', tr.loc())
    o = to[0]
    rv = o.value.single_atom() if isinstance(o.value, Rat) else None
    deep = rv in ('self.copy()', 'copy.deepcopy(self)')
    sts = [e for e in o.state.events if e.kind == 'store' and 'POINTS' in str(e.index)]
    okrev = len(sts) == 1 and isinstance(sts[0].value, Rat) and (sts[0].value.single_atom() or '').endswith('[::-1]') \
        and vr(sts[0].recv) == rv
    ctx.check(deep and okrev, 'C07.G', tr,
              'Track.reverse returns a deep copy with the observation list reversed (no observation shared with '
              'the source track)',
              witness={'returned': rv, 'stores': [repr(e) for e in sts],
                       'why': 'a shallow copy shares Obs/coordinate objects: editing a returned route moves the '
                              'network node it ends at'}, node=tr.node, key='reverse-deep')


def rule_U(ctx):
    """C07.U shortest_path = forward(source, target, cut, dict) ; backward(target)"""
    f = ctx.prog.func(NET + '.shortest_path')
    w = Walker(f, loop_mode='skip')
    outs = [o for o in w.run(body_nodocstring(f), State()) if o.kind == 'return']
    if len(outs) != 1:
        raise shape_error('shortest_path is not single-path', f.loc())
    o = outs[0]
    src, tgt, cut, od = f.params[1:5]
    fw = [e for e in o.state.events if e.kind == 'call' and e.name == 'run_routing_forward']
    bw = [e for e in o.state.events if e.kind == 'call' and e.name == 'run_routing_backward']
    ok = len(fw) == 1 and len(bw) == 1 and fw[0].seq < bw[0].seq
    if ok:
        a = fw[0].args
        ok = len(a) >= 2 and vr(a[0]) == src and vr(a[1]) == tgt and \
            vr(fw[0].kwargs.get('cut', a[2] if len(a) > 2 else None)) == cut and \
            vr(fw[0].kwargs.get('output_dict', a[3] if len(a) > 3 else None)) == od and \
            vr(bw[0].args[0]) == tgt and isinstance(o.value, Rat) and o.value.single_atom() == bw[0].value
    ctx.check(ok, 'C07.U', f, 'shortest_path runs the forward search (source, target, cut, dict) then reconstructs from the same target',
              witness={'forward': unparse(fw[0].node) if fw else None, 'backward': unparse(bw[0].node) if bw else None},
              node=f.node, key='wiring')


class _Proxy:
    """the forward pass decided under C06.R/V/C is also a premise of C07 (the path is optimal only if the labels are)"""

    def __init__(self, ctx):
        self._ctx = ctx

    def __getattr__(self, k):
        return getattr(self._ctx, k)

    def ok(self, rule, *a, **kw):
        return self._ctx.ok('C07.F', *a, **kw)

    def violation(self, rule, *a, **kw):
        return self._ctx.violation('C07.F', *a, **kw)

    def check(self, cond, rule, func, desc, witness=None, node=None, key=None):
        return self._ctx.check(cond, 'C07.F', func, desc, witness=witness, node=node, key=key)

    def recognise(self, cond, rule, func, desc, node=None, witness=None, key=None):
        return self._ctx.recognise(cond, 'C07.F', func, desc, node=node)


def rule_F(ctx):
    """C07.F forward pass: relaxation, queue key, expansion order (shared with C06.R)"""
    from . import c06
    c06.rule_R(_Proxy(ctx))
    # ... and every edge added is traversable by the search in its permitted directions (parallel edges included): C06.O
    c06.rule_O(_Proxy(ctx))


def rule_S(ctx):
    """C07.S the edge polylines of the route are joined with Track + Track: nothing of either operand is dropped (shared with C04.S)"""
    from . import c04
    from ..report import Proxy
    c04.concat(Proxy(ctx, {'C04.S': 'C07.S'}))


def rule_H(ctx):
    """C07.H shortest_path of the repository's Network class interpreted on small multigraphs: None exactly when there is no walk; the
    node list is a walk from source to target along permitted arcs whose weights sum to the shortest distance (Floyd-Warshall); the
    geometry is the chain of the polylines of those edges, each oriented along the travel, junction vertices once; successive queries
    on the same network object do not influence each other"""
    from .. import netmodel
    tier = getattr(ctx, 'tier', 'quick')
    H = netmodel.Harness(ctx)
    f = ctx.prog.func(netmodel.NET + '.Network.shortest_path')
    INF = netmodel.INF
    found = {}
    n_graphs = n_queries = 0

    def coords(track):
        if not isinstance(track, orders.Obj) or '_Track__POINTS' not in track.fields:
            return None
        return [o.position.xyz() for o in track.fields['_Track__POINTS']]
    fams = [fm + (False,) for fm in netmodel.families(tier)]
    # the same routes on networks held in geographic coordinates (positions that define no equality): a sample of the families
    fams += [(fm[0] + ' [geographic coordinates]',) + fm[1:] + (True,) for fm in netmodel.families('quick') if fm[0].startswith(('chain A-B-C orientations (+0, +0)', 'diamond', 'parallel edges A-B weights (3, 1) orientations (+0, +0)', 'chain whose polylines'))]
    for label, nodes, edges, layout, geographic in fams:
        n_graphs += 1
        d = H.distances(nodes, edges)
        desc = {'graph': label, 'edges (id, stored source, stored target, orientation, weight)': [list(e) for e in edges]}
        net, pos, geom = H.build(nodes, edges, layout, geographic=geographic)
        owned = {id(x) for x in H.owned}
        if n_graphs % 6 == 1 and len(nodes) >= 3 and not geographic:
            # a sub-network extracted first: the routes asked of the network afterwards are unaffected
            H.guard(f, lambda: net.call('sub_network', nodes[0], 1e300, 'TOPOLOGIC', False))
            desc = dict(desc, history='a sub-network was extracted from the network before the queries')
        pairs = [(s, t) for s in nodes for t in nodes if s != t]
        for (s, t) in pairs + list(reversed(pairs)):
            n_queries += 1
            ok, res = H.guard(f, lambda: net.call('shortest_path', s, t))
            want = d[(s, t)]
            if not ok:
                found.setdefault('fails', ('shortest_path does not fail', dict(desc, query=[s, t], exception=res)))
                continue
            if want == INF:
                if res is not None:
                    found.setdefault('unreachable', ('an unreachable target gives no path', dict(desc, query=[s, t], returned=repr(coords(res)))))
                continue
            if res is None:
                found.setdefault('reachable', ('a reachable target gives a path', dict(desc, query=[s, t], **{'shortest distance': want})))
                continue
            path = res.fields.get('path') if isinstance(res, orders.Obj) else None
            xy = coords(res)
            routes = H.optimal_routes(nodes, edges, s, t, want)
            okroute = None
            for r in routes:
                nl = [s] + [a[1] for a in r]
                exp = [pos[s].xyz()]
                for a in r:
                    g = geom[a[3]] if a[4] > 0 else list(reversed(geom[a[3]]))
                    exp.extend(g[1:])
                if path == nl and xy == exp:
                    okroute = r
                    break
            shared = [k_ for k_, o in enumerate(res.fields['_Track__POINTS']) if id(o) in owned or id(o.position) in owned] if xy is not None else []
            if shared:
                found.setdefault('sharing', ('the route is a track of its own: it holds none of the observation or coordinate objects of the network (editing the route '
                                             'must not move an edge or a node)', dict(desc, query=[s, t], **{'vertices of the route that ARE objects of the network': shared})))
            now = {eid: [o.position.xyz() for o in net.fields['EDGES'][eid].fields['geom'].fields['_Track__POINTS']] for eid in geom}
            if now != {eid: list(g) for eid, g in geom.items()}:
                found.setdefault('network-changed', ('a query leaves the edge geometries of the network as they were', dict(desc, query=[s, t], **{'geometries now': {str(k): v for k, v in now.items()}})))
            if okroute is None:
                exp_show = None
                if routes:
                    r = routes[0]
                    exp_show = {'nodes': [s] + [a[1] for a in r], 'edges': [a[3] for a in r]}
                found.setdefault('route', ('the returned route is an optimal walk: its node list runs from source to target along permitted edges whose weights sum to the '
                                           'shortest distance, and its geometry chains the polylines of those edges in travel direction, junction vertices once',
                                           dict(desc, query=[s, t], **{'shortest distance': want, 'node list returned': path, 'geometry returned': xy,
                                                                       'an optimal route': exp_show, 'node positions': {str(k): list(v.xyz()) for k, v in pos.items()}})))
    for key, (descr, wit) in sorted(found.items()):
        ctx.violation('C07.H', f, descr, wit, node=f.node, key=key)
    if not found:
        ctx.ok('C07.H', f, 'shortest_path: None iff unreachable, otherwise an optimal walk with correctly oriented, continuous geometry (%d multigraphs, %d queries in two orders)' % (n_graphs, n_queries), node=f.node)
    ctx.extra['C07.H graphs'] = n_graphs
    ctx.extra['C07.H queries'] = n_queries


RULES = [
    ('C07.H', rule_H, 'quick'),
]
# rule_S / rule_F / rule_N / rule_P / rule_G / rule_U (statement-level readings of the forward and backward passes) are no longer run:
# C07.H decides the same clauses on the behaviour of shortest_path and does not depend on how the passes are written (C07-R5, C07-R6
# made them report violations on behaviour-preserving rewrites)
MIN_OBLIGATIONS = 1
