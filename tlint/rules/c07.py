"""C07 - shortest path reconstruction (tracklib/core/network.py)."""
import ast

from ..alg import Rat
from ..loader import shape_error, anchor_error
from ..sx import Walker, State, Cond
from ..util import body_nodocstring, names_stored, unparse
from .c03 import cond_eval
from .c06 import relax_paths, reset_values, vr, NET

TRACK = 'tracklib.core.track.Track'

EXPLANATION = (
    "Static analysis of Network.run_routing_backward / shortest_path and of the predecessor bookkeeping in "
    "run_routing_forward: the reconstruction loop and the unreachable test read predecessor links and the reset "
    "sentinel only (never distances); predecessor node and predecessor edge are written on exactly the paths that "
    "improve the label, from the popped node and the edge just examined; each edge polyline is oriented to start "
    "at the current node (three end-point cases), appended without its first vertex, the whole reversed once; "
    "Track.reverse returns a deep copy; shortest_path = forward then backward on the same target.")
ASSUMPTIONS = ["node coordinates equal the end vertices of the incident edge geometries (data precondition)"]
TECHNIQUE = "control-depends-only-on rule (F7), path-wise co-update (F6), end-point case domain (F4)"


def _backward(ctx):
    f = ctx.prog.func(NET + '.run_routing_backward')
    body = body_nodocstring(f)
    loops = [s for s in body if isinstance(s, ast.While)]
    if len(loops) != 1:
        raise shape_error('run_routing_backward: walk loop not found', f.loc())
    return f, body, loops[0]


def rule_N(ctx):
    """C07.N predecessor links are those of the relaxation"""
    E, qname, paths = relax_paths(ctx)
    f = ctx.prog.func(NET + '.run_routing_forward')
    for o, upd in paths:
        pathtxt = [repr(c) for c, _ in o.state.conds]
        has_label = 'poids' in upd
        missing = [k for k in ('antecedent', 'antecedent_edge') if k not in upd]
        node = (upd.get('poids') or upd.get('antecedent') or upd.get('antecedent_edge') or upd.get('queue')).node
        if has_label and missing:
            ctx.violation('C07.N', f, 'whenever a label improves, predecessor node and predecessor edge are rewritten too',
                          {'not rewritten on this path': missing, 'path conditions': pathtxt,
                           'why': 'the label then belongs to one edge and the predecessor link to another (e.g. the '
                                  'heavier of two parallel edges): the path returned is not a shortest one'},
                          node=node, key='coupdate')
            continue
        if not has_label:
            ctx.violation('C07.N', f, 'predecessor links change only together with the label',
                          {'updated': sorted(upd), 'path conditions': pathtxt}, node=node, key='link-only')
            continue
        X = vr(upd['poids'].recv)
        a, ae = upd['antecedent'], upd['antecedent_edge']
        ok = vr(a.recv) == X and vr(ae.recv) == X and isinstance(a.value, Rat) and a.value.single_atom() == 'pere' \
            and isinstance(ae.value, Rat) and ae.value.single_atom() == E + '.id'
        ctx.check(ok, 'C07.N', f, 'predecessor = the node just popped, predecessor edge = id of the edge just examined, on the node relaxed',
                  witness={'antecedent': repr(a), 'antecedent_edge': repr(ae)}, node=a.node, key='values')
    # sentinel agreement
    r, rloop, rvals, _ = reset_values(ctx)
    fb, body, wl = _backward(ctx)
    sent = rvals.get('antecedent')
    consts = set()
    for n in ast.walk(fb.node):
        if isinstance(n, ast.Compare) and any(isinstance(x, ast.Attribute) and x.attr == 'antecedent' for x in ast.walk(n)):
            for c in [n.left] + n.comparators:
                if isinstance(c, ast.Constant):
                    consts.add(c.value)
    ctx.check(consts == {sent}, 'C07.N', fb, '"no predecessor" tested in the backward walk is the value __resetFlags assigns',
              witness={'tested': sorted(map(repr, consts)), 'reset value': repr(sent)}, node=fb.node, key='sentinel')


def rule_P(ctx):
    """C07.P control of the reconstruction depends on predecessor links only"""
    f, body, wl = _backward(ctx)
    w = Walker(f, loop_mode='skip', solve_eq=False)
    # attributes of network nodes read by the loop test and by every early return before/inside the loop
    def attrs_read(test):
        return sorted({n.attr for n in ast.walk(test) if isinstance(n, ast.Attribute) and n.attr in
                       ('poids', 'visite', 'antecedent', 'antecedent_edge', 'weight', 'id', 'coord')})
    at = attrs_read(wl.test)
    ctx.check(at == ['antecedent'], 'C07.P', f,
              'the walk towards the source continues exactly while the current node has a predecessor '
              '(its test reads predecessor links only)',
              witness={'attributes read by the loop test': at, 'test': unparse(wl.test),
                       'why': 'a test on a distance ends the walk early at a node of accumulated weight 0 '
                              '(zero-weight edges out of the source)'}, node=wl, key='looptest')
    # loop test is `node.antecedent != sentinel`: evaluate both cases
    outs = list(w.run(body, State()))
    nones = [o for o in outs if o.kind == 'return' and o.value is None]
    if not nones:
        raise shape_error('run_routing_backward never returns None', f.loc())
    for o in nones:
        reads = set()
        for c, tnode in o.state.conds:
            reads |= set(attrs_read(tnode)) if isinstance(tnode, ast.AST) else set()
        ctx.check(reads == {'antecedent'}, 'C07.P', f,
                  'None is returned exactly when the target has no predecessor (the test reads predecessor links only)',
                  witness={'attributes read on the path to `return None`': sorted(reads),
                           'path conditions': [repr(c) for c, _ in o.state.conds],
                           'why': 'a test on the distance reports a target reached at distance 0 as unreachable'},
                  node=o.node, key='none')
    # the walk follows node = node.antecedent
    st = State()
    for v in names_stored(wl.body):
        st.env[v] = Rat.atom(v)
    bouts = list(w.run(wl.body, st))
    cur = None
    for n in ast.walk(wl.test):
        if isinstance(n, ast.Attribute) and n.attr == 'antecedent':
            cur = unparse(n.value)
    for o in bouts:
        if o.kind not in ('fall', 'continue'):
            continue
        nv = o.state.env.get(cur)
        ctx.check(isinstance(nv, Rat) and nv.single_atom() == cur + '.antecedent', 'C07.P', f,
                  'each step moves to the predecessor of the current node',
                  witness={'next node': repr(nv)}, node=wl, key='step')
        apps = [e for e in o.state.events if e.kind == 'call' and e.name == 'append']
        ctx.check(any(isinstance(e.args[0], Rat) and e.args[0].single_atom() == cur + '.antecedent.id' for e in apps),
                  'C07.P', f, 'the node list records the id of each predecessor reached',
                  witness={'appends': [repr(e) for e in apps]}, node=wl, key='nodelist')


def rule_G(ctx):
    """C07.G orientation of each edge polyline, shared vertex dropped, reversed once"""
    f, body, wl = _backward(ctx)
    w = Walker(f, loop_mode='skip', solve_eq=False)
    cur = None
    for n in ast.walk(wl.test):
        if isinstance(n, ast.Attribute) and n.attr == 'antecedent':
            cur = unparse(n.value)
    st = State()
    for v in names_stored(wl.body):
        st.env[v] = Rat.atom(v)
    bouts = [o for o in w.run(wl.body, st) if o.kind in ('fall', 'continue')]
    if not bouts:
        raise shape_error('run_routing_backward: loop body has no normal path', f.loc(wl))
    E = 'self.EDGES[%s.antecedent_edge]' % cur
    # the statement `track = track + <piece>` (object concatenation: operand order matters)
    cat = None
    for s_ in wl.body:
        if isinstance(s_, ast.Assign) and isinstance(s_.targets[0], ast.Name) and isinstance(s_.value, ast.BinOp) \
                and isinstance(s_.value.op, ast.Add):
            cat = (s_.targets[0].id, s_.value.left, s_.value.right, s_)
        if isinstance(s_, ast.AugAssign) and isinstance(s_.target, ast.Name) and isinstance(s_.op, ast.Add):
            cat = (s_.target.id, ast.Name(id=s_.target.id, ctx=ast.Load()), s_.value, s_)
    if cat is None:
        raise shape_error('run_routing_backward: cannot find `track = track + piece`', f.loc(wl))
    tvar, left, right, catnode = cat
    ctx.check(isinstance(left, ast.Name) and left.id == tvar, 'C07.G', f,
              'each piece is appended after what has been chained so far', witness={'statement': unparse(catnode)},
              node=catnode, key='append-order')
    pe = right
    drop1 = False
    if isinstance(pe, ast.Compare) and len(pe.ops) == 1 and isinstance(pe.ops[0], ast.Gt) and \
            isinstance(pe.comparators[0], ast.Constant) and pe.comparators[0].value == 1:
        drop1, pe = True, pe.left
    elif isinstance(pe, ast.Subscript) and unparse(pe.slice) == '1:':
        drop1, pe = True, pe.value
    for o in bouts:
        # value of the piece expression on this path, just before the concatenation
        stp = State(dict(o.state.env))
        for e_ in o.state.events:
            if e_.kind == 'assign' and e_.node is not catnode and e_.name in {n.id for n in ast.walk(pe) if isinstance(n, ast.Name)}:
                stp.env[e_.name] = e_.value
        stp.env[cur] = Rat.atom(cur)
        pv = w.ex(pe, stp)
        piece = pv.single_atom() if isinstance(pv, Rat) else repr(pv)
        piece = piece or repr(pv)
        reversed_ = '.reverse()' in piece
        base_ok = (E + '.geom') in piece
        pathtxt = [repr(c) for c, _ in o.state.conds]
        ctx.check(base_ok, 'C07.G', f, 'the piece appended is the geometry of the predecessor edge of the current node',
                  witness={'piece': piece}, node=wl, key='piece-edge')
        ctx.check(drop1, 'C07.G', f, 'each piece is appended without its first vertex (the junction is already there)',
                  witness={'piece': piece}, node=wl, key='drop-first')
        # orientation by end-point case
        bad = None
        for case in ('node=source', 'node=target', 'node=both'):
            def orc(c, case=case):
                if c.kind == 'cmp' and c.op in ('==', '!=') and isinstance(c.a, Rat) and isinstance(c.b, Rat):
                    names = {vr(c.a), vr(c.b)}
                    if names == {E + '.source', cur}:
                        v = case in ('node=source', 'node=both')
                    elif names == {E + '.target', cur}:
                        v = case in ('node=target', 'node=both')
                    else:
                        return None
                    return v if c.op == '==' else not v
                return None
            if not all(cond_eval(c, orc) is not False for c, _ in o.state.conds):
                continue
            if case == 'node=source' and reversed_:
                bad = (case, 'reversed although the edge already starts at the current node')
            if case == 'node=target' and not reversed_:
                bad = (case, 'not reversed although the edge ends at the current node')
        ctx.check(bad is None, 'C07.G', f,
                  'walking target->source, every piece starts at the current node: the stored polyline is reversed '
                  'exactly when the current node is its target',
                  witness={'case': bad[0] if bad else None, 'problem': bad[1] if bad else None,
                           'piece': piece, 'path conditions': pathtxt}, node=wl, key='orient')
    # result: reversed once, path = reversed node list, starts from the target position
    w2 = Walker(f, loop_mode='skip', solve_eq=False)
    outs = [o for o in w2.run(body, State()) if o.kind == 'return' and o.value is not None]
    if not outs:
        raise shape_error('run_routing_backward returns no track', f.loc())
    for o in outs:
        v = o.value
        ctx.check(isinstance(v, Rat) and (v.single_atom() or '').endswith('.reverse()') and
                  (v.single_atom() or '').count('.reverse()') == 1, 'C07.G', f,
                  'the chained geometry (built target->source) is reversed once before being returned',
                  witness={'returned': repr(v)[:200]}, node=o.node, key='final-reverse')
        ps = [e for e in o.state.events if e.kind == 'store' and e.index == 'path']
        ctx.check(len(ps) == 1 and isinstance(ps[0].value, Rat) and '::-1' in (ps[0].value.single_atom() or ''), 'C07.G', f,
                  'the node list (built target->source) is reversed into source->target order',
                  witness={'path store': [repr(e) for e in ps]}, node=o.node, key='path-reverse')
        first = [e for e in o.state.events if e.kind == 'call' and e.name == 'addObs']
        ctx.check(bool(first) and 'coord' in (first[0].value or ''), 'C07.G', f,
                  'the geometry starts with the position of the target node', witness={'first': repr(first[:1])},
                  node=o.node, key='start')
    # Track.reverse returns an independent (deep) copy in reversed order
    tr = ctx.prog.func(TRACK + '.reverse')
    wt = Walker(tr, loop_mode='skip')
    to = [o for o in wt.run(body_nodocstring(tr), State()) if o.kind == 'return']
    if len(to) != 1:
        raise shape_error('Track.reverse is not single-path', tr.loc())
    o = to[0]
    rv = o.value.single_atom() if isinstance(o.value, Rat) else None
    deep = rv in ('self.copy()', 'copy.deepcopy(self)')
    sts = [e for e in o.state.events if e.kind == 'store' and 'POINTS' in str(e.index)]
    okrev = len(sts) == 1 and isinstance(sts[0].value, Rat) and (sts[0].value.single_atom() or '').endswith('[::-1]') \
        and vr(sts[0].recv) == rv
    ctx.check(deep and okrev, 'C07.G', tr,
              'Track.reverse returns a deep copy with the observation list reversed (no observation shared with '
              'the source track)',
              witness={'returned': rv, 'stores': [repr(e) for e in sts],
                       'why': 'a shallow copy shares Obs/coordinate objects: editing a returned route moves the '
                              'network node it ends at'}, node=tr.node, key='reverse-deep')


def rule_U(ctx):
    """C07.U shortest_path = forward(source, target, cut, dict) ; backward(target)"""
    f = ctx.prog.func(NET + '.shortest_path')
    w = Walker(f, loop_mode='skip')
    outs = [o for o in w.run(body_nodocstring(f), State()) if o.kind == 'return']
    if len(outs) != 1:
        raise shape_error('shortest_path is not single-path', f.loc())
    o = outs[0]
    src, tgt, cut, od = f.params[1:5]
    fw = [e for e in o.state.events if e.kind == 'call' and e.name == 'run_routing_forward']
    bw = [e for e in o.state.events if e.kind == 'call' and e.name == 'run_routing_backward']
    ok = len(fw) == 1 and len(bw) == 1 and fw[0].seq < bw[0].seq
    if ok:
        a = fw[0].args
        ok = len(a) >= 2 and vr(a[0]) == src and vr(a[1]) == tgt and \
            vr(fw[0].kwargs.get('cut', a[2] if len(a) > 2 else None)) == cut and \
            vr(fw[0].kwargs.get('output_dict', a[3] if len(a) > 3 else None)) == od and \
            vr(bw[0].args[0]) == tgt and isinstance(o.value, Rat) and o.value.single_atom() == bw[0].value
    ctx.check(ok, 'C07.U', f, 'shortest_path runs the forward search (source, target, cut, dict) then reconstructs from the same target',
              witness={'forward': unparse(fw[0].node) if fw else None, 'backward': unparse(bw[0].node) if bw else None},
              node=f.node, key='wiring')


class _Proxy:
    """the forward pass decided under C06.R/V/C is also a premise of C07 (the path is optimal only if the labels are)"""

    def __init__(self, ctx):
        self._ctx = ctx

    def __getattr__(self, k):
        return getattr(self._ctx, k)

    def ok(self, rule, *a, **kw):
        return self._ctx.ok('C07.F', *a, **kw)

    def violation(self, rule, *a, **kw):
        return self._ctx.violation('C07.F', *a, **kw)

    def check(self, cond, rule, func, desc, witness=None, node=None, key=None):
        return self._ctx.check(cond, 'C07.F', func, desc, witness=witness, node=node, key=key)

    def recognise(self, cond, rule, func, desc, node=None, witness=None, key=None):
        return self._ctx.recognise(cond, 'C07.F', func, desc, node=node)


def rule_F(ctx):
    """C07.F forward pass: relaxation, queue key, expansion order (shared with C06.R)"""
    from . import c06
    c06.rule_R(_Proxy(ctx))


def rule_S(ctx):
    """C07.S the edge polylines of the route are joined with Track + Track: nothing of either operand is dropped (shared with C04.S)"""
    from . import c04
    from ..report import Proxy
    c04.concat(Proxy(ctx, {'C04.S': 'C07.S'}))


RULES = [
    ('C07.S', rule_S, 'quick'),
    ('C07.F', rule_F, 'quick'),
    ('C07.N', rule_N, 'quick'),
    ('C07.P', rule_P, 'quick'),
    ('C07.G', rule_G, 'quick'),
    ('C07.U', rule_U, 'quick'),
]
MIN_OBLIGATIONS = 12
