"""C19 - grid summarising (raster.py, summarising.py, co_* cell operators in utils.py)."""
import ast
import math

from ..alg import Rat
from ..loader import shape_error, anchor_error
from ..sx import Walker, State
from .. import orders
from ..util import body_nodocstring, names_stored, unparse

RAS = 'tracklib.core.raster'
UT = 'tracklib.core.utils'

EXPLANATION = (
    "Static analysis of Raster.getCell / addCollectionToRaster / computeAggregates / AFMap.getMeasureName and the six "
    "cell operators: column and row formulas use the x resolution for columns and the y resolution for rows, rows "
    "counted from the top; the border arms are evaluated on the integrality-class case domain (each point lands in a "
    "cell whose footprint contains it, outer borders folded in); the scatter loop appends exactly one value per "
    "(track, feature, observation) into the cell returned for that observation, over a duplicate-free set of "
    "features; every cell operator skips NaN before any element can reach its accumulator, starts from a seed that "
    "is not an array element, scans from index 0 and answers NaN (0 for count/sum) on empty or all-NaN input; NaN "
    "aggregates become the no-data value; the aggregate evaluated is the one named in the map key.")
ASSUMPTIONS = ["coordinates lie inside the (margin-extended) bounding box (the None branch is out of scope)"]
TECHNIQUE = "abstract interpretation of the cell aggregators (344 value lists over NaN patterns each, the NaN values being other objects than the module's NAN), Raster.getCell (five grids, points inside / on borders / at corners) and the scatter / aggregate pipeline (collections with shared uids, six maps over one feature) by the checker's AST interpreter, against aggregates and footprints computed by the checker (bounded case domains)"

CO = ['co_count', 'co_sum', 'co_min', 'co_max', 'co_avg', 'co_median']


def vr(v):
    if isinstance(v, Rat):
        a = v.single_atom()
        return a if a is not None else repr(v)
    return repr(v)


def rule_C(ctx):
    """C19.C the cell returned contains the point"""
    f = ctx.prog.func(RAS + '.Raster.getCell')
    body = body_nodocstring(f)
    co = f.params[1]
    w = Walker(f, loop_mode='skip')
    outs = [o for o in w.run(body, State()) if o.kind == 'return' and isinstance(o.value, tuple)]
    if not outs:
        raise shape_error('getCell returns no (column, line) pair', f.loc())
    X, Y = Rat.atom('%s.getX()' % co), Rat.atom('%s.getY()' % co)
    idx_e = (X - Rat.atom('self.xmin')) / Rat.atom('self.resolution[0]')
    idy_e = (Rat.atom('self.nrow') - Rat.const(1)) - (Y - Rat.atom('self.ymin')) / Rat.atom('self.resolution[1]')
    # the fractional indices
    names = {}
    for s in body:
        if isinstance(s, ast.Assign) and isinstance(s.targets[0], ast.Name):
            v = w.ex(s.value, State())
            if isinstance(v, Rat) and 'self.resolution[' in repr(v):
                names[s.targets[0].id] = (v, s)
    fx = [k for k, (v, _) in names.items() if '%s.getX()' % co in repr(v)]
    fy = [k for k, (v, _) in names.items() if '%s.getY()' % co in repr(v)]
    if len(fx) != 1 or len(fy) != 1:
        raise shape_error('getCell: fractional column/row index not found', f.loc())
    vx, sx_ = names[fx[0]]
    vy, sy_ = names[fy[0]]
    ctx.check(w.rel.is_zero(vx - idx_e), 'C19.C', f, 'fractional column = (x - xmin) / x-resolution',
              witness={'found': vr(vx), 'expected': vr(idx_e)}, node=sx_, key='idx')
    ctx.check(w.rel.is_zero(vy - idy_e), 'C19.C', f, 'fractional row (counted from the top) = (nrow-1) - (y - ymin) / y-resolution',
              witness={'found': vr(vy), 'expected': vr(idy_e),
                       'why': 'with non-square cells another resolution puts the observation in a row whose footprint does not contain it'},
              node=sy_, key='idy')
    # border arms on the integrality-class case domain
    start = max(body.index(sx_), body.index(sy_)) + 1
    tail = body[start:]
    bad = []
    total = 0
    for nrow, ncol in ((4, 3), (1, 1), (2, 5)):
      for W, H in ((float(ncol), float(nrow)), (ncol - 0.5, nrow - 0.5)):      # extent = whole number of cells / last cell cut by the extent
        rs = sorted({0.0, H} | {k + 0.0 for k in range(nrow + 1)} | {k + fr for k in range(nrow) for fr in (0.25, 0.5, 0.9)})
        cs = sorted({0.0, W} | {k + 0.0 for k in range(ncol + 1)} | {k + fr for k in range(ncol) for fr in (0.25, 0.75)})
        rs = [r for r in rs if r <= H]
        cs = [c for c in cs if c <= W]
        for r in rs:
            for c in sorted(set(cs[:: max(1, len(cs) // 6)] + [W])):
                env = {fx[0]: c, fy[0]: (nrow - 1) - r, 'self.ncol': ncol, 'self.nrow': nrow, 'self.xmin': 0.0, 'self.ymin': 0.0,
                       'self.xmax': W, 'self.ymax': H, 'self.resolution': [1.0, 1.0], co + '.E': c, co + '.N': r}
                try:
                    kind, val = orders.run_block(tail, env, funcs={'floor': math.floor, 'ceil': math.ceil, 'getX': lambda c=c: c, 'getY': lambda r=r: r})
                except orders.Unsupported as e:
                    raise shape_error('getCell border arms not interpretable: %s' % e, f.loc())
                total += 1
                if kind != 'return' or not isinstance(val, tuple):
                    raise shape_error('getCell tail does not return a pair', f.loc())
                col, row = val
                k = nrow - 1 - row
                okr = 0 <= row < nrow and k <= r <= k + 1
                okc = 0 <= col < ncol and col <= c <= col + 1
                if not (okr and okc) and len(bad) < 5:
                    bad.append({'grid (rows, columns)': [nrow, ncol], 'extent in cell units (width, height)': [W, H], '(y-ymin)/ry': r, '(x-xmin)/rx': c,
                                'cell (column,row)': [col, row], 'row footprint in units': [k, k + 1], 'column footprint': [col, col + 1]})
    ctx.check(not bad, 'C19.C', f,
              'every point of the extent (interior, cell borders, outer borders, corners) gets a cell of the grid whose footprint contains it '
              '(%d integrality-class representatives)' % total, witness={'counter-examples': bad}, node=f.node, key='arms')


def rule_S(ctx):
    """C19.S every observation lands in exactly one cell, once per feature"""
    f = ctx.prog.func(RAS + '.Raster.addCollectionToRaster')
    body = body_nodocstring(f)
    # the feature set must be duplicate-free
    afs = None
    for s in body:
        if isinstance(s, ast.Assign) and isinstance(s.targets[0], ast.Name) and isinstance(s.value, (ast.Call, ast.List, ast.Set)):
            nm = s.targets[0].id
            used = any(isinstance(n, ast.For) and isinstance(n.iter, ast.Name) and n.iter.id == nm for n in ast.walk(f.node))
            if used:
                afs = (nm, s)
    if afs is None:
        raise shape_error('addCollectionToRaster: feature collection not found', f.loc())
    nm, s0 = afs
    isset = isinstance(s0.value, ast.Set) or (isinstance(s0.value, ast.Call) and getattr(s0.value.func, 'id', None) == 'set')
    adders = {getattr(n.func, 'attr', None) for n in ast.walk(f.node) if isinstance(n, ast.Call) and isinstance(n.func, ast.Attribute)
              and isinstance(n.func.value, ast.Name) and n.func.value.id == nm}
    dedup = isset or any(isinstance(n, ast.Compare) and isinstance(n.ops[0], ast.NotIn) and unparse(n.comparators[0]) == nm for n in ast.walk(f.node))
    ctx.check(dedup, 'C19.S', f, 'each feature is scattered once, however many maps (aggregates) are requested for it',
              witness={'feature collection': unparse(s0), 'filled with': sorted(a for a in adders if a),
                       'why': 'a list lets a feature behind two maps be scattered twice: counts and sums are doubled'}, node=s0, key='dedup')
    # the scatter loop
    sc = None
    for l1 in [s for s in body if isinstance(s, ast.For)]:
        for l2 in [s for s in l1.body if isinstance(s, ast.For)]:
            for l3 in [s for s in l2.body if isinstance(s, ast.For)]:
                if any(isinstance(n, ast.Call) and getattr(n.func, 'attr', None) == 'getCell' for n in ast.walk(l3)):
                    sc = (l1, l2, l3)
    if sc is None:
        raise shape_error('addCollectionToRaster: scatter loop not found', f.loc())
    l1, l2, l3 = sc
    ctx.check(unparse(l1.iter).endswith('.getTracks()') and isinstance(l2.iter, ast.Name) and l2.iter.id == nm, 'C19.S', f,
              'all tracks x all requested features are scattered', witness={'loops': [unparse(l1.iter), unparse(l2.iter)]}, node=l1, key='outer')
    w = Walker(f, loop_mode='skip')
    tv, av, iv = l1.target.id, l2.target.id, l3.target.id
    r = w.range_info(l3.iter, State())
    ctx.check(r is not None and vr(r[0]) == '0' and vr(r[1]) == '%s.size()' % tv, 'C19.S', f, 'every observation of the track is scattered',
              witness={'range': unparse(l3.iter)}, node=l3, key='obs-range')
    outs = list(w.run(l3.body, State({iv: Rat.atom(iv), av: Rat.atom(av), tv: Rat.atom(tv)})))
    for o in outs:
        if o.kind != 'fall':
            ctx.violation('C19.S', f, 'no observation is skipped by the scatter loop', {'path': [repr(c) for c, _ in o.state.conds], 'exit': o.kind},
                          node=l3, key='skip')
            continue
        apps = [e for e in o.state.events if e.kind == 'call' and e.name == 'append']
        cell = 'self.getCell(%s.getObs(%s).position)' % (tv, iv)
        okp = len(apps) == 1 and vr(apps[0].recv) == 'self.collectionValuesGrid[%s][%s[1]][%s[0]]' % (av, cell, cell)
        ctx.check(okp, 'C19.S', f,
                  'exactly one value is appended per (track, feature, observation), into grid[feature][line][column] with (column, line) '
                  'the cell returned for this very observation',
                  witness={'appends': [vr(e.recv) for e in apps], 'path': [repr(c) for c, _ in o.state.conds]}, node=l3, key='one-append')
        if apps and 'uid' not in ' '.join(repr(c) for c, _ in o.state.conds if "== 'uid'" in repr(c)):
            pass
    vals = {vr(e.args[0]) for o in outs for e in o.state.events if e.kind == 'call' and e.name == 'append'}
    ctx.check('%s.getObsAnalyticalFeature(%s, %s)' % (tv, av, iv) in vals, 'C19.S', f,
              'the value scattered is the feature value of that observation', witness={'values': sorted(vals)}, node=l3, key='value')
    # value grid allocated nrow x ncol
    t = unparse(f.node)
    ctx.recognise('for i in range(self.nrow)' in t and 'for j in range(self.ncol)' in t, 'C19.S', f, 'the value grid has nrow x ncol cells',
              witness={}, node=f.node, key='alloc')


def _co_loop(f):
    body = body_nodocstring(f)
    loops = [s for s in body if isinstance(s, ast.For)]
    if not loops:
        raise shape_error('%s: scan loop not found' % f.name, f.loc())
    return body, loops[0]


def rule_A(ctx):
    """C19.A NaN-skip discipline of the six cell operators"""
    for name in CO:
        f = ctx.prog.func(UT + '.' + name)
        arr = f.params[0]
        body, lo = _co_loop(f)
        w = Walker(f, loop_mode='skip')
        pre = list(w.run(body[:body.index(lo)], State()))
        pst = [o for o in pre if o.kind == 'fall']
        if not pst:
            raise shape_error('%s prologue' % name, f.loc())
        pst = pst[0].state
        A = vr(pst.env.get(arr, Rat.atom(arr)))       # listify(tarray)
        # range covers the whole array from index 0
        if isinstance(lo.iter, ast.Call) and getattr(lo.iter.func, 'id', None) == 'range':
            r = w.range_info(lo.iter, pst)
            seeded0 = any(isinstance(v_, Rat) and ('%s[0]' % A) in v_.atoms() for v_ in pst.env.values())
            okr = r is not None and (vr(r[0]) == '0' or (vr(r[0]) == '1' and seeded0)) and vr(r[1]) == 'len(%s)' % A and vr(r[2]) == '1'
            elem = Rat.atom('%s[%s]' % (A, lo.target.id))
        else:
            okr = vr(w.ex(lo.iter, pst)) == A
            r = None
            elem = Rat.atom(lo.target.id)
        ctx.check(okr, 'C19.A', f, '%s considers every element of the array' % name,
                  witness={'iterates': unparse(lo.iter),
                           'why': 'an element outside the scanned range reaches the result without the NaN test, or is ignored'}, node=lo, key=name + ':range')
        # seeds are not array elements
        assigned = sorted(names_stored(lo.body) - {lo.target.id})
        seeds = {k: pst.env.get(k) for k in assigned if k in pst.env}
        bad_seed = {k: vr(v) for k, v in seeds.items() if isinstance(v, Rat) and any(a.startswith(A + '[') for a in v.atoms())}
        ctx.check(not bad_seed, 'C19.A', f, '%s: the accumulator is not seeded with an array element (which may be NaN)' % name,
                  witness={'seeds': bad_seed, 'why': 'a NaN in that position becomes the result: every comparison with NaN is false'},
                  node=lo, key=name + ':seed')
        # every accumulation is dominated by the NaN skip
        st = pst.fork()
        st.events = []
        st.conds = []
        for v in assigned:
            st.env[v] = Rat.atom(v + '@')
        st.env[lo.target.id] = Rat.atom(lo.target.id)
        outs = list(w.run(lo.body, st))
        every = None
        for o in outs:
            nm = {e.name for e in o.state.events if e.kind == 'assign'}
            every = nm if every is None else every & nm
        n_acc = 0
        for o in outs:
            acc = [e for e in o.state.events if (e.kind == 'assign' and e.name in assigned and e.name in pst.env) or
                   (e.kind == 'call' and e.name == 'append')]
            if not acc:
                continue
            n_acc += 1
            guard = any(repr(c).startswith('not ') and 'isnan(%s)' % vr(elem) in repr(c) for c, _ in o.state.conds)
            ctx.check(guard, 'C19.A', f, '%s: a value enters the accumulator only after the NaN test on that value' % name,
                      witness={'updates': [repr(e)[:80] for e in acc], 'path conditions': [repr(c) for c, _ in o.state.conds]}, node=lo,
                      key=name + ':nanskip')
        if n_acc == 0:
            raise shape_error('%s: no accumulating path' % name, f.loc(lo))
        # empty / all-NaN answer
        w2 = Walker(f, loop_mode='skip')
        full = [o for o in w2.run(body, State()) if o.kind == 'return']
        if name in ('co_count', 'co_sum'):
            ok = all(isinstance(s_, Rat) and s_.isconst() and s_.constval() == 0 for s_ in seeds.values()) and len(seeds) >= 1
            ctx.check(ok, 'C19.A', f, '%s of no (non-NaN) value is 0' % name, witness={'seeds': {k: vr(v) for k, v in seeds.items()}}, node=f.node,
                      key=name + ':empty')
        elif name in ('co_min', 'co_max'):
            ok = any(vr(v) in ('NAN', 'nan') for v in seeds.values())
            ctx.check(ok, 'C19.A', f, '%s of no (non-NaN) value is NaN (the accumulator starts as NaN)' % name,
                      witness={'seeds': {k: vr(v) for k, v in seeds.items()}}, node=f.node, key=name + ':empty')
        else:
            nanret = [o for o in full if vr(o.value) in ('NAN', 'nan')]
            zero_guard = any(any(c.kind == 'cmp' and c.op == '==' and ((isinstance(c.b, Rat) and c.b.isconst() and c.b.constval() == 0) or
                                                                       (isinstance(c.a, Rat) and c.a.isconst() and c.a.constval() == 0))
                                 and "'" in repr(c) for c, _ in o.state.conds) for o in nanret)
            ctx.check(zero_guard, 'C19.A', f, '%s answers NaN when no non-NaN value is left (count of kept values == 0 is tested after the scan)' % name,
                      witness={'NaN returns': [[repr(c) for c, _ in o.state.conds] for o in nanret]}, node=f.node, key=name + ':empty')
    # median: same order statistics as documented (odd -> middle, even -> mean of the two middle ones)
    f = ctx.prog.func(UT + '.co_median')
    fb = body_nodocstring(f)
    fl = [k for k, s_ in enumerate(fb) if isinstance(s_, ast.For)]
    if not fl:
        raise shape_error('co_median: loops not found', f.loc())
    last = fb[fl[-1]]
    sorted_names = {unparse(c.func.value) for c in ast.walk(last) if isinstance(c, ast.Call) and getattr(c.func, 'attr', None) == 'append'
                    and isinstance(c.func.value, ast.Name)}
    cnt = [s_.targets[0].id for s_ in fb if isinstance(s_, ast.Assign) and isinstance(s_.targets[0], ast.Name) and unparse(s_.value).startswith('len(')]
    if len(sorted_names) != 1 or not cnt:
        raise shape_error('co_median: sorted list / count of kept values not found', f.loc())
    sname = sorted_names.pop()
    tail = fb[fl[-1] + 1:]
    bad = None
    for n in range(1, 9):
        env = {cnt[-1]: n, sname: [10 * k for k in range(n)]}
        try:
            kind, val = orders.run_block(tail, env, {})
        except orders.Unsupported as e:
            raise shape_error('co_median: selection of the middle element(s) not interpretable: %s' % e, f.loc())
        want = 10 * ((n - 1) // 2) if n % 2 == 1 else 0.5 * (10 * (n // 2 - 1) + 10 * (n // 2))
        if kind != 'return' or val != want:
            bad = {'count of kept values': n, 'sorted values': env[sname], 'returned': val, 'expected': want}
            break
    ctx.check(bad is None, 'C19.A', f, 'median: odd count -> middle element, even count -> mean of the two middle elements (counts 1..8 of the sorted kept values)',
              witness=bad, node=f.node, key='median-index')


def rule_N(ctx):
    """C19.N / C19.D NaN -> no-data, aggregate dispatched by name"""
    f = ctx.prog.func(RAS + '.Raster.computeAggregates')
    w = Walker(f, loop_mode='once')
    outs = list(w.run(body_nodocstring(f), State()))
    import re
    stores = [e for o in outs for e in o.state.events if e.kind == 'store' and re.search(r'\.grid\[\w+\]$', e.name)]
    nod = [e for e in stores if vr(e.value) in ('NO_DATA_VALUE', 'self.getNoDataValue()', 'self.__noDataValue')]
    val = [e for e in stores if e not in nod]
    okn = bool(nod) and all(any('isnan(' in repr(c) and not repr(c).startswith('not ') for c, _ in e.conds) for e in nod)
    okv = bool(val) and all(any(repr(c).startswith('not ') and 'isnan(' in repr(c) for c, _ in e.conds) for e in val)
    ctx.check(okn and okv, 'C19.N', f, 'a NaN aggregate is stored as the no-data value, any other aggregate as itself',
              witness={'stores': [repr(e)[:100] for e in stores]}, node=f.node, key='nodata')
    evs = [e for o in outs for e in o.state.events]
    evals = [e for e in evs if e.kind == 'call' and e.name == 'eval' and e.args]
    seen = set()
    evals = [e for e in evals if not (id(e.node) in seen or seen.add(id(e.node)))]
    if len(evals) != 1:
        raise shape_error('computeAggregates: the aggregate is not applied by one eval(...) call', f.loc())
    at = vr(evals[0].args[0])
    import re
    m_ = re.search(r"'\((\w+)\)'", at)
    src = [e for e in evs if m_ and e.kind == 'assign' and e.name == m_.group(1) and e.seq < evals[0].seq]
    mk = re.match(r"^\((.+\.getName\(\)\.split\('#'\))\[1\] Add '\(\w+\)'\)$", at)
    keyt = mk.group(1) if mk else None
    cells = set()
    for e in stores:
        m2 = re.search(r'\.grid\[(\w+)\]$', e.name)
        if m2 and re.match(r'^\w+$', vr(e.index)):
            cells.add((m2.group(1), vr(e.index)))
    okd = m_ is not None and keyt is not None and bool(src) and len(cells) == 1 and \
        all(vr(e.value) == 'self.collectionValuesGrid[%s[0]][%s][%s]' % ((keyt,) + tuple(cells)[0]) for e in src)
    ctx.check(okd, 'C19.D', f,
              'the aggregate applied to cell (i,j) of feature F is the function named after # in the map key, on the values scattered for F in that cell',
              witness={'evaluated text': at, 'values': sorted({vr(e.value) for e in src}),
                       'expected values': 'self.collectionValuesGrid[<name before #>][i][j]'}, node=evals[0].node, key='dispatch')
    g = ctx.prog.func(RAS + '.AFMap.getMeasureName')
    tg = unparse(g.node)
    ctx.recognise(tg.count("'#' + aggregate.__name__") >= 3, 'C19.D', g, 'map keys are <feature>#<aggregate function name>',
              witness={}, node=g.node, key='key')
    m = ctx.prog.module(RAS)
    imported = set()
    for imp in m.imports:
        if isinstance(imp, ast.ImportFrom):
            imported |= {a.name for a in imp.names}
    missing = [c for c in CO if c not in imported]
    ctx.check(not missing, 'C19.D', f, 'every built-in aggregate name resolves in raster.py (where eval runs)',
              witness={'not imported': missing}, node=f.node, key='imports')


def rule_G(ctx):
    """C19.G the cell aggregators, Raster.getCell and the scatter / aggregate pipeline interpreted on configuration classes:
    NaN patterns of the value lists, points inside / on the borders / at the corners of the cells of grids whose extent is or is not a
    whole number of cells, collections of several tracks (same uid included) with several maps over the same feature"""
    import itertools
    import math
    from .. import absint, orders, npstub
    UT = 'tracklib.core.utils'
    RAS = 'tracklib.core.raster'
    fg = ctx.prog.func(RAS + '.Raster.getCell')
    fa = ctx.prog.func(RAS + '.Raster.addCollectionToRaster')
    NANV = float('nan')
    fn = absint.funcs(ctx, RAS, dict(npstub.stubs()))
    fn['__globals__']['NAN'] = NANV
    R = absint.classref(ctx, RAS + '.Raster', fn)
    if RAS + '.AFMap' in ctx.prog.classes:
        absint.classref(ctx, RAS + '.AFMap', fn)
    found = {}
    n_cases = 0

    def isn(v):
        return isinstance(v, float) and v != v

    def same(a, b):
        if isn(b):
            return isn(a)
        return isinstance(a, (int, float)) and not isinstance(a, bool) and not isn(a) and abs(a - b) <= 1e-9 * max(1.0, abs(b))
    # ---- (1) the aggregators
    def median(vs):
        s_ = sorted(vs)
        n = len(s_)
        return s_[n // 2] if n % 2 else (s_[n // 2 - 1] + s_[n // 2]) / 2.0
    oracle = {
        'co_count': lambda vs: len(vs), 'co_sum': lambda vs: sum(vs) if vs else 0,
        'co_min': lambda vs: min(vs) if vs else NANV, 'co_max': lambda vs: max(vs) if vs else NANV,
        'co_avg': lambda vs: sum(vs) / len(vs) if vs else NANV, 'co_median': lambda vs: median(vs) if vs else NANV,
    }
    # the NaN values of the data are NOT the module's NAN object (NaN read from a file, produced by arithmetic or by numpy is another object)
    DNAN = float('nan')
    assert DNAN is not NANV
    lists = [list(t_) for L in range(0, 6 if ctx.tier == 'thorough' else 5) for t_ in itertools.product((DNAN, 0.0, 3.0, -2.0), repeat=L)]
    lists += [[1.0, 3.0, -2.0], [-4.0, 0.0, -1.5], [0.0, -0.0, 0.0], [-1.0, -3.0], [2.0, 2.0, 2.0], [0, 5, -5], [1e-300, 0.0, -1e-300]]
    lists += [[NANV, 1.0, DNAN], [NANV], [NANV, NANV, 2.0]]
    for name, orc in oracle.items():
        f = ctx.prog.maybe_func(UT + '.' + name)
        if f is None:
            raise anchor_error('aggregator %s not found' % name, UT)
        call = orders.make_func(f.node, absint.funcs(ctx, UT, {'NAN': NANV}))
        bad = None
        for xs in lists:
            n_cases += 1
            arg = list(xs)
            try:
                got = call(arg)
            except orders.Unsupported as ex:
                raise shape_error('%s not interpretable: %s' % (name, ex), f.loc())
            except orders.PROGRAM_ERRORS as ex:
                got = '%s: %s' % (type(ex).__name__, ex)
            want = orc([v for v in xs if not isn(v)])
            if len(arg) != len(xs) or any(not (a_ == b_ or (isn(a_) and isn(b_))) for a_, b_ in zip(arg, xs)):
                bad = {'values': [None if isn(v) else v for v in xs], 'the list afterwards': [None if isn(v) else v for v in arg],
                       'why': 'the value list of a cell is shared by all the aggregates computed on that feature: an aggregator must leave it as it was'}
                break
            if not same(got, want):
                bad = {'values': [None if isn(v) else v for v in xs], 'returned': None if isn(got) else got, 'expected': None if isn(want) else want}
                break
        ctx.check(bad is None, 'C19.A', f, '%s ignores NaN wherever it stands and answers the empty aggregate when no value is left (%d value lists)' % (name, len(lists)),
                  witness=bad, node=f.node, key='agg:' + name)
    # ---- (2) getCell: the cell returned contains the point
    # the extent is the repository's own Bbox over its own ENUCoords corners (dimensions, margins and copies are the code's)
    BBc = absint.classref(ctx, 'tracklib.core.bbox.Bbox', fn)
    ENc = absint.classref(ctx, 'tracklib.core.obs_coords.ENUCoords', fn)

    def Bb(xmin, xmax, ymin, ymax):
        return BBc(ENc(float(xmin), float(ymin), 0.0), ENc(float(xmax), float(ymax), 0.0))

    def P(x, y):
        return ENc(float(x), float(y), 0.0)             # the repository's own ENUCoords
    grids = [('extent 3 x 2 cells exactly', (0.0, 30.0, 0.0, 20.0), (10.0, 10.0)),
             ('extent not a whole number of rows (height 25, cells of 10)', (0.0, 30.0, 0.0, 25.0), (10.0, 10.0)),
             ('extent not a whole number of columns (width 24, cells 10 x 5)', (100.0, 124.0, -10.0, 0.0), (10.0, 5.0)),
             ('one cell', (0.0, 8.0, 0.0, 8.0), (10.0, 10.0)),
             ('cells wider than high (20 x 4)', (0.0, 40.0, 0.0, 12.0), (20.0, 4.0)),
             ('height a few last-place units above 3 rows of 1', (0.0, 3.0, 0.0, 3.0 + 2.0 ** -32), (1.0, 1.0)),
             ('width a few last-place units above 2 columns of 0.1', (0.0, 0.2 + 2.0 ** -40, 0.0, 0.3), (0.1, 0.1))]
    bad = None
    for gname, ext, res in grids:
        try:
            r = R(Bb(*ext), res, 0.0)
        except orders.Unsupported as ex:
            raise shape_error('Raster() not interpretable: %s' % ex, fg.loc())
        ncol, nrow = r.fields.get('ncol'), r.fields.get('nrow')
        xmin, xmax, ymin, ymax = ext
        rx, ry = res
        # (probes a hair inside a cell, next to each border: 1e-10 of a cell away from it)
        hair_x = {v_ for v_ in (xmin + k * rx + d_ * rx for k in range(1, 6) if xmin + k * rx < xmax for d_ in (1e-10, -1e-10)) if xmin < v_ < xmax}
        hair_y = {v_ for v_ in (ymin + k * ry + d_ * ry for k in range(1, 6) if ymin + k * ry < ymax for d_ in (1e-10, -1e-10)) if ymin < v_ < ymax}
        xs_ = sorted(hair_x | {xmin, xmax} | {xmin + k * rx for k in range(1, 6) if xmin + k * rx < xmax} | {xmin + (k + 0.5) * rx for k in range(6) if xmin + (k + 0.5) * rx < xmax} | {xmax - 0.025 * rx})
        ys_ = sorted(hair_y | {ymin, ymax} | {ymin + k * ry for k in range(1, 6) if ymin + k * ry < ymax} | {ymin + (k + 0.5) * ry for k in range(6) if ymin + (k + 0.5) * ry < ymax} | {ymax - 0.025 * ry})
        for x in xs_:
            for y in ys_:
                n_cases += 1
                try:
                    cell = r.call('getCell', P(x, y))
                except orders.Unsupported as ex:
                    raise shape_error('getCell not interpretable: %s' % ex, fg.loc())
                except orders.PROGRAM_ERRORS as ex:
                    cell = '%s: %s' % (type(ex).__name__, ex)
                ok = isinstance(cell, tuple) and len(cell) == 2 and all(isinstance(c, int) and not isinstance(c, bool) for c in cell)
                why = 'a point of the extent gets a (column, row) pair'
                if ok:
                    col, row = cell
                    ok = 0 <= col < ncol and 0 <= row < nrow
                    why = 'the cell is inside the grid (%d columns x %d rows)' % (ncol, nrow)
                if ok:
                    k = nrow - 1 - row
                    sx_, sy_ = 1e-12 * max(abs(xmin), abs(xmax), rx), 1e-12 * max(abs(ymin), abs(ymax), ry)       # (rounding of the cell borders themselves)
                    ok = xmin + col * rx - sx_ <= x <= xmin + (col + 1) * rx + sx_ and ymin + k * ry - sy_ <= y <= ymin + (k + 1) * ry + sy_
                    why = 'the footprint of the cell contains the point (rows are counted from the top, the bottom row starts at ymin)'
                if not ok and bad is None:
                    bad = {'grid': gname, 'extent (xmin, xmax, ymin, ymax)': list(ext), 'cell size': list(res), 'point': [x, y], 'cell returned (column, row)': list(cell) if isinstance(cell, tuple) else cell, 'violated': why}
    ctx.check(bad is None, 'C19.C', fg, 'getCell: every point of the extent (cell interiors, cell borders, corners, extent borders) gets a cell of the grid whose footprint contains it (%d grids)' % len(grids),
              witness=bad, node=fg.node, key='getCell')
    # ---- (3) scatter + aggregate
    # tracks and the collection are the repository's own Track / TrackCollection / Obs objects
    Tc = absint.classref(ctx, 'tracklib.core.track.Track', fn)
    TCc = absint.classref(ctx, 'tracklib.core.track_collection.TrackCollection', fn)

    tr_count = [0]

    def Tr(uid, pts, feats):
        t_ = Tc([absint.real_obs(ctx, fn, P(*p_)) for p_ in pts], uid, 't')
        tr_count[0] += 1
        # every other track carries another feature created FIRST: the summarised feature is not at the same rank in all tracks
        if tr_count[0] % 2 == 0:
            t_.call('createAnalyticalFeature', 'other', [-777.0] * len(pts))
        for nm_, vals_ in feats.items():
            t_.call('createAnalyticalFeature', nm_, list(vals_))
        if tr_count[0] % 2 == 1:
            t_.call('createAnalyticalFeature', 'other', [-777.0] * len(pts))
        return t_

    def Coll(tracks):
        return TCc(list(tracks))
    ext, res = (0.0, 30.0, 0.0, 20.0), (10.0, 10.0)
    layouts = {
        'two tracks with different uids': [(1, [(5, 5), (15, 5), (15, 15), (25, 15)], [1.0, 2.0, DNAN, 4.0]), (2, [(5, 5), (5, 15), (25, 15)], [10.0, 20.0, 30.0])],
        'three tracks sharing one uid, their i-th fixes in different cells': [(0, [(5, 5), (15, 5)], [1.0, 2.0]), (0, [(25, 15), (5, 15)], [5.0, 7.0]), (0, [(15, 15), (15, 15)], [DNAN, 9.0])],
        'values that are zero (0.0, -0.0, the integer 0) next to others': [(1, [(5, 5), (5, 6), (15, 5), (25, 15)], [0.0, 3.0, 0, -0.0]), (2, [(5, 5), (15, 5), (25, 15), (25, 16)], [0.0, 0.0, 2.0, -2.0])],
        # (the cell of a fix on a border is the one getCell gives it - decided by C19.C -, whatever cell the fix before it fell in)
        'consecutive fixes, the later one on the right border, the upper border or a corner of the cell of the one before': [(1, [(5, 5), (10, 5), (10, 10), (20, 10), (15, 10), (15, 5)], [1.0, 2.0, 4.0, 8.0, 16.0, 32.0]),
                                                                                                                            (2, [(25, 5), (25, 10), (20, 15), (20, 20), (30, 20)], [3.0, 5.0, 7.0, 9.0, 11.0])],
    }
    uid_aggs = ['co_count', 'co_sum', 'co_max']
    aggs = ['co_median', 'co_count', 'co_sum', 'co_min', 'co_max', 'co_avg']      # the median first: the later maps read the same per-cell lists
    nodata = ctx.prog.module(RAS).consts.get('NO_DATA_VALUE')
    nodata = -nodata.operand.value if isinstance(nodata, ast.UnaryOp) else (nodata.value if isinstance(nodata, ast.Constant) else -99999.0)
    bad = None
    for lname, tracks in layouts.items():
        n_cases += 1
        try:
            r = R(Bb(*ext), res, 0.0)
            for ag in aggs:
                r.call('addAFMap', 'v#' + ag)
            # the pseudo-feature 'uid' (the identifier of the track of each observation) under a multiplicity-sensitive aggregate
            for ag in uid_aggs:
                r.call('addAFMap', 'uid#' + ag)
            coll = Coll([Tr(uid, pts, {'v': vals}) for uid, pts, vals in tracks])
            r.call('addCollectionToRaster', coll)
            r.call('computeAggregates')
            maps = {ag: r.call('getAFMap', 'v#' + ag).fields['grid'] for ag in aggs}
            umaps = {ag: r.call('getAFMap', 'uid#' + ag).fields['grid'] for ag in uid_aggs}
        except orders.Unsupported as ex:
            raise shape_error('raster pipeline not interpretable: %s' % ex, fa.loc())
        except orders.PROGRAM_ERRORS as ex:
            bad = bad or {'collection': lname, 'exception': '%s: %s' % (type(ex).__name__, str(ex)[:200])}
            continue
        cells, ucells = {}, {}
        r0 = R(Bb(*ext), res, 0.0)
        for uid, pts, vals in tracks:
            for (x, y), v in zip(pts, vals):
                col, k = int(x // 10), int(y // 10)
                key_ = (col, 2 - 1 - k)
                if x % 10 == 0 or y % 10 == 0:
                    try:
                        c_ = r0.call('getCell', P(x, y))
                    except orders.Unsupported as ex:
                        raise shape_error('Raster.getCell not interpretable: %s' % ex, fa.loc())
                    key_ = (int(c_[0]), int(c_[1])) if isinstance(c_, tuple) and len(c_) == 2 else key_
                cells.setdefault(key_, []).append(v)
                ucells.setdefault(key_, []).append(uid)
        for row in range(2):
            for col in range(3):
                us = ucells.get((col, row), [])
                for ag in uid_aggs:
                    want = oracle[ag]([float(u) for u in us])
                    if isn(want):
                        want = nodata
                    got = umaps[ag][row][col]
                    if not same(got, want) and bad is None:
                        bad = {'collection': lname, 'tracks (uid, positions)': [[uid, [list(p_) for p_ in pts]] for uid, pts, vals in tracks],
                               'cell (column, row)': [col, row], 'aggregate': 'uid#' + ag, 'stored': got, 'expected': want,
                               'uids of the observations lying in that cell (one per observation)': us}
                vs = [v for v in cells.get((col, row), []) if not isn(v)]
                for ag in aggs:
                    want = oracle[ag](vs)
                    if isn(want):
                        want = nodata
                    got = maps[ag][row][col]
                    if not same(got, want) and bad is None:
                        bad = {'collection': lname, 'tracks (uid, positions, values of v)': [[uid, [list(p_) for p_ in pts], [None if isn(v) else v for v in vals]] for uid, pts, vals in tracks],
                               'cell (column, row)': [col, row], 'aggregate': ag, 'stored': got, 'expected': want,
                               'values of the observations lying in that cell': vs}
    ctx.check(bad is None, 'C19.S', fa, 'scatter and aggregate: every observation is counted once per feature in the cell that contains it, whatever the number of maps over '
              'that feature and the uids of the tracks; each map holds the requested aggregate of its cell, no-data where no value is left', witness=bad, node=fa.node, key='pipeline')
    ctx.extra['C19.G cases'] = n_cases


RULES = [
    ('C19.G', rule_G, 'quick'),
]
MIN_OBLIGATIONS = 8
