"""C09 - hidden-Markov (Viterbi) decoding (tracklib/algo/dynamics.py, HMM.estimate)."""
import ast

from ..alg import Rat
from ..loader import shape_error, anchor_error
from ..sx import Walker, State
from ..util import body_nodocstring, names_stored, unparse
from .c18 import _resolve_range

HMM = 'tracklib.algo.dynamics.HMM'

EXPLANATION = (
    'Static analysis by interpretation of the source (nothing imported or executed by CPython): the decoder is walked by tlint.orders in plain and log mode; the decoded sequence must consist of candidate states of each epoch and attain the maximum joint likelihood found by enumeration, the cost recorded at the last epoch must be the optimal cost, and the model functions must only be asked for states / observations of the right epoch.')
ASSUMPTIONS = ["the optimum of the recurrence is the optimum over sequences (textbook induction, not re-proved)"]
TECHNIQUE = "abstract interpretation of HMM.estimate / Qlog / Plog by the checker's AST interpreter on ~560 small models (every weak ordering of the four sequence costs of a 2x2 model, every sequence of three-epoch models with 1..3 states per epoch the unique optimum in turn, zero / one / tiny likelihoods, reuse of decoder and track, log switch given as 0 / 1 / numpy.bool_, the seven observation / position modes with multi-dimensional observations), against enumeration of all state sequences (bounded case domain)"


def vr(v):
    """text of a value; the numbering of names made unknown by an earlier loop (TAB'3) is dropped: the tables are filled by
    the loops that precede their use"""
    import re
    if isinstance(v, Rat):
        a = v.single_atom()
        return re.sub(r"'\d+", '', a if a is not None else repr(v))
    return re.sub(r"'\d+", '', repr(v))


def _strip_logging(stmts):
    """drop trace statements: calls to print*/printTrace/printSeparator and the message strings they print"""
    lognames = set()
    for s in stmts:
        for n in ast.walk(s):
            if isinstance(n, ast.Call) and (getattr(n.func, 'attr', None) in ('printTrace', 'printSeparator') or
                                            getattr(n.func, 'id', None) == 'print'):
                for a in n.args:
                    if isinstance(a, ast.Name):
                        lognames.add(a.id)

    def keep(s):
        if isinstance(s, ast.Expr) and isinstance(s.value, ast.Call) and \
                (getattr(s.value.func, 'attr', None) in ('printTrace', 'printSeparator') or getattr(s.value.func, 'id', None) == 'print'):
            return False
        if isinstance(s, (ast.Assign, ast.AugAssign)):
            t = s.targets[0] if isinstance(s, ast.Assign) else s.target
            if isinstance(t, ast.Name) and t.id in lognames:
                return False
        return True
    out = []
    for s in stmts:
        if not keep(s):
            continue
        if isinstance(s, (ast.For, ast.While)):
            s2 = type(s)(**{k: getattr(s, k) for k in s._fields})
            s2.body = _strip_logging(s.body)
            ast.copy_location(s2, s)
            out.append(s2)
        else:
            out.append(s)
    return out


def _estimate(ctx):
    f = ctx.prog.func(HMM + '.estimate')
    body = _strip_logging(body_nodocstring(f))
    # forward epoch loop: a for whose body contains a for containing a for
    fwd = None
    for s in body:
        if isinstance(s, ast.For):
            l2 = [x for x in s.body if isinstance(x, ast.For)]
            if l2 and any(isinstance(y, ast.For) for y in l2[0].body):
                fwd = (s, l2[0], [y for y in l2[0].body if isinstance(y, ast.For)][0])
    if fwd is None:
        raise shape_error('HMM.estimate: forward triple loop not found', f.loc())
    return f, body, fwd


def rule_I(ctx):
    """C09.I / C09.S / C09.B forward recursion"""
    f, body, (lk, ll, lm) = _estimate(ctx)
    kv, lv, mv = lk.target.id, ll.target.id, lm.target.id
    w = Walker(f, loop_mode='skip')
    track = f.params[1]
    # names of the tables: from the stores in the l-body
    st = State({kv: Rat.atom(kv), lv: Rat.atom(lv), mv: Rat.atom(mv)})
    # epoch-level prefix (y = OBS[k], ...)
    pre_k = [s for s in lk.body if s is not ll and not isinstance(s, ast.If)]
    stk = [o for o in w.run(pre_k, st) if o.kind == 'fall']
    if not stk:
        raise shape_error('epoch prologue', f.loc(lk))
    stl = stk[0].state
    pre_m = ll.body[:ll.body.index(lm)]
    post_m = ll.body[ll.body.index(lm) + 1:]
    s1 = [o for o in w.run(pre_m, stl) if o.kind == 'fall']
    if len(s1) != 1:
        raise shape_error('state-loop prologue is not straight-line', f.loc(ll))
    stm = s1[0].state
    init_env = dict(stm.env)
    # ---- inner loop body -------------------------------------------------------
    assigned = sorted(names_stored(lm.body))
    stb = stm.fork()
    stb.events = []
    stb.conds = []
    for v in assigned:
        stb.env[v] = Rat.atom(v + '@')
    stb.env[mv] = Rat.atom(mv)
    outs = list(w.run(lm.body, stb))
    upd_paths = []
    qcall = None
    for o in outs:
        ch = {e.name: e for e in o.state.events if e.kind == 'assign' and isinstance(stm.env.get(e.name), Rat)
              and e.name in init_env and e.name in assigned}
        for e in o.state.events:
            if e.kind == 'call' and e.name == 'Qlog':
                qcall = e
        # accumulators = names initialised before the loop and assigned inside
        if ch:
            upd_paths.append((o, ch))
    if qcall is None:
        raise shape_error('forward step does not call Qlog', f.loc(lm))
    every = None
    for o in outs:
        if not any(e.kind == 'call' and e.name == 'Qlog' for e in o.state.events):
            ctx.violation('C09.B', f, 'every candidate of epoch k-1 is compared as predecessor: no path through the predecessor loop skips the comparison',
                          {'conditions of the skipping path': [repr(c) for c, _ in o.state.conds], 'leaves by': o.kind,
                           'why': 'the cost through a skipped predecessor may still be the smallest (the transition term is not known to be non-negative)'},
                          node=o.node if o.node is not None else lm, key='skip-pred')
            continue
        names = {e.name for e in o.state.events if e.kind == 'assign'}
        every = names if every is None else (every & names)
    upd_paths = [(o, {n: e for n, e in ch.items() if n not in every}) for o, ch in upd_paths]
    upd_paths = [(o, ch) for o, ch in upd_paths if ch]
    accs = sorted({n for _, ch in upd_paths for n in ch})
    if len(accs) != 2:
        raise shape_error('forward step: expected two co-updated accumulators (best value, best predecessor), found %s' % accs,
                          f.loc(lm))
    # which accumulator holds the value: the one compared in the guard
    o0, ch0 = upd_paths[0]
    vals = {n: ch0[n].value for n in accs if n in ch0}
    STATES = None
    a0 = qcall.args
    s1t, s2t = vr(a0[0]), vr(a0[1])
    # table names from the texts: X[-1 + k][m]
    import re
    m1 = re.match(r'^(\w+)\[(.+)\]\[(.+)\]$', s1t)
    m2 = re.match(r'^(\w+)\[(.+)\]\[(.+)\]$', s2t)
    if not m1 or not m2:
        raise shape_error('Qlog arguments are not STATES[epoch][state] reads: %s, %s' % (s1t, s2t), f.loc(qcall.node))
    km1 = repr(Rat.atom(kv) - Rat.const(1))
    ctx.check(m1.group(1) == m2.group(1) and m1.group(2) == km1 and m1.group(3) == mv and
              m2.group(2) == kv and m2.group(3) == lv, 'C09.I', f,
              'transition is evaluated from candidate m of epoch k-1 to candidate l of epoch k',
              witness={'from': s1t, 'to': s2t}, node=qcall.node, key='trans-states')
    ctx.check(len(a0) >= 4 and isinstance(a0[2], Rat) and w.rel.is_zero(a0[2] - (Rat.atom(kv) - Rat.const(1))) and
              vr(a0[3]) == track, 'C09.I', f,
              'the transition model is evaluated at the epoch of the predecessor (k-1) on the same track',
              witness={'epoch argument': vr(a0[2]) if len(a0) > 2 else None}, node=qcall.node, key='trans-epoch')
    # candidate value = -Qlog + TAB_VAL[k-1][m]
    valname = None
    for o, ch in upd_paths:
        for n in accs:
            if n in ch and isinstance(ch[n].value, Rat) and qcall.value in ch[n].value.atoms():
                valname = n
    if valname is None:
        raise shape_error('forward step: best value is not updated from the transition cost', f.loc(lm))
    antname = [n for n in accs if n != valname][0]
    cand = None
    sign_q = None
    for o, ch in upd_paths:
        pathtxt = [repr(c) for c, _ in o.state.conds]
        missing = [n for n in accs if n not in ch]
        if missing:
            ctx.violation('C09.B', f, 'best value and back-pointer are updated together',
                          {'not updated on this path': missing, 'path conditions': pathtxt}, node=lm, key='coupdate')
            continue
        cand = ch[valname].value
        qa = Rat.atom(qcall.value)
        co = cand.n.coeff(qcall.value, 1) if cand.ispoly() else None
        rest = cand - qa * Rat(co) if co is not None else None
        okc = co is not None and co.isconst() and abs(co.constval()) == 1 and rest is not None and \
            vr(rest) in ('%s[%s][%s]' % (t, km1, mv) for t in _tables(rest))
        sign_q = int(co.constval()) if co is not None and co.isconst() else None
        ctx.check(okc, 'C09.I', f,
                  'candidate cost = (+/-)log-transition + accumulated cost of the SAME predecessor (epoch k-1, state m)',
                  witness={'candidate': repr(cand), 'expected accumulated term': 'TAB_VAL[%s][%s]' % (km1, mv)}, node=lm,
                  key='cand')
        ctx.check(isinstance(ch[antname].value, Rat) and ch[antname].value.single_atom() == mv, 'C09.B', f,
                  'the back-pointer recorded is the predecessor index m whose cost was just accepted',
                  witness={'recorded': repr(ch[antname].value)}, node=lm, key='ant')
        # guard: cand < best (min) or cand > best (max)
        g = None
        for c, _ in o.state.conds:
            for cj in c.conjuncts():
                if cj.kind == 'cmp' and cj.op in ('<', '<=') and isinstance(cj.a, Rat) and isinstance(cj.b, Rat):
                    if w.rel.is_zero(cj.a - cand) and vr(cj.b) == valname + '@':
                        g = 'min'
                    if w.rel.is_zero(cj.b - cand) and vr(cj.a) == valname + '@':
                        g = 'max'
        ctx.check(g is not None, 'C09.B', f, 'the update is guarded by a comparison of the candidate with the current best',
                  witness={'path conditions': pathtxt}, node=lm, key='guard')
        direction = g
    if cand is None:
        return
    # ---- after the inner loop: emission and stores --------------------------------
    sta = stm.fork()
    sta.events = []
    for v in assigned:
        sta.env[v] = Rat.atom(v + '!')
    oa = [o for o in w.run(post_m, sta) if o.kind == 'fall']
    if len(oa) != 1:
        raise shape_error('state-loop epilogue is not straight-line', f.loc(ll))
    evs = oa[0].state.events
    pcall = [e for e in evs if e.kind == 'call' and e.name == 'Plog']
    stores = [e for e in evs if e.kind == 'store']
    if len(pcall) != 1 or len(stores) != 2:
        raise shape_error('state-loop epilogue: expected one Plog call and two table stores', f.loc(ll))
    pa = pcall[0].args
    obs_t = vr(pa[1])
    ctx.check(vr(pa[0]) == s2t and re.match(r'^\w+\[%s\]$' % re.escape(kv), obs_t) is not None and
              isinstance(pa[2], Rat) and w.rel.is_zero(pa[2] - Rat.atom(kv)) and vr(pa[3]) == track, 'C09.I', f,
              'the emission is evaluated for candidate l of epoch k, the observation of epoch k, at epoch k',
              witness={'arguments': [vr(x) for x in pa]}, node=pcall[0].node, key='emission')
    sv = [e for e in stores if isinstance(e.value, Rat) and (valname + '!') in e.value.atoms()]
    sp = [e for e in stores if isinstance(e.value, Rat) and e.value.single_atom() == antname + '!']
    okst = len(sv) == 1 and len(sp) == 1 and all(vr(e.index) == lv and e.name.endswith('[%s]' % kv) for e in stores)
    ctx.check(okst, 'C09.B', f, 'cost and back-pointer of (epoch k, state l) are both stored at [k][l]',
              witness={'stores': [repr(e) for e in stores]}, node=ll, key='stores')
    sign_p = None
    if sv:
        v = sv[0].value
        co = v.n.coeff(pcall[0].value, 1) if v.ispoly() else None
        rest = v - Rat.atom(pcall[0].value) * Rat(co) if co is not None else None
        okv = co is not None and co.isconst() and abs(co.constval()) == 1 and rest is not None and vr(rest) == valname + '!'
        sign_p = int(co.constval()) if co is not None and co.isconst() else None
        ctx.check(okv, 'C09.I', f, 'stored cost = best accumulated candidate (+/-) log-emission',
                  witness={'stored': repr(v)}, node=sv[0].node, key='stored')
    # initial values of the accumulators
    iv = init_env.get(valname)
    big = isinstance(iv, Rat) and iv.isconst() and abs(iv.constval()) >= 10 ** 100
    okinit = big and ((direction == 'min' and iv.constval() > 0) or (direction == 'max' and iv.constval() < 0))
    ctx.check(okinit, 'C09.B', f, 'the running best starts beyond any attainable cost (so the first predecessor is always accepted)',
              witness={'initial': repr(iv), 'selection': direction}, node=ll, key='init-best')
    # ---- first epoch ------------------------------------------------------------------
    vt = sv[0].name.split('[')[0] if sv else None
    init_loops = [s for s in body[:body.index(lk)] if isinstance(s, ast.For) and
                  any(isinstance(x, ast.Call) and getattr(x.func, 'attr', None) == 'Plog' for x in ast.walk(s))]
    sign_i = None
    if len(init_loops) != 1:
        raise shape_error('HMM.estimate: initialisation of the first epoch not found', f.loc())
    il = init_loops[0]
    wi = Walker(f, loop_mode='skip')
    sti = wi.state_before(body, il) or State()
    sti.events = []
    sti.conds = []
    sti.env[il.target.id] = Rat.atom(il.target.id)
    for v_ in names_stored(il.body):
        sti.env[v_] = Rat.atom(v_ + '@')
    ri = wi.range_info(il.iter, sti.fork())
    io = [o for o in wi.run(il.body, sti) if o.kind == 'fall']
    pc = [e for e in io[0].state.events if e.kind == 'call' and e.name == 'Plog']
    stv = [e for e in io[0].state.events if e.kind == 'store' and isinstance(e.value, Rat) and pc and pc[0].value in e.value.atoms()]
    okI = len(pc) == 1 and len(stv) == 1
    if okI:
        a = pc[0].args
        lv0 = il.target.id
        okI = re.match(r'^\w+\[0\]\[%s\]$' % lv0, vr(a[0])) is not None and re.match(r'^\w+\[0\]$', vr(a[1])) is not None \
            and isinstance(a[2], Rat) and wi.rel.is_zero(a[2]) and stv[0].name.endswith('[0]') and vr(stv[0].index) == lv0
        co = stv[0].value.n.coeff(pc[0].value, 1)
        sign_i = int(co.constval()) if co.isconst() else None
        okI = okI and wi.rel.is_zero(stv[0].value - Rat.atom(pc[0].value) * Rat.const(sign_i or 0))
    ctx.check(okI, 'C09.I', f, 'first epoch: cost of candidate l = (+/-) log-emission of (state l of epoch 0, observation 0, epoch 0)',
              witness={'stores': [repr(e) for e in stv], 'call': [vr(x) for x in pc[0].args] if pc else None}, node=il, key='init')
    ctx.check(ri is not None and wi.rel.is_zero(ri[0]) and re.match(r'^len\(\w+\[0\]\)$', vr(ri[1])) is not None, 'C09.B', f,
              'every candidate of the first epoch is initialised', witness={'range': [vr(x) for x in ri] if ri else None},
              node=il, key='init-range')
    # ---- polarity -----------------------------------------------------------------------
    final = _final_selection(ctx, f, body, vt)
    signs = {'transition': sign_q, 'emission': sign_p, 'first epoch': sign_i}
    want = -1 if direction == 'min' else 1
    okpol = all(v == want for v in signs.values()) and final[0] == direction
    ctx.check(okpol, 'C09.S', f,
              'log-likelihood terms enter with the sign that matches the selection: all negated with min/argmin '
              '(or all positive with max/argmax)',
              witness={'signs of the log terms': signs, 'inner selection': direction, 'final selection': final[0]},
              node=lk, key='polarity')
    # ---- ranges -----------------------------------------------------------------------------
    rk = _resolve_range(f, lk.iter)
    rl = _resolve_range(f, ll.iter) or _range_via_body(lk, ll)
    wr = Walker(f, loop_mode='skip')
    okk = okl = okm = False
    if rk is not None:
        r = wr.range_info(rk, State())
        okk = wr.rel.is_zero(r[0] - Rat.const(1)) and vr(r[1]) in ('N', 'len(%s)' % track, '%s.size()' % track)
    if rl is not None:
        r = w.range_info(rl, stl.fork())
        okl = wr.rel.is_zero(r[0]) and re.match(r'^len\(\w+\[%s\]\)$' % kv, vr(r[1])) is not None
    r = w.range_info(lm.iter, stm.fork())
    if r is not None:
        okm = wr.rel.is_zero(r[0]) and re.match(r'^len\(\w+\[%s\]\)$' % re.escape(km1), vr(r[1])) is not None and \
            wr.rel.is_zero(r[2] - Rat.const(1))
    ctx.check(okk, 'C09.B', f, 'epochs 1 .. N-1 are all processed', witness={'range': unparse(rk) if rk else None}, node=lk, key='rk')
    ctx.check(okl, 'C09.B', f, 'every candidate of epoch k is filled', witness={'range': unparse(rl) if rl else None}, node=ll, key='rl')
    ctx.check(okm, 'C09.B', f, 'every candidate of epoch k-1 is considered as predecessor',
              witness={'range': [vr(x) for x in r] if r else unparse(lm.iter)}, node=lm, key='rm')
    ctx.extra['final_selection'] = final[1]


def _range_via_body(lk, ll):
    """state loop iterable defined inside the epoch loop body (possibly wrapped by a progress bar)"""
    it = ll.iter
    if not isinstance(it, ast.Name):
        return None
    for s in lk.body:
        if isinstance(s, ast.Assign) and isinstance(s.targets[0], ast.Name) and s.targets[0].id == it.id and \
                isinstance(s.value, ast.Call) and getattr(s.value.func, 'id', None) == 'range':
            return s.value
    return None


def _tables(r):
    import re
    out = set()
    for a in r.atoms():
        m = re.match(r'^(\w+)\[', a)
        if m:
            out.add(m.group(1))
    return out


def _final_selection(ctx, f, body, vt):
    """how the last state is chosen: ('min'|'max'|None, description); also checks coverage for hand-written scans"""
    import re
    for s in body:
        if isinstance(s, ast.Assign) and isinstance(s.value, ast.Call):
            fn = unparse(s.value.func)
            arg = ''
            if s.value.args and fn in ('np.argmin', 'np.argmax', 'numpy.argmin', 'numpy.argmax'):
                w0 = Walker(f, loop_mode='skip')
                st0 = w0.state_before(body, s) or State()
                arg = vr(w0.ex(s.value.args[0], st0))
            if fn in ('np.argmin', 'np.argmax', 'numpy.argmin', 'numpy.argmax') and re.match(r'^\w+\[-1\]$', arg):
                ctx.ok('C09.R', f, 'the final state is chosen by %s over the whole last column' % fn, node=s)
                return ('min' if fn.endswith('argmin') else 'max', unparse(s))
    # hand-written scan over the last column
    for s in body:
        if isinstance(s, ast.For) and any(isinstance(n, ast.Subscript) and re.match(r'^\w+\[-1\]$', unparse(n.value) or '')
                                          for n in ast.walk(s)):
            w = Walker(f, loop_mode='skip')
            idxs = body.index(s)
            j0 = idxs
            while j0 > 0 and isinstance(body[j0 - 1], ast.Assign) and isinstance(body[j0 - 1].targets[0], ast.Name):
                j0 -= 1
            pre = [o for o in w.run(body[j0:idxs], State()) if o.kind == 'fall']
            if not pre:
                break
            r = w.range_info(s.iter, pre[0].state)
            if r is None:
                break
            col = None
            for n in ast.walk(s):
                if isinstance(n, ast.Subscript) and re.match(r'^\w+\[-1\]$', unparse(n.value) or ''):
                    col = unparse(n.value)
            L = Rat.atom('len(%s)' % col)
            # indices covered: the initial index (a constant) plus [lo, hi)
            lo, hi, st_ = r
            init_idx = None
            st0 = pre[0].state
            iv = s.target.id
            sb = st0.fork()
            sb.events = []
            for v in names_stored(s.body):
                sb.env[v] = Rat.atom(v + '@')
            sb.env[iv] = Rat.atom(iv)
            direction = None
            idxname = None
            for o in w.run(s.body, sb):
                hit = False
                for e in o.state.events:
                    if e.kind == 'assign' and isinstance(e.value, Rat) and e.value.single_atom() == iv:
                        idxname = e.name
                        hit = True
                if not hit:
                    continue
                for c, _ in o.state.conds:
                    for cj in c.conjuncts():
                        if cj.kind == 'cmp' and cj.op in ('<', '<=') and isinstance(cj.a, Rat) and isinstance(cj.b, Rat):
                            if vr(cj.a) == '%s[%s]' % (col, iv):
                                direction = 'min'
                            elif vr(cj.b) == '%s[%s]' % (col, iv):
                                direction = 'max'
            if idxname is None or direction is None:
                break
            i0 = st0.env.get(idxname)
            covered_lo = w.rel.is_zero(lo) or (isinstance(i0, Rat) and w.rel.is_zero(i0) and w.rel.is_zero(lo - Rat.const(1)))
            covered_hi = w.rel.is_zero(hi - L)
            ctx.check(covered_lo and covered_hi, 'C09.R', f,
                      'the final selection considers every candidate of the last epoch',
                      witness={'initial index': vr(i0), 'scanned range': [vr(lo), vr(hi)], 'size of last column': vr(L),
                               'never considered': 'index %s' % vr(L - Rat.const(1)) if not covered_hi else 'index 0'},
                      node=s, key='final-scan')
            return (direction, 'scan ' + unparse(s.iter))
    raise shape_error('HMM.estimate: final state selection not understood', f.loc())


def rule_R(ctx):
    """C09.R backward reconstruction"""
    f, body, (lk, ll, lm) = _estimate(ctx)
    idxk = body.index(lk)
    back = [s for s in body[idxk + 1:] if isinstance(s, ast.For) and
            any(isinstance(n, ast.Call) and getattr(n.func, 'attr', None) == 'setObsAnalyticalFeature' for n in ast.walk(s))]
    if len(back) != 1:
        raise shape_error('HMM.estimate: backward loop not found', f.loc())
    bl = back[0]
    w = Walker(f, loop_mode='skip')
    r = w.range_info(bl.iter, State())
    track = f.params[1]
    okr = r is not None and vr(r[0] + Rat.const(1)) in ('N', 'len(%s)' % track, '%s.size()' % track) and \
        w.rel.is_zero(r[1] + Rat.const(1)) and w.rel.is_zero(r[2] + Rat.const(1))
    if r is not None and not okr:
        okr = w.rel.is_zero(r[0]) and vr(r[1]) in ('N', 'len(%s)' % track) and w.rel.is_zero(r[2] - Rat.const(1)) and False
    ctx.check(okr, 'C09.R', f, 'the backward pass visits every epoch from the last to the first',
              witness={'range': [vr(x) for x in r] if r else None}, node=bl, key='range')
    kv = bl.target.id
    assigned = sorted(names_stored(bl.body))
    st = w.state_before(body, bl) or State()
    st.events = []
    st.conds = []
    st.env.update({kv: Rat.atom(kv), f.params[4]: Rat.const(1)})       # mode = MODE_OBS_AS_2D_POSITIONS
    for v in assigned:
        st.env[v] = Rat.atom(v + '@')
    outs = [o for o in w.run(bl.body, st) if o.kind == 'fall']
    if len(outs) != 1:
        raise shape_error('backward loop body is not single-path for a non-position mode', f.loc(bl))
    o = outs[0]
    running = Walker.carried(outs, assigned)
    if len(running) != 1:
        raise shape_error('backward loop: expected one running index, found %s' % running, f.loc(bl))
    idk = running[0]
    sets = [e for e in o.state.events if e.kind == 'call' and e.name == 'setObsAnalyticalFeature']
    nxt = [e for e in o.state.events if e.kind == 'assign' and e.name == idk]
    import re
    okw = len(sets) == 2 and len(nxt) == 1
    if okw:
        v1, v2 = sets[0], sets[1]
        okw = all(isinstance(e.args[1], Rat) and e.args[1].single_atom() == kv for e in sets) and \
            re.match(r'^\w+\[%s\]\[%s@\]$' % (kv, idk), vr(v1.args[2])) is not None and \
            re.match(r'^\w+\[%s\]\[%s@\]$' % (kv, idk), vr(v2.args[2])) is not None and \
            {v1.args[0], v2.args[0]} == {'hmm_inference', 'hmm_cost'}
    ctx.check(okw, 'C09.R', f, 'epoch k receives the state and the cost read at (k, current index)',
              witness={'writes': [[vr(a) for a in e.args] for e in sets]}, node=bl, key='writes')
    okn = len(nxt) == 1 and re.match(r'^\w+\[%s\]\[%s@\]$' % (kv, idk), vr(nxt[0].value)) is not None and \
        all(e.seq < nxt[0].seq for e in sets)
    ctx.check(okn, 'C09.R', f, 'then the index follows the back-pointer stored at (k, current index) - after the epoch has been written',
              witness={'next index': vr(nxt[0].value) if nxt else None}, node=bl, key='follow')
    # tables agree with the forward pass: state from STATES, cost from the value table, pointer from the marker table
    if okw and okn:
        tabs = {e.args[0]: vr(e.args[2]).split('[')[0] for e in sets}
        ptab = vr(nxt[0].value).split('[')[0]
        ctx.check(len({tabs['hmm_inference'], tabs['hmm_cost'], ptab}) == 3, 'C09.R', f,
                  'state, cost and back-pointer come from three different tables (candidates, costs, markers)',
                  witness={'tables': {'state': tabs['hmm_inference'], 'cost': tabs['hmm_cost'], 'pointer': ptab}}, node=bl,
                  key='tables')


def rule_L(ctx):
    """C09.L Qlog / Plog siblings"""
    res = {}
    for name in ('Qlog', 'Plog'):
        g = ctx.prog.func(HMM + '.' + name)
        w = Walker(g, loop_mode='skip')
        outs = [o for o in w.run(body_nodocstring(g), State()) if o.kind == 'return']
        if len(outs) != 2:
            raise shape_error('%s: expected two paths (already log / not log)' % name, g.loc())
        info = {}
        for o in outs:
            flag = [c for c, _ in o.state.conds]
            if len(flag) != 1:
                raise shape_error('%s: path condition not understood' % name, g.loc())
            txt = repr(flag[0])
            raw = [e for e in o.state.events if e.kind == 'call' and e.name in ('Q', 'P')]
            if len(raw) != 1:
                raise shape_error('%s does not call the model once' % name, g.loc())
            params = g.params[1:]
            okargs = [vr(a) for a in raw[0].args] == params
            v = vr(o.value)
            if txt.startswith('not ') and 'self.log' in txt:
                mode = 'likelihood'
            elif 'self.log' in txt:
                mode = 'log'
            else:
                raise shape_error('%s: branch does not test self.log' % name, g.loc())
            info[mode] = (v, raw[0].value, okargs)
        res[name] = (g, info)
    import re
    floors = {}
    for name, (g, info) in res.items():
        vlog, raw, okargs = info['log']
        ctx.check(vlog == raw and okargs, 'C09.L', g, '%s: inputs given as logarithms are passed through unchanged' % name,
                  witness={'returned': vlog}, node=g.node, key=name + ':log')
        vlik, raw, okargs = info['likelihood']
        m = re.match(r'^log\((.+)\)$', vlik)
        ok = m is not None and raw in m.group(1)
        fl = None
        if ok:
            rest = m.group(1).replace(raw, '').replace(' + ', '').strip()
            fl = rest
        floors[name] = fl
        ctx.check(ok and okargs, 'C09.L', g, '%s: likelihoods are converted with log(value + floor)' % name,
                  witness={'returned': vlik}, node=g.node, key=name + ':lik')
    ctx.check(floors['Qlog'] == floors['Plog'], 'C09.L', res['Qlog'][0],
              'transition and emission likelihoods are floored with the same constant before the logarithm',
              witness={'floors': floors,
                       'why': 'with different floors a zero transition and a zero emission get different costs, so '
                              'sequences of equal likelihood are ranked differently from their log-domain twins'},
              node=res['Qlog'][0].node, key='floor')


def rule_V(ctx, rid='C09.V', only=None):
    """C09.V the decoder as a whole: HMM.estimate (with Qlog/Plog and the reconstruction) interpreted on small models and compared
    with the enumeration of all state sequences"""
    import itertools
    import math
    from .. import absint, orders, npstub
    f = ctx.prog.func(HMM + '.estimate')
    fn = absint.funcs(ctx, 'tracklib.algo.dynamics', dict(npstub.stubs()))
    fn['progressbar'] = lambda x, **k: (v_ for v_ in x)          # (progressbar.progressbar wraps its iterable in a generator: it can be walked once)
    fn['log'] = math.log
    fn['exp'] = math.exp

    def _exit(*a):
        raise orders.Raised('SystemExit', 'exit()')
    fn['exit'] = _exit
    H = absint.classref(ctx, HMM, fn)
    mod = ctx.prog.module('tracklib.algo.dynamics')
    vq = mod.consts.get('MODE_VERBOSE_NONE')
    quiet = vq.value if isinstance(vq, ast.Constant) else 0
    NEG = float('-inf')

    class TrackS(orders.PyStub):
        isa = ('Track',)

        def __init__(self, ys, feats=None):
            self.n = len(ys)
            self.feats = {'y': list(ys)}
            self.feats.update({k: list(v) for k, v in (feats or {}).items()})
            self.obs = [_ObsS() for _ in range(self.n)]

        def __len__(self):
            return self.n

        def size(self):
            return self.n

        def getSRID(self):
            return 'ENU'

        def hasAnalyticalFeature(self, name):
            return name in self.feats

        def getObsAnalyticalFeatures(self, names, k):
            if isinstance(names, str):
                names = [names]
            return [self.feats[nm][k] for nm in names]

        def getObsAnalyticalFeature(self, name, k):
            return self.feats[name][k]

        def createAnalyticalFeature(self, name, val=0.0):
            if name in self.feats:
                return
            self.feats[name] = list(val) if isinstance(val, list) else [val] * self.n

        def setObsAnalyticalFeature(self, name, k, v):
            if not isinstance(k, int) or not 0 <= k < self.n:
                raise IndexError('observation %r' % (k,))
            self.feats[name][k] = v

        def __getitem__(self, key):
            if isinstance(key, tuple):
                return self.feats[key[0]][key[1]]
            if isinstance(key, int):
                return self.obs[key]
            return list(self.feats[key])

        def getObs(self, k):
            return self.obs[k]

    class _ObsS(orders.PyStub):
        isa = ('Obs',)

        def __init__(self):
            self.position = None

    # positions built from observed features: an opaque value recording its arguments
    fn['makeCoords'] = lambda x, y, z, srid: ('position', x, y, z, srid)
    MODES = {k: (v.value if isinstance(v, ast.Constant) else None) for k, v in mod.consts.items() if k.startswith('MODE_OBS') or k.startswith('MODE_STATES')}

    found = {}
    n_models = [0]

    VERBOSE = sorted({v.value for k, v in mod.consts.items() if k.startswith('MODE_VERBOSE') and isinstance(v, ast.Constant)})

    def decode(sizes, emis, trans, logmode, label, family, reuse=None, stationary=False, switch=None, obsmode=None, verbose=quiet, aborted_first=False, fixed_labels=False, nan_at=()):
        """emis[k][i], trans[k][(i, j)] are COSTS (-log likelihood); states of epoch k are named 10*k + i.
        reuse = (hmm, track) of an earlier decoding: the same objects are given the new model through the setters;
        switch = the value given as the log switch (default: the bool logmode); obsmode = (mode name, observed feature names)"""
        n_models[0] += 1
        T_ = len(sizes)
        states = [[10 * k + i for i in range(sizes[k])] for k in range(T_)]
        if fixed_labels:
            # a fixed set of labels: the state function hands out the very same list object at every epoch (the tables still differ from epoch to epoch)
            states = [list(range(sizes[0]))] * T_
        ys = [(float('nan') if k in nan_at else 'y%d' % k) for k in range(T_)]
        feats, obsarg, modeval = None, 'y', None
        if obsmode is not None:
            mname, names_ = obsmode
            modeval = MODES.get(mname) if mname != 'list-valued' else MODES.get('MODE_OBS_AS_SCALAR')
            if modeval is None:
                raise shape_error('%s not found in tracklib.algo.dynamics' % mname, f.loc())
            feats = {nm: ['%s%d' % (nm, k) for k in range(T_)] for nm in names_}
            if mname == 'list-valued':
                # one observed feature whose VALUE is a list (of one, two or no element): it reaches the observation model as it is
                modeval = MODES.get('MODE_OBS_AS_SCALAR')
                feats = {nm: [[['v%d' % k], ['v%d' % k, 'w'], []][k % 3] for k in range(T_)] for nm in names_}
            obsarg = list(names_) if mname != 'list-valued' else names_[0]
            dim = 2 if '2D' in mname and 'OBS' in mname else (3 if '3D' in mname and 'OBS' in mname else 0)
            ys = []
            for k in range(T_):
                vals = [feats[nm][k] for nm in names_]
                if dim:
                    vals = [('position', vals[0], vals[1], vals[2] if dim == 3 else 0.0, 'ENU')] + vals[dim:]
                ys.append(vals[0] if len(vals) == 1 else vals)

        def lik(c):
            if logmode:
                return -c if c != float('inf') else NEG
            return 0.0 if c == float('inf') else math.exp(-c)
        calls = {'Q': [], 'P': []}

        def S(track, k):
            return states[k] if fixed_labels else list(states[k])

        def Q(s1, s2, k, track):
            calls['Q'].append(k)
            if not (isinstance(k, int) and 0 <= k < T_ - 1 and s1 in states[k] and s2 in states[k + 1]):
                raise orders.Raised('ModelError', 'transition model asked for Q(%r, %r, k=%r): s1 must be a state of epoch k, s2 of epoch k+1' % (s1, s2, k))
            return lik(trans[k][(s1 % 10, s2 % 10)])

        def P(s, y, k, track):
            if not (isinstance(k, int) and 0 <= k < T_ and s in states[k] and (y == ys[k] or (isinstance(y, float) and y != y and k in nan_at))):
                raise orders.Raised('ModelError', 'observation model asked for P(%r, %r, k=%r): state and observation must be those of epoch k' % (s, y, k))
            return lik(emis[k][s % 10])
        try:
            if reuse is None:
                hmm = H(S, Q, P, logmode if switch is None else switch[0], stationary)
                t = TrackS(ys, feats)
            else:
                hmm, t = reuse
                hmm.call('setStates', S)
                hmm.call('setTransitionModel', Q)
                hmm.call('setObservationModel', P)
            if aborted_first:
                # an earlier decoding on the same object that left through an exception (an observed feature that does not exist), asked with the other
                # setting of the log switch: nothing of it may survive into the next decoding
                try:
                    hmm.call('estimate', t, 'no_such_feature', not logmode, verbose=quiet)
                except orders.Unsupported:
                    raise
                except orders.PROGRAM_ERRORS:
                    pass
            vkw = {} if verbose == 'default' else {'verbose': verbose}
            if modeval is None:
                hmm.call('estimate', t, obsarg, **vkw)
            else:
                hmm.call('estimate', t, obsarg, mode=modeval, **vkw)
        except orders.Unsupported as ex:
            raise shape_error('HMM.estimate not interpretable: %s' % ex, f.loc())
        except orders.PROGRAM_ERRORS as ex:
            found.setdefault((family, 'fails'), ('the decoder runs on every model of the family and asks its models only for states/observations of the right epoch',
                                                 {'model': label, 'log mode': logmode, 'exception': '%s: %s' % (type(ex).__name__, str(ex)[:200])}))
            return None
        got = t.feats.get('hmm_inference')
        best, arg = None, None
        for path in itertools.product(*[range(s_) for s_ in sizes]):
            c = sum(emis[k][path[k]] for k in range(T_)) + sum(trans[k][(path[k], path[k + 1])] for k in range(T_ - 1))
            if best is None or c < best:
                best, arg = c, path
        ok = isinstance(got, list) and len(got) == T_ and all(g_ in states[k] for k, g_ in enumerate(got))
        if ok:
            gp = [g_ % 10 for g_ in got]
            c = sum(emis[k][gp[k]] for k in range(T_)) + sum(trans[k][(gp[k], gp[k + 1])] for k in range(T_ - 1))
            ok = (c == best) or (c != float('inf') and best != float('inf') and abs(c - best) <= 1e-9 * max(1.0, abs(best)))
        if not ok:
            found.setdefault((family, 'optimum'), ('the decoded sequence has one candidate state per epoch and attains the maximum of the product of observation '
                                                   'and transition likelihoods over all sequences',
                                                   {'model': label, 'log mode': logmode, 'epoch sizes': list(sizes),
                                                    'observation costs (-log)': emis, 'transition costs (-log)': [{'%d>%d' % k_: v for k_, v in tr.items()} for tr in trans],
                                                    'decoded': got, 'an optimal sequence': [10 * k + i for k, i in enumerate(arg)], 'optimal cost': best}))
            return hmm, t
        rec = t.feats.get('hmm_cost')
        if best != float('inf') and not any(v == float('inf') for e_ in emis for v in e_):
            last = rec[-1] if isinstance(rec, list) and len(rec) == T_ else None
            if not (isinstance(last, (int, float)) and not isinstance(last, bool) and abs(last - best) <= 1e-6 * max(1.0, abs(best))):
                found.setdefault((family, 'cost'), ('the cost recorded at the last epoch is the optimal cost (minus the log of the maximal joint likelihood)',
                                                    {'model': label, 'log mode': logmode, 'recorded hmm_cost': rec, 'optimal cost': best,
                                                     'decoded': got}))
        return hmm, t

    INF = float('inf')
    for logmode in ((False, True) if only is None else ()):
        # (a) two epochs of two states: every weak ordering of the four sequence costs (each sequence owns its transition), with
        #     costs all positive (likelihoods < 1) and with negative costs (unnormalised likelihoods > 1)
        names = ['00', '01', '10', '11']
        for o in orders.weak_orderings(names):
            for K in (6.0, -4.0):
                e0, e1 = [0.3, 1.1], [0.7, 0.2]
                trans = [{(i, j): K + o['%d%d' % (i, j)] - e0[i] - e1[j] for i in range(2) for j in range(2)}]
                decode((2, 2), [e0, e1], trans, logmode, 'ordering of the sequence costs: ' + orders.describe(o) + (' (likelihoods above 1)' if K < 0 else ''), 'orderings')
        # (b) every sequence of a three-epoch model in turn the unique optimum; epoch sizes include 1 and 3; transition and
        #     observation tables differ from epoch to epoch
        shapes = [(2, 2, 2), (1, 2, 3), (3, 1, 2), (2, 3, 1), (1, 1, 1), (3,), (1,)]
        if ctx.tier == 'thorough':
            shapes += [(2, 2, 2, 2), (3, 3, 3), (2, 3, 2, 3), (4, 2), (2, 4), (1, 4, 1), (3, 2, 3, 2, 1)]
        for sizes in shapes:
            T_ = len(sizes)
            for target in itertools.product(*[range(s_) for s_ in sizes]):
                for good, bad_ in ((0.1, 2.3), (-1.5, 0.4)):
                    emis = [[good if i == target[k] else bad_ for i in range(sizes[k])] for k in range(T_)]
                    trans = [{(i, j): (good if (i, j) == (target[k], target[k + 1]) else bad_) for i in range(sizes[k]) for j in range(sizes[k + 1])} for k in range(T_ - 1)]
                    decode(sizes, emis, trans, logmode, 'unique optimum %r%s' % (list(target), ' (likelihoods above 1)' if good < 0 else ''), 'unique')
        # (c) impossible transitions / observations (likelihood 0) and certain ones (likelihood 1, log-likelihood 0)
        for sizes, emis, trans, label in (
                ((2, 2), [[0.0, 0.0], [0.0, 0.0]], [{(0, 0): INF, (0, 1): 1.0, (1, 0): 2.0, (1, 1): INF}], 'two impossible transitions'),
                ((2, 2), [[0.0, INF], [0.5, 0.0]], [{(0, 0): 1.0, (0, 1): 3.0, (1, 0): 0.0, (1, 1): 0.0}], 'an impossible first state whose transitions are the cheapest'),
                ((2, 2), [[0.5, 0.5], [0.5, 0.5]], [{(0, 0): 0.0, (0, 1): 1.0, (1, 0): 2.0, (1, 1): 3.0}], 'a certain transition (likelihood 1, log-likelihood 0) is the best one'),
                ((2, 2, 2), [[0.5, 0.5], [0.0, 1.0], [0.5, 0.5]], [{(0, 0): 1.0, (0, 1): 0.0, (1, 0): 0.0, (1, 1): 1.0}, {(0, 0): 0.0, (0, 1): 2.0, (1, 0): 2.0, (1, 1): 0.0}], 'certain transitions and observations mixed'),
                ((1, 2), [[0.0], [0.5, 0.0]], [{(0, 0): 0.0, (0, 1): 3.0}], 'a single predecessor whose transition decides'),
                ((2, 1, 2), [[0.0, 0.2], [0.0], [0.5, 0.0]], [{(0, 0): 2.0, (1, 0): 0.0}, {(0, 0): 0.0, (0, 1): 3.0}], 'a single-state epoch in the middle'),
                ((2, 2), [[0.0, 0.0], [0.0, 0.0]], [{(0, 0): INF, (0, 1): 100.0, (1, 0): INF, (1, 1): INF}], 'one possible but very unlikely sequence (1e-44) among impossible ones'),
                ((2, 2), [[0.0, 0.0], [INF, 95.0]], [{(0, 0): 0.0, (0, 1): 0.0, (1, 0): 0.0, (1, 1): 0.0}], 'one possible but very unlikely observation (1e-42) next to an impossible one'),
                ((2, 2), [[50.0, 70.0], [0.0, 0.0]], [{(0, 0): 60.0, (0, 1): 75.0, (1, 0): 45.0, (1, 1): 41.0}], 'tiny likelihoods (1e-18 .. 1e-33) that differ'),
        ):
            decode(sizes, emis, trans, logmode, label, 'zeros and ones')
    if only is not None and 'single epoch' in only:
        # a track of one observation: its candidate of highest observation likelihood is written
        for sizes in ((3,), (1,), (2,)):
            for tgt in range(sizes[0]):
                decode(sizes, [[0.1 if i == tgt else 2.3 for i in range(sizes[0])]], [], False, 'single epoch, unique optimum %d of %d' % (tgt, sizes[0]), 'single epoch')
    for logmode in (False, True):
        # (d) the same decoder object and the same track used again with another model (stationary flag on): nothing of the first
        #     decoding may survive into the second
        for stat in (False, True):
            first = decode((2, 2), [[0.1, 0.9], [0.2, 0.3]], [{(0, 0): 0.1, (0, 1): 2.0, (1, 0): 2.0, (1, 1): 2.0}], logmode,
                           'first use of a decoder (stationarity=%s)' % stat, 'reuse', stationary=stat)
            if first is not None:
                decode((2, 2), [[0.9, 0.1], [0.3, 0.6]], [{(0, 0): 2.0, (0, 1): 2.0, (1, 0): 2.0, (1, 1): 0.1}], logmode,
                       'second use of the same decoder and track with other tables (stationarity=%s)' % stat, 'reuse', reuse=first, stationary=stat)
    # (d2) every verbosity level (and the default one: progress bars wrap the loops over epochs and states), and a decoding after one that was aborted
    for logmode in ((False, True) if only is None else ()):
        for vb in VERBOSE + ['default']:
            for target in ((0, 1, 1), (1, 0, 0), (1, 1, 0)):
                emis = [[0.1 if i == target[k] else 2.3 for i in range(2)] for k in range(3)]
                trans = [{(i, j): 0.4 + 0.1 * i + 0.05 * j for i in range(2) for j in range(2)} for k in range(2)]
                decode((2, 2, 2), emis, trans, logmode, 'optimum %r decided by the observation likelihoods, verbose=%s' % (list(target), vb), 'verbosity', verbose=vb)
        for target in ((0, 1, 1), (1, 0, 1)):
            emis = [[0.1 if i == target[k] else 2.3 for i in range(2)] for k in range(3)]
            trans = [{(i, j): (0.1 if (i, j) == (target[k], target[k + 1]) else 2.3) for i in range(2) for j in range(2)} for k in range(2)]
            decode((2, 2, 2), emis, trans, logmode, 'unique optimum %r, after an aborted decoding on the same object' % list(target), 'verbosity', aborted_first=True)
    # (e) the log switch given as another falsy / truthy value than the bool (0, 1, numpy.bool_ - the result of a numpy test)
    for sw_label, sw, logmode in ((('0', 0, False), ('1', 1, True), ('numpy.bool_(False)', npstub.NpBool(False), False), ('numpy.bool_(True)', npstub.NpBool(True), True)) if only is None else ()):
        for target in itertools.product(range(2), repeat=3):
            emis = [[0.1 if i == target[k] else 2.3 for i in range(2)] for k in range(3)]
            trans = [{(i, j): (0.1 if (i, j) == (target[k], target[k + 1]) else 2.3) for i in range(2) for j in range(2)} for k in range(2)]
            decode((2, 2, 2), emis, trans, logmode, 'unique optimum %r, log switch given as %s' % (list(target), sw_label), 'switch kinds', switch=(sw,))
        # orderings of the four sequence costs (the maximum of the product is not the maximum of the sum of the likelihoods)
        for o in list(orders.weak_orderings(['00', '01', '10', '11']))[::3]:
            e0, e1 = [0.3, 1.1], [0.7, 0.2]
            trans = [{(i, j): 2.0 + 0.8 * o['%d%d' % (i, j)] - e0[i] - e1[j] for i in range(2) for j in range(2)}]
            decode((2, 2), [e0, e1], trans, logmode, 'ordering of the sequence costs: ' + orders.describe(o) + ', log switch given as %s' % sw_label, 'switch kinds', switch=(sw,))
    # (f) multi-dimensional observations and the position modes: the observation model receives, at each epoch, the observed
    #     features of that epoch (the first two / three gathered into a position, the others following)
    for mname, names_ in (('MODE_OBS_AS_SCALAR', ['a', 'b']), ('MODE_OBS_AS_SCALAR', ['a', 'b', 'c']), ('MODE_OBS_AS_2D_POSITIONS', ['x', 'y']), ('MODE_OBS_AS_2D_POSITIONS', ['x', 'y', 'a']),
                          ('MODE_OBS_AS_2D_POSITIONS', ['x', 'y', 'a', 'b']), ('MODE_OBS_AS_3D_POSITIONS', ['x', 'y', 'z']), ('MODE_OBS_AS_3D_POSITIONS', ['x', 'y', 'z', 'a']),
                          ('MODE_OBS_AS_3D_POSITIONS', ['x', 'y', 'z', 'a', 'b']), ('MODE_OBS_AND_STATES_AS_2D_POSITIONS', ['x', 'y', 'a']), ('MODE_OBS_AND_STATES_AS_3D_POSITIONS', ['x', 'y', 'z', 'a']),
                          ('MODE_STATES_AS_2D_POSITIONS', ['a', 'b', 'c']), ('MODE_STATES_AS_3D_POSITIONS', ['a', 'b', 'c', 'd']), ('list-valued', ['a'])):
        if only is not None and mname != 'MODE_OBS_AND_STATES_AS_2D_POSITIONS':
            continue
        for target in ((0, 1, 1), (1, 0, 1)):
            emis = [[0.1 if i == target[k] else 2.3 for i in range(2)] for k in range(3)]
            trans = [{(i, j): (0.1 if (i, j) == (target[k], target[k + 1]) else 2.3) for i in range(2) for j in range(2)} for k in range(2)]
            decode((2, 2, 2), emis, trans, False, 'unique optimum %r, observations %r in mode %s' % (list(target), names_, mname), 'observation modes', obsmode=(mname, names_))
    # (g) a fixed label set (the same list object of states at every epoch) with tables that differ from epoch to epoch; an observation that
    #     is NaN (a gap in the observed feature) is an observation like any other: the observation model decides what it says about the states
    for logmode in ((False, True) if only is None else ()):
        for sizes in ((2, 2, 2), (3, 3, 3), (2, 2, 2, 2)):
            T_ = len(sizes)
            for target in list(itertools.product(*[range(s_) for s_ in sizes]))[::2]:
                emis = [[0.1 if i == target[k] else 2.3 for i in range(sizes[k])] for k in range(T_)]
                trans = [{(i, j): (0.1 if (i, j) == (target[k], target[k + 1]) else 2.3) for i in range(sizes[k]) for j in range(sizes[k + 1])} for k in range(T_ - 1)]
                decode(sizes, emis, trans, logmode, 'unique optimum %r, the state function returns the same list object at every epoch' % list(target), 'fixed labels', fixed_labels=True)
        for nan_at in ((1,), (0, 2), (0, 1, 2)):
            for target in ((0, 1, 1), (1, 0, 1), (1, 1, 0)):
                emis = [[0.1 if i == target[k] else 2.3 for i in range(2)] for k in range(3)]
                trans = [{(i, j): 0.4 + 0.1 * i + 0.05 * j for i in range(2) for j in range(2)} for k in range(2)]
                decode((2, 2, 2), emis, trans, logmode, 'optimum %r decided by the observation likelihoods, observation NaN at epochs %r' % (list(target), list(nan_at)), 'fixed labels', nan_at=nan_at)
    for (family, key), (desc, wit) in sorted(found.items()):
        ctx.violation(rid, f, desc, wit, node=f.node, key='%s:%s' % (family, key))
    for family in (('orderings', 'unique', 'fixed labels', 'zeros and ones', 'reuse', 'verbosity', 'switch kinds', 'observation modes') if only is None else only):
        if not any(f_ == family for f_, _ in found):
            ctx.ok(rid, f, 'decoded sequence = an optimum of the enumeration, plain and log mode (%s)' % family, node=f.node)
    ctx.extra[rid + ' models'] = n_models[0]


RULES = [
    ('C09.V', rule_V, 'quick'),
]
# rule_I / rule_R / rule_L (index pairing, reconstruction, floor constants read off the statement structure) are no longer run: C09.V
# decides the same clauses on the decoder's behaviour and is indifferent to how the loops are written (they reported shape errors on
# behaviour-preserving rewrites: C09-R5, C09-R6)
MIN_OBLIGATIONS = 4
