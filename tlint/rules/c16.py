"""C16 - simplification (douglas_peucker, visvalingam, distance_to_segment, aire_visval)."""
import ast

from ..alg import Rat
from ..loader import shape_error, anchor_error
from ..report import weighed
from ..sx import Walker, State
from ..effects import Effects
from ..util import body_nodocstring, names_stored, unparse

SIM = 'tracklib.algo.simplification'
GEO = 'tracklib.util.geometry'
TRACK = 'tracklib.core.track.Track'

EXPLANATION = (
    "Static analysis of douglas_peucker / visvalingam and the code they rest on.  (G) both algorithms - with distance_to_segment, "
    "aire_visval, triangle_area, Track.copy / removeObs / addAnalyticalFeature / operate(ARGMIN) and the operator classes - are "
    "interpreted by tlint.orders on the repository's own Track class (nothing is imported or executed) on one polyline per "
    "configuration class (generic line, closed loop, repeated consecutive position, all positions coincident, out-and-back along a "
    "horizontal / vertical / oblique line, there-and-back, two fixes, collinear fixes, spike) x six tolerances: no failure, the result "
    "is a subsequence containing the first and the last fix, the input track is untouched, no scratch feature remains, and for "
    "Douglas-Peucker every input fix is within the tolerance of the result.  (Z) distance_to_segment symbolically: it is the distance "
    "to the projection clamped to the bounding box of the segment (polynomial identities on every return path) and never divides by "
    "the chord length without a zero test.")
ASSUMPTIONS = ["positive tolerance", "(G) is a bounded case analysis: one representative polyline per configuration class, not all geometries"]
TECHNIQUE = "abstract interpretation of both algorithms on configuration-class representatives (positions are the repository's ENUCoords; two classes at sub-millimetre scale) with a point-segment distance computed by the checker (F3/F6), possibly-zero divisor rule and polynomial identities (F2)"


def vr(v):
    if isinstance(v, Rat):
        a = v.single_atom()
        return a if a is not None else repr(v)
    return repr(v)


def rule_D(ctx):
    """C16.D / C16.T Douglas-Peucker"""
    f = ctx.prog.func(SIM + '.douglas_peucker')
    tr, eps = f.params[:2]
    body = body_nodocstring(f)
    loops = [s for s in body if isinstance(s, ast.For)]
    if len(loops) != 1:
        raise shape_error('douglas_peucker: scan loop not found', f.loc())
    lo = loops[0]
    w = Walker(f, loop_mode='skip')
    pre = [o for o in w.run(body[:body.index(lo)], State())]
    allret = [o for o in pre if o.kind == 'return']
    falls = [o for o in pre if o.kind == 'fall']
    if len(falls) != 1:
        raise shape_error('douglas_peucker prologue', f.loc())
    pst = falls[0].state
    # names: L (list), n (its length)
    Ln = nn = None
    for k, v in pst.env.items():
        if isinstance(v, Rat) and vr(v) == '%s.getObsList()' % tr:
            Ln = k
    for k, v in pst.env.items():
        if isinstance(v, Rat) and Ln and vr(v) == 'len(%s.getObsList())' % tr:
            nn = k
    if Ln is None or nn is None:
        raise shape_error('douglas_peucker: list of observations / its length not found', f.loc())
    Lt = '%s.getObsList()' % tr
    n_ = Rat.atom('len(%s)' % Lt)
    base = [o for o in allret if any(c.kind == 'cmp' and c.op == '<=' and w.rel.is_zero(c.a - n_) and vr(c.b) == '2'
                                    for c, _ in o.state.conds)]
    okb = len(base) == 1 and any(c.kind == 'cmp' and c.op == '<=' and w.rel.is_zero(c.a - n_) and vr(c.b) == '2' for c, _ in base[0].state.conds) \
        and vr(base[0].value) in ('tracklib.Track(%s)' % Lt, 'Track(%s)' % Lt) or (len(base) == 1 and Lt in vr(base[0].value))
    ctx.check(bool(okb), 'C16.D', f, 'tracks of at most two fixes are returned as they are', witness={'returned': [vr(o.value) for o in base]},
              node=f.node, key='base')
    # scan loop: maximum distance to the chord over all indices, co-updated index
    r = w.range_info(lo.iter, pst)
    okr = r is not None and isinstance(r[0], Rat) and r[0].isconst() and r[0].constval() in (0, 1) and \
        (w.rel.is_zero(r[1] - n_) or w.rel.is_zero(r[1] - n_ + Rat.const(1))) and vr(r[2]) == '1'
    ctx.check(okr, 'C16.T', f, 'the farthest fix is searched among all fixes of the piece',
              witness={'range': [vr(x) for x in r] if r else None}, node=lo, key='scan-range')
    iv = lo.target.id
    st = pst.fork()
    st.events = []
    st.conds = []
    assigned = sorted(names_stored(lo.body))
    for v in assigned:
        st.env[v] = Rat.atom(v + '@')
    st.env[iv] = Rat.atom(iv)
    outs = list(w.run(lo.body, st))
    dcall = None
    upd = []
    every = None
    for o in outs:
        names = {e.name for e in o.state.events if e.kind == 'assign'}
        every = names if every is None else every & names
        for e in o.state.events:
            if e.kind == 'call' and e.name == 'distance_to_segment':
                dcall = e
    for o in outs:
        ch = {e.name: e for e in o.state.events if e.kind == 'assign' and e.name not in every}
        if ch:
            upd.append((o, ch))
    if dcall is None or not upd:
        raise shape_error('douglas_peucker: distance call / maximum update not found', f.loc(lo))
    P = lambda k, g: Rat.atom('%s[%s].position.%s()' % (Lt, k, g))
    last = repr(n_ - Rat.const(1))
    want = [P(iv, 'getX'), P(iv, 'getY'), P('0', 'getX'), P('0', 'getY'), P(last, 'getX'), P(last, 'getY')]
    got = dcall.args
    ctx.check(len(got) == 6 and all(isinstance(a, Rat) and w.rel.is_zero(a - b) for a, b in zip(got, want)), 'C16.T', f,
              'the distance measured is that of fix i to the chord from the first to the last fix of the piece, (x,y) paired',
              witness={'arguments': [vr(a) for a in got], 'expected': [vr(a) for a in want]}, node=dcall.node, key='chord')
    accs = sorted({k for _, ch in upd for k in ch})
    dname = iname = None
    for o, ch in upd:
        for k, e in ch.items():
            if isinstance(e.value, Rat) and e.value.single_atom() == dcall.value:
                dname = k
            if isinstance(e.value, Rat) and e.value.single_atom() == iv:
                iname = k
    ok = dname is not None and iname is not None and all(set(ch) == {dname, iname} for _, ch in upd)
    ctx.check(ok, 'C16.D', f, 'the maximum distance and the index that attains it are updated together',
              witness={'updated': [sorted(ch) for _, ch in upd]}, node=lo, key='coupdate')
    if not ok:
        return
    g = all(any(cj.kind == 'cmp' and cj.op in ('<', '<=') and vr(cj.a) == dname + '@' and vr(cj.b) == dcall.value
                for c, _ in o.state.conds for cj in c.conjuncts()) for o, _ in upd)
    ctx.check(g, 'C16.T', f, 'the update keeps the larger distance (d > dmax)', witness={}, node=lo, key='max-guard')
    d0 = pst.env.get(dname)
    ctx.check(isinstance(d0, Rat) and d0.isconst() and d0.constval() <= 0, 'C16.T', f, 'the running maximum starts at 0 (or below)',
              witness={'initial': vr(d0)}, node=lo, key='max-init')
    # after the loop
    st2 = pst.fork()
    st2.events = []
    st2.conds = []
    st2.env[dname] = Rat.atom('DMAX')
    st2.env[iname] = Rat.atom('IMAX')
    post = list(w.run(body[body.index(lo) + 1:], st2))
    rets = [o for o in post if o.kind == 'return']
    two = []
    rec = []
    for o in rets:
        t = vr(o.value)
        if 'douglas_peucker(' in t:
            rec.append(o)
        else:
            two.append(o)
    # any return of a short list before/after the loop other than the n<=2 base case
    early = [o for o in allret if o not in base]
    for o in early:
        ctx.violation('C16.T', f, 'the chord [first, last] replaces a piece only when every fix is within eps of it (dmax < eps)',
                      {'returned': vr(o.value)[:120], 'path conditions': [repr(c) for c, _ in o.state.conds],
                       'why': 'this return is taken before any distance has been measured'}, node=o.node, key='early-return')
    if not two or not rec:
        raise shape_error('douglas_peucker: chord return / recursive return not found', f.loc())
    for o in two:
        guard = any(cj.kind == 'cmp' and cj.op in ('<', '<=') and vr(cj.a) == 'DMAX' and vr(cj.b) == eps
                    for c, _ in o.state.conds for cj in c.conjuncts())
        lst = '[%s[0], %s[%s]]' % (Lt, Lt, last)
        ctx.check(guard and lst in vr(o.value).replace('(', '[', 0), 'C16.T', f,
                  'the piece is replaced by [first, last] exactly under dmax < eps',
                  witness={'returned': vr(o.value)[:160], 'path conditions': [repr(c) for c, _ in o.state.conds]}, node=o.node, key='chord-return')
    for o in rec:
        rv = o.node.value
        okc = isinstance(rv, ast.BinOp) and isinstance(rv.op, ast.Add) and all(
            isinstance(x, ast.Call) and getattr(x.func, 'id', None) == 'douglas_peucker' for x in (rv.left, rv.right))
        if not okc:
            raise shape_error('douglas_peucker: recursive return is not dp(a) + dp(b)', f.loc(o.node))
        a1 = vr(w.ex(rv.left.args[0], o.state))
        a2 = vr(w.ex(rv.right.args[0], o.state))
        s1 = '%s[0:IMAX]' % Lt
        s1b = '%s[:IMAX]' % Lt
        s2 = '%s[IMAX:%s]' % (Lt, vr(n_))
        s2b = '%s[IMAX:]' % Lt
        ok1 = (s1 in a1 or s1b in a1) and (s2 in a2 or s2b in a2)
        ctx.check(ok1, 'C16.D', f,
                  'the two recursive pieces are slices [0, m) and [m, n) of the observation list at the farthest index m, '
                  'simplified and concatenated in that order (they tile the piece: nothing lost, nothing duplicated)',
                  witness={'left piece': a1[:120], 'right piece': a2[:120]}, node=o.node, key='tiling')
        e1 = vr(w.ex(rv.left.args[1], o.state)) == eps and vr(w.ex(rv.right.args[1], o.state)) == eps
        ctx.check(e1, 'C16.D', f, 'both recursive calls use the same tolerance', witness={}, node=o.node, key='same-eps')


def rule_Z(ctx):
    """C16.Z distance_to_segment: zero-length chord guarded; clamped projection identities"""
    f = ctx.prog.func(GEO + '.distance_to_segment')
    names = f.params[:6]
    w = Walker(f, loop_mode='skip')
    x0, y0, x1, y1, x2, y2 = [Rat.atom(n) for n in ('x0', 'y0', 'x1', 'y1', 'x2', 'y2')]
    st = State(dict(zip(names, (x0, y0, x1, y1, x2, y2))))
    outs = [o for o in w.run(body_nodocstring(f), st) if o.kind == 'return']
    if not outs:
        raise shape_error('distance_to_segment has no return', f.loc())
    L = w.sqrt((x2 - x1) * (x2 - x1) + (y2 - y1) * (y2 - y1))
    n_general = 0
    for o in outs:
        pathtxt = [repr(c) for c, _ in o.state.conds]
        conds = [cj for c, _ in o.state.conds for cj in c.conjuncts()]
        for e in o.state.events:
            if e.kind in ('div', 'divzero'):
                den = e.value if e.kind == 'div' else None
                norm_like = den is not None and any(a.startswith('sqrt(') for a in den.atoms())
                if e.kind == 'divzero':
                    ctx.violation('C16.Z', f, 'no division by a chord length that is zero on this path', {'division': unparse(e.node), 'path': pathtxt},
                                  node=e.node, key='divzero')
                elif norm_like:
                    g = any(_guard_on(w, cj, den) for cj in conds)
                    ctx.check(g, 'C16.Z', f,
                              'a division by the chord length is dominated by a test that the length is not zero '
                              '(closed loops and coincident fixes give a zero-length chord)',
                              witness={'division': unparse(e.node), 'divisor': vr(den), 'path conditions': pathtxt}, node=e.node,
                              key='zero-guard:' + unparse(e.node))
        v = o.value
        degenerate = any(cj.kind == 'cmp' and cj.op == '==' and isinstance(cj.a, Rat) and isinstance(cj.b, Rat) and
                         (w.rel.is_zero(cj.a - L) or w.rel.is_zero(cj.b - L)) for cj in conds)
        if degenerate:
            r = v * v - ((x0 - x1) * (x0 - x1) + (y0 - y1) * (y0 - y1))
            ctx.check(isinstance(v, Rat) and w.rel.is_zero(r), 'C16.Z', f,
                      'for a zero-length chord the distance is the distance to that point',
                      witness={'residual': vr(r)}, node=o.node, key='degenerate')
            continue
        n_general += 1
        env = o.state.env
        # clamp box and clamped point: reconstruct from the final assignments
        def val(expr_src, e_):
            return w.ex(ast.parse(expr_src, mode='eval').body, State(dict(e_)))
        base = {'x0': x0, 'y0': y0, 'x1': x1, 'y1': y1, 'x2': x2, 'y2': y2}
        dot = (x0 - x1) * (x2 - x1) + (y0 - y1) * (y2 - y1)
        px = x1 + dot / (L * L) * (x2 - x1)
        py = y1 + dot / (L * L) * (y2 - y1)
        base['PX'], base['PY'] = px, py
        cx = val('min(max(PX, min(x1, x2)), max(x1, x2))', base)
        cy = val('min(max(PY, min(y1, y2)), max(y1, y2))', base)
        want = (x0 - cx) * (x0 - cx) + (y0 - cy) * (y0 - cy)
        r = v * v - want if isinstance(v, Rat) else None
        ctx.check(r is not None and w.rel.is_zero(r), 'C16.Z', f,
                  'distance^2 == |query - clamp(projection on the carrier line, bounding box of the segment)|^2',
                  witness={'returned^2 - expected': vr(w.rel.reduce_poly(r.n).n)[:300] if r is not None else None,
                           'clamped point expected': [vr(cx)[:160], vr(cy)[:160]]}, node=o.node, key='clamped')
    if n_general == 0:
        raise shape_error('distance_to_segment: general path not found', f.loc())


def _guard_on(w, cj, den):
    if cj.kind != 'cmp' or not isinstance(cj.a, Rat) or not isinstance(cj.b, Rat):
        return False
    if cj.op == '!=':
        return (w.rel.is_zero(cj.a - den) and w.rel.is_zero(cj.b)) or (w.rel.is_zero(cj.b - den) and w.rel.is_zero(cj.a))
    if cj.op == '<':
        return w.rel.is_zero(cj.b - den) and cj.a.isconst() and cj.a.constval() >= 0
    return False


def rule_V(ctx):
    """C16.V / C16.S Visvalingam"""
    f = ctx.prog.func(SIM + '.visvalingam')
    tr, eps = f.params[:2]
    body = body_nodocstring(f)
    loops = [s for s in body if isinstance(s, ast.While)]
    if len(loops) != 1:
        raise shape_error('visvalingam: elimination loop not found', f.loc())
    wl = loops[0]
    w = Walker(f, loop_mode='skip')
    pre = [o for o in w.run(body[:body.index(wl)], State()) if o.kind == 'fall']
    if len(pre) != 1:
        raise shape_error('visvalingam prologue', f.loc())
    pst = pre[0].state
    evs = pst.events
    out = None
    for k, v in pst.env.items():
        if isinstance(v, Rat) and vr(v) in ('%s.copy()' % tr, 'copy.deepcopy(%s)' % tr):
            out = k
    ctx.check(out is not None, 'C16.S', f, 'the elimination works on a private copy of the track', witness={}, node=f.node, key='copy')
    if out is None:
        return
    O = vr(pst.env[out])
    adds = [e for e in evs if e.kind == 'call' and e.name == 'addAnalyticalFeature' and vr(e.args[0]) == 'aire_visval']
    if len(adds) != 1:
        raise shape_error('visvalingam: area feature not computed with aire_visval', f.loc())
    A = adds[0].args[1]
    # aire_visval reads i-1: index 0 must be made non-selectable
    av = ctx.prog.func(GEO + '.aire_visval')
    reads_prev = any(isinstance(n, ast.BinOp) and isinstance(n.op, ast.Sub) and unparse(n) == '%s - 1' % av.params[1] for n in ast.walk(av.node))
    guards0 = any(isinstance(n, ast.If) and unparse(n.test) in ('%s == 0' % av.params[1], '%s <= 0' % av.params[1], '%s < 1' % av.params[1])
                  for n in ast.walk(av.node))
    sets0 = [e for e in evs if e.kind == 'call' and e.name == 'setObsAnalyticalFeature' and e.args[0] == A and
             isinstance(e.args[1], Rat) and e.args[1].isconst() and e.args[1].constval() == 0 and vr(e.args[2]) in ('NAN', 'nan', "float('nan')", 'math.nan')
             and e.seq > adds[0].seq]
    ctx.check((not reads_prev) or guards0 or bool(sets0), 'C16.V', f,
              'the first fix can never be selected for removal: its area is NaN (aire_visval(track, 0) reads index -1, which wraps '
              'to the last fix instead of failing)',
              witness={'aire_visval reads i-1 unguarded': reads_prev and not guards0, 'area of index 0 reset to NaN': bool(sets0)}, node=adds[0].node, key='first')
    aaf = ctx.prog.func(TRACK + '.addAnalyticalFeature')
    shield = any(isinstance(n, ast.ExceptHandler) and n.type is not None and 'IndexError' in unparse(n.type) and
                 any(isinstance(s, ast.Assign) and unparse(s.value) in ('NAN', 'nan') for s in n.body) for n in ast.walk(aaf.node))
    ctx.check(shield, 'C16.V', aaf, 'the last fix gets NaN: addAnalyticalFeature turns the IndexError of reading i+1 into NaN',
              witness={}, node=aaf.node, key='last')
    # ... which requires aire_visval(track, size-1) to read the index size itself (no wrapping, no clamping)
    wa = Walker(av, loop_mode='skip')
    ip = Rat.atom(av.params[1])
    reads = []
    guarded_last = False
    for o_ in wa.run(body_nodocstring(av), State()):
        for e_ in o_.state.events:
            if e_.kind == 'call' and e_.name == 'getObs' and e_.args and isinstance(e_.args[0], Rat):
                reads.append(e_)
        if any('size()' in repr(c_) or 'len(' in repr(c_) for c_, _ in o_.state.conds):
            guarded_last = True
    nxt = [e_ for e_ in reads if wa.rel.is_zero(e_.args[0] - ip - Rat.const(1))]
    other = sorted({vr(e_.args[0]) for e_ in reads if not (e_.args[0].ispoly() and set(e_.args[0].atoms()) <= {av.params[1]})})
    if not reads:
        raise shape_error('aire_visval: reads of the three fixes not found', av.loc())
    ctx.check(guarded_last or (bool(nxt) and not other), 'C16.V', av,
              'the last fix can never be selected for removal: aire_visval(track, size-1) reads the index `size` itself, which fails and becomes NaN',
              witness={'indices read': sorted({vr(e_.args[0]) for e_ in reads}), 'wrapped / clamped indices': other,
                       'why': 'an index taken modulo the size (or clamped) makes the last fix an ordinary candidate with the triangle (n-2, n-1, 0): '
                              'the simplified track can lose its last fix'}, node=av.node, key='last-read')
    # loop guard and body
    st = pst.fork()
    st.events = []
    st.conds = []
    for v in names_stored(wl.body):
        st.env[v] = Rat.atom(v + '@')
    c = w.cond(wl.test, st)
    if not c.is_const():
        st.conds.append((c, wl.test))
    outs = list(w.run(wl.body, st))
    size = Rat.atom('%s.size()' % O)
    n_rm = 0
    kinds_seen = set()
    for o in outs:
        rm = [e for e in o.state.events if e.kind == 'call' and e.name in ('removeObs', 'popObs')]
        if not rm:
            continue
        n_rm += 1
        e = rm[0]
        conds = [cj for c_, _ in e.conds for cj in c_.conjuncts()]
        idv = e.args[0]
        ctx.check(vr(e.recv) == O and vr(idv) == '%s.operate(Operator.ARGMIN, %r)' % (O, A), 'C16.V', f,
                  'the fix removed from the copy is the one of smallest area', witness={'removed': vr(idv)}, node=e.node, key='argmin')
        sz = any(cj.kind == 'cmp' and isinstance(cj.a, Rat) and isinstance(cj.b, Rat) and
                 ((cj.op == '<' and cj.a.isconst() and cj.a.constval() >= 2 and w.rel.is_zero(cj.b - size)) or
                  (cj.op == '<=' and cj.a.isconst() and cj.a.constval() >= 3 and w.rel.is_zero(cj.b - size))) for cj in conds)
        nn = any('isnan(' in repr(c_) and repr(c_).startswith('not ') for c_, _ in e.conds)
        ctx.check(sz or nn, 'C16.V', f,
                  'a fix is removed only while an interior fix exists (size > 2, or the selected area is tested for NaN)',
                  witness={'guards of the removal': [repr(cj) for cj in conds],
                           'why': 'when only the two end points are left every area is NaN, ARGMIN answers 0 and the first fix is removed (then IndexError)'},
                  node=e.node, key='interior-exists')
        thr = any(cj.kind == 'cmp' and cj.op in ('<', '<=') and '%s.getObsAnalyticalFeature(%r, %s)' % (O, A, vr(idv)) == vr(cj.a)
                  for cj in conds)
        ctx.check(thr, 'C16.V', f, 'removal stops as soon as the smallest area exceeds the tolerance', witness={'guards': [repr(cj) for cj in conds]},
                  node=e.node, key='threshold')
        # neighbour updates at interior indices only
        ups = [u for u in o.state.events if u.kind == 'call' and u.name == 'setObsAnalyticalFeature' and u.args[0] == A and u.seq > e.seq]
        for u in ups:
            k = u.args[1]
            uc = [cj for c_, _ in u.conds for cj in c_.conjuncts() if cj.kind == 'cmp' and isinstance(cj.a, Rat) and isinstance(cj.b, Rat)]
            okv = vr(u.args[2]) == 'aire_visval(%s, %s)' % (O, vr(k))
            ctx.check(okv, 'C16.V', f, 'a neighbour\'s area is recomputed at the index it is stored at', witness={'stored': vr(u.args[2]), 'index': vr(k)},
                      node=u.node, key='nb-value:' + vr(k))
            if w.rel.is_zero(k - idv + Rat.const(1)):        # left neighbour: index id-1 must be >= 1
                g = any((cj.op == '<' and w.rel.is_zero((cj.b - cj.a) - (k - Rat.const(0)))) or
                        (cj.op == '<=' and w.rel.is_zero((cj.b - cj.a) - (k - Rat.const(1)))) for cj in uc)
                ctx.check(g, 'C16.V', f, 'the left neighbour is updated only if it is an interior fix (its index >= 1): the first fix keeps its NaN',
                          witness={'index': vr(k), 'guards': [repr(cj) for cj in uc],
                                   'why': 'index 0 would receive the area of the triangle (last, first, second) through index -1 and become removable'},
                          node=u.node, key='left-interior')
            elif w.rel.is_zero(k - idv):                     # right neighbour (now at id): must be <= size-2
                g = any((cj.op == '<' and w.rel.is_zero((cj.b - cj.a) - (size - Rat.const(1) - k))) or
                        (cj.op == '<=' and w.rel.is_zero((cj.b - cj.a) - (size - Rat.const(2) - k))) for cj in uc)
                ctx.check(g, 'C16.V', f, 'the right neighbour is updated only if it is an interior fix (its index <= size-2)',
                          witness={'index': vr(k), 'guards': [repr(cj) for cj in uc]}, node=u.node, key='right-interior')
            else:
                ctx.violation('C16.V', f, 'only the two neighbours of the removed fix are recomputed', {'index': vr(k)}, node=u.node, key='nb-other')
        kinds_seen.update('left' if w.rel.is_zero(u.args[1] - idv + Rat.const(1)) else 'right' for u in ups)
    if n_rm == 0:
        raise shape_error('visvalingam: no removal path', f.loc(wl))
    ctx.check(kinds_seen == {'left', 'right'}, 'C16.V', f, 'after a removal the areas of both neighbours are recomputed (when interior)',
              witness={'neighbours recomputed': sorted(kinds_seen)}, node=wl, key='nb-both')
    # epilogue: scratch feature removed, copy returned
    post = [o for o in w.run(body[body.index(wl) + 1:], pst.fork()) if o.kind == 'return']
    ok = len(post) == 1 and vr(post[0].value) == O and any(e.kind == 'call' and e.name == 'removeAnalyticalFeature' and e.args[0] == A
                                                          for e in post[0].state.events)
    ctx.check(ok, 'C16.S', f, 'the scratch area feature is removed and the copy is returned', witness={}, node=f.node, key='epilogue')
    eff = Effects(ctx.prog)
    e_ = eff.effects_of(f.qual)
    bad = sorted(e_ & {'POS', 'TIME', 'OBSLIST'})
    ctx.check(not bad, 'C16.S', f, 'the input track itself is not modified (effects on non-fresh objects: %s)' % sorted(e_),
              witness={'chains': {b: eff.why(f.qual, b) for b in bad}}, node=f.node, key='frame')


def rule_G(ctx):
    """C16.G both simplifications on the configuration classes of the property (interpreted on the repository's Track class).

    douglas_peucker, visvalingam, distance_to_segment, aire_visval, triangle_area, Track.copy/removeObs/operate(ARGMIN)/... are
    interpreted by tlint.orders (nothing executed) on polylines chosen one per configuration class the property names or the code
    distinguishes: generic open line, closed loop, repeated consecutive position, all positions coincident, out-and-back along a
    horizontal / vertical / oblique line (a fix projecting beyond an end of the chord), two and three fixes - each with tolerances below,
    between and above the deviations.  Required: no failure, the result is a subsequence of the input containing the first and the last
    fix, the input track is untouched, and for Douglas-Peucker every input fix lies within the tolerance of the result (point-segment
    distance computed here)."""
    import math
    from .. import absint, orders
    fd = ctx.prog.func(SIM + '.douglas_peucker')
    fv = ctx.prog.func(SIM + '.visvalingam')
    fn = absint.funcs(ctx, SIM)
    fn['deepcopy'] = absint.deep_copy
    fn['__globals__']['NAN'] = float('nan')
    T = absint.classref(ctx, 'tracklib.core.track.Track', fn)
    absint.operator_table(ctx, fn)
    if 'tracklib.core.bbox.Bbox' in ctx.prog.classes:
        absint.classref(ctx, 'tracklib.core.bbox.Bbox', fn)

    # positions are the repository's own ENUCoords objects (their equality has a tolerance the concatenation code may rely on)
    EN = absint.classref(ctx, 'tracklib.core.obs_coords.ENUCoords', fn)
    fn['sqrt'], fn['hypot'], fn['atan2'] = math.sqrt, math.hypot, math.atan2

    OT = absint.classref(ctx, 'tracklib.core.obs_time.ObsTime', fn)

    def O(k, x, y, sec=None):
        # the repository's own Obs over its own ENUCoords, tagged with its rank in the input (and, for some tracks, its own timestamp)
        return absint.real_obs(ctx, fn, EN(float(x), float(y), 0.0), None if sec is None else OT(2020, 5, 17, 10, sec // 60, sec % 60, 0), k=k)

    def seg_dist(p, a, b):
        (px, py), (ax, ay), (bx, by) = p, a, b
        dx, dy = bx - ax, by - ay
        l2 = dx * dx + dy * dy
        if l2 == 0:
            return math.hypot(px - ax, py - ay)
        t = max(0.0, min(1.0, ((px - ax) * dx + (py - ay) * dy) / l2))
        return math.hypot(px - (ax + t * dx), py - (ay + t * dy))
    shapes = {
        'generic open line': [(0, 0), (5, 0.4), (10, 0), (14, 6), (20, 6.3), (25, 0)],
        'closed loop (first and last fix coincide)': [(0, 0), (10, 0), (10, 10), (0, 10), (0, 0)],
        'closed loop with a repeated consecutive position': [(0, 0), (10, 0), (10, 0), (10, 10), (0, 10), (0, 0)],
        'all positions coincident': [(3, 3), (3, 3), (3, 3), (3, 3)],
        'out-and-back along a horizontal line': [(0, 0), (20, 0), (30, 0), (10, 0)],
        'out-and-back along a vertical line': [(0, 0), (0, 20), (0, 30), (0, 10)],
        'out-and-back along an oblique line': [(0, 0), (20, 20), (30, 30), (10, 10)],
        'there and back to the start': [(0, 0), (10, 1), (20, 0), (10, -1), (0, 0)],
        'two fixes': [(0, 0), (4, 3)],
        'three collinear fixes': [(0, 0), (1, 1), (2, 2)],
        'spike': [(0, 0), (10, 0), (10.5, 7), (11, 0), (21, 0)],
        'sub-millimetre scale (a receiver standing still: distinct fixes 0.05 mm apart)': [(0, 0), (0.00004, 0.00003), (0.00008, 0), (0.00012, 0.00005), (0.00016, 0), (0.0002, 0.00004)],
        'a fix 0.05 mm after the farthest one': [(0, 0), (10, 0), (10, 5), (10.00003, 5.00004), (10, 0.5), (20, 0)],
        'a straight run on heading (3, 1) from (0.1, 0.7), then a turn': [(0.1 + 3 * k, 0.7 + k) for k in range(5)] + [(13.1, 9.7)],
        'five collinear fixes on heading (0.3, 0.7)': [(0.1 + 0.3 * k, 0.2 + 0.7 * k) for k in range(5)],
    }
    # timestamps: none (all equal, as above), increasing along the track, decreasing along it (a reversed track, a log stored newest first)
    TIMED = {'generic open line, timestamps increasing': ('generic open line', lambda k, n: 7 * k), 'generic open line, timestamps decreasing (a reversed track)': ('generic open line', lambda k, n: 7 * (n - k)),
             'spike, timestamps decreasing (a reversed track)': ('spike', lambda k, n: 100 - 9 * k)}
    eps_list = (0.00001, 0.25, 2.0, 6.0, 11.0, 25.0, 1.0e6)
    found = {}
    n_cases = 0
    msim = ctx.prog.module(SIM)
    modes = {k: (v.value if isinstance(v, ast.Constant) else None) for k, v in msim.consts.items() if k.startswith('MODE_SIMPLIFY')}
    fsim = ctx.prog.maybe_func(SIM + '.simplify')
    entries = [('douglas_peucker', fd, fn['__name__']('douglas_peucker')), ('visvalingam', fv, fn['__name__']('visvalingam'))]
    if fsim is not None and modes.get('MODE_SIMPLIFY_DOUGLAS_PEUCKER') is not None and modes.get('MODE_SIMPLIFY_VISVALINGAM') is not None:
        # the documented front door: simplify(track, tolerance, mode)
        sim = fn['__name__']('simplify')
        entries.append(('douglas_peucker', fd, lambda t_, e_: sim(t_, e_, modes['MODE_SIMPLIFY_DOUGLAS_PEUCKER'])))
        entries.append(('visvalingam', fv, lambda t_, e_: sim(t_, e_, modes['MODE_SIMPLIFY_VISVALINGAM'])))
        entries.append(('douglas_peucker', fd, lambda t_, e_: sim(t_, e_)))
    for entry_no, (algo, f, run) in enumerate(entries):
        for sname, pts in list(shapes.items()) + [(nm_, shapes[base_]) for nm_, (base_, _) in TIMED.items()]:
            clock = TIMED[sname][1] if sname in TIMED else None
            if entry_no >= 2:
                sname = sname + ' [through simplify()]'
            for eps in eps_list:
                t = T([O(k, *p_, sec=(clock(k, len(pts)) if clock else None)) for k, p_ in enumerate(pts)], 'u', 't')
                n_cases += 1
                case = {'algorithm': algo, 'track': sname, 'positions': [list(p_) for p_ in pts], 'tolerance': eps}
                try:
                    res = run(t, eps)
                except orders.Unsupported as ex:
                    raise shape_error('%s not interpretable: %s' % (algo, ex), f.loc())
                except orders.PROGRAM_ERRORS as ex:
                    found.setdefault((algo, 'fails'), (f, 'does not fail on repeated / coincident positions, closed loops included',
                                                       dict(case, exception='%s: %s' % (type(ex).__name__, str(ex)[:160]))))
                    continue
                kept = [o.fields.get('k') if isinstance(o, orders.Obj) else None for o in res.fields['_Track__POINTS']] if isinstance(res, orders.Obj) and '_Track__POINTS' in res.fields else None
                n = len(pts)
                if kept is None or any(k is None for k in kept) or kept != sorted(set(kept)) or not kept or kept[0] != 0 or kept[-1] != n - 1:
                    found.setdefault((algo, 'subsequence'), (f, 'returns a subsequence of the input observations in their original order that contains the first and the last one',
                                                             dict(case, **{'indices kept': kept})))
                    continue
                src_now = [(o.fields['k'], o.fields['position'].fields['E'], o.fields['position'].fields['N'], len(o.fields['features'])) for o in t.fields['_Track__POINTS']]
                if src_now != [(k, float(p_[0]), float(p_[1]), 0) for k, p_ in enumerate(pts)] or t.call('getListAnalyticalFeatures'):
                    found.setdefault((algo, 'source'), (f, 'leaves the input track as it was (no fix removed, no scratch feature left)',
                                                        dict(case, **{'input track after': src_now, 'features listed': t.call('getListAnalyticalFeatures')})))
                if res.call('getListAnalyticalFeatures'):
                    found.setdefault((algo, 'scratch'), (f, 'leaves no scratch feature on the result', dict(case, features=res.call('getListAnalyticalFeatures'))))
                if algo == 'douglas_peucker':
                    worst = 0.0
                    who = None
                    for k, p_ in enumerate(pts):
                        d = min(seg_dist(p_, pts[kept[j]], pts[kept[j + 1]]) for j in range(len(kept) - 1)) if len(kept) > 1 else math.hypot(p_[0] - pts[kept[0]][0], p_[1] - pts[kept[0]][1])
                        if d > worst:
                            worst, who = d, k
                    if worst > eps * (1 + 1e-9) + 1e-9:
                        found.setdefault((algo, 'tolerance'), (f, 'every input observation lies within the tolerance of the simplified polyline',
                                                               dict(case, **{'indices kept': kept, 'fix': who, 'its distance to the result': round(worst, 6)})))
    for (algo, key), (f, desc, wit) in sorted(found.items()):
        ctx.violation('C16.G', f, desc, wit, node=f.node, key=key)
    if not any(a_ == 'douglas_peucker' for a_, _ in found):
        ctx.ok('C16.G', fd, 'Douglas-Peucker: no failure, subsequence with both end fixes, input untouched, every fix within the tolerance of the result, on %d (configuration class, tolerance) cases' % (n_cases // 2), node=fd.node)
    if not any(a_ == 'visvalingam' for a_, _ in found):
        ctx.ok('C16.G', fv, 'Visvalingam: no failure, subsequence with both end fixes, input untouched, no scratch feature left, on %d cases' % (n_cases // 2), node=fv.node)
    ctx.extra['C16.G cases'] = n_cases


def rule_D(ctx):
    """C16.D distance_to_segment by interpretation, whatever way it is written: the distance from the point to the closed segment, on
    segments of twelve directions (axis-parallel ones included) at three magnitudes, the foot before / on / between / on / beyond
    the ends, and on zero-length segments (closed loops and repeated fixes give them): the distance to that point"""
    import math
    import itertools
    from .. import absint, orders
    f = ctx.prog.func(GEO + '.distance_to_segment')
    fn = absint.funcs(ctx, GEO, {})
    fn['sqrt'], fn['hypot'] = math.sqrt, math.hypot
    run = orders.make_func(f.node, fn)
    bad = None
    n = 0
    try:
        for (ax, ay), (dx, dy) in itertools.product(((1.0, 2.0), (-3.0, 0.5), (652000.0, 6861000.0)),
                                                    ((4, 0), (-4, 0), (0, 3), (0, -2.5), (4, 4), (-4, 4), (4, -4), (3, 1), (-2, 5), (1, -6), (8, 0.5), (0.01, 0.02), (0, 0))):
            bx, by = ax + dx, ay + dy
            L = math.hypot(bx - ax, by - ay)
            ux, uy = ((bx - ax) / L, (by - ay) / L) if L else (1.0, 0.0)
            for t, off in itertools.product((-0.5, 0.0, 0.25, 1.0, 1.5), (0.0, 1.5, -2.0)):
                qx, qy = ax + t * (bx - ax) - off * uy, ay + t * (by - ay) + off * ux
                if L == 0:
                    qx, qy = ax + 3.0 * t - off, ay + 4.0 * t + off
                tc = max(0.0, min(1.0, t)) if L else 0.0
                want = math.hypot(qx - (ax + tc * (bx - ax)), qy - (ay + tc * (by - ay)))
                n += 1
                try:
                    got = run(qx, qy, ax, ay, bx, by)
                except orders.PROGRAM_ERRORS as ex:
                    got = '%s: %s' % (type(ex).__name__, ex)
                slack = 64 * math.ulp(max(1.0, abs(ax), abs(ay)))
                if not isinstance(got, (int, float)) or isinstance(got, bool) or abs(got - want) > 1e-9 * max(1.0, want) + slack:
                    bad = bad or {'segment': [ax, ay, bx, by], 'point': [qx, qy], 'returned': got, 'distance to the closed segment': want}
    except orders.Unsupported as ex:
        raise shape_error('distance_to_segment not interpretable: %s' % ex, f.loc())
    ctx.check(bad is None, 'C16.D', f, 'distance_to_segment is the distance from the point to the closed segment, zero-length segments included (%d interpreted cases)' % n,
              witness=bad, node=f.node, key='distance-to-segment')



RULES = [
    ('C16.G', rule_G, 'quick'),
    ('C16.D', rule_D, 'quick'),
    ('C16.Z', weighed('C16.Z', rule_Z, ('C16.D', 'C16.G')), 'quick'),
]
MIN_OBLIGATIONS = 3
